#!/bin/bash
# usage: tools/confirm_seed_dir.sh <dir with patch.diff demo.py meta.json> [worktree]   -- confirm a seeded change in a scratch worktree
d=$1; wt=${2:-/tmp/repo-confirm}
[ -d $wt ] || git -C /repo worktree add -q --detach $wt HEAD
cd $wt || exit 2
git checkout -q --detach $(git -C /repo rev-parse HEAD); git checkout -q -- .
PYTHONPATH=$wt timeout 600 /venv/bin/python $d/demo.py >/dev/null 2>&1; clean=$?
git apply $d/patch.diff || { echo "$d apply failed"; exit 2; }
PYTHONPATH=$wt timeout 600 /venv/bin/python $d/demo.py >/dev/null 2>&1; patched=$?
cmd=$(python3 -c "import json;print(json.load(open('$d/meta.json')).get('tests_run',''))")
tests=$(echo "$cmd" | grep -o "tests/[A-Za-z0-9_/.]*\.py" | sort -u | tr '\n' ' ')
res="(no tests named)"
j=/tmp/junit_$(echo $d | tr '/' '_').xml
if [ -n "$tests" ]; then res=$(PYTHONPATH=$wt timeout 3000 /venv/bin/python -m pytest -q -p no:cacheprovider --timeout=900 $tests --junitxml=$j 2>&1 | tail -1; python3 /verif/tools/baseline_compare.py $j | tr '\n' ' '); rm -f $j; fi
git checkout -q -- .
echo "$d demo clean=$clean patched=$patched tests: $res"
