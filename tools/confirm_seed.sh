#!/bin/bash
# usage: tools/confirm_seed.sh <PROP> <n>   -- confirm a seeded change in its scratch worktree /tmp/seed/<PROP>
wt=${SEED_BASE:-/tmp/seed}/$1; d=$wt/out/$2
cd $wt || exit 2
git checkout -q -- . 
PYTHONPATH=$wt /venv/bin/python $d/demo.py >/dev/null 2>&1; clean=$?
git apply $d/patch.diff || { echo "apply failed"; exit 2; }
PYTHONPATH=$wt /venv/bin/python $d/demo.py >/dev/null 2>&1; patched=$?
cmd=$(python3 -c "import json;print(json.load(open('$d/meta.json')).get('tests_run',''))")
tests=$(echo "$cmd" | grep -o "tests/[A-Za-z0-9_/.]*" | sort -u | tr '\n' ' ')
res="(no tests named)"
if [ -n "$tests" ]; then res=$(timeout 3000 /venv/bin/python -m pytest -q -p no:cacheprovider --timeout=900 $tests --junitxml=${SEED_BASE:-/tmp/seed}/junit_$1_$2.xml 2>&1 | tail -1; python3 /verif/tools/baseline_compare.py ${SEED_BASE:-/tmp/seed}/junit_$1_$2.xml | tr '\n' ' '); fi
git checkout -q -- .
echo "$1/$2 demo clean=$clean patched=$patched tests: $res"
