#!/bin/bash
# usage: tools/harmless_eval.sh <dir with <n>/patch.diff> <scratch worktree> [checks...]
# Applies each behaviour-preserving patch to a scratch worktree of /repo and runs the translator-based checks
# (and the value check of the touched family) against it: any VIOLATION is a FALSE alarm to be analysed.
src=$1; S=$2; shift 2
cd "$(dirname "$0")/.."
[ -d $S ] || git -C /repo worktree add -q --detach $S HEAD
git -C $S checkout -q --detach $(git -C /repo rev-parse HEAD); git -C $S checkout -q -- .
for d in $(ls -d $src/*/ | sort -V); do
  n=$(basename $d)
  [ "$n" -lt "${START:-1}" ] && continue
  git -C $S apply $d/patch.diff || { echo "$n APPLY-FAILED"; continue; }
  files=$(python3 -c "import json;print(' '.join(json.load(open('$d/meta.json')).get('files',[])))")
  checks="C09 C10 C11 C14 C18 C19"
  case "$files" in *synclib*|*toolkit*|*metric.py*) checks="$checks C02 C15";; esac
  case "$files" in *classification*) checks="$checks C04";; esac
  case "$files" in *ranking*|*text*) checks="$checks C08";; esac
  case "$files" in *regression*|*aggregation*|*image*|*statistical*) checks="$checks C07";; esac
  case "$files" in *window*) checks="$checks C13 C01";; esac
  for p in $checks; do
    out=$(VERIF_REPO=$S ./check $p --tier quick 2>/dev/null)
    v=$(echo "$out" | grep -c '^VIOLATION')
    echo "patch $n ($files) $p violations=$v"
    if [ "$v" != "0" ]; then
      echo "$out" | grep '^VIOLATION' | head -4 | while read l; do f=$(echo $l | sed 's/.*replay=\([^ ]*\).*/\1/'); python3 -c "
import json;j=json.load(open('$f'));print('     ', j.get('kind'), j.get('target'), str(j.get('broken')), str(j.get('observed') or j.get('detail'))[:400])"; done
    fi
  done
  git -C $S checkout -q -- .
done
