#!/usr/bin/env python3
"""Compose /verif/MANIFEST.json from the per-property table below (claimed checks) and NOT_CLAIMED."""
import json
from pathlib import Path

ROOT = Path(__file__).resolve().parent.parent
ENGINE = "coq-proof+correspondence"

P = {
 "C01": ("generic merge-tree theorem (any number of shards incl. empty ones, any merge tree, fresh or updated targets, post-merge updates) proved once in Coq over a metric algebra; instances for the additive, cache, semilattice, streaming-moment, ordered-cache and ring-buffer families (per-class corollaries in Props/C01_*.v); documented deviations (Throughput, ordered metrics, windows, retrieval) have their own closed forms or refutations; windowed classes: lifetime value and total_updates exact for EVERY merge tree and later updates (window_lifetime_any_merge_tree), closed form of the windowed value of nested / sequential merges (window_value_any_merge_tree, window_sequential_merge_window)",
         "exact arithmetic: float re-association is absorbed by a 2^-17 / 2^-40 tolerance on exactly representable inputs; models tied to the classes by state-level history correspondence (differential); classes without Alg instance (MSE/R2/PSNR/NE/Perplexity/AUC/Wasserstein adoption shapes, retrieval) are covered by the correspondence and the direct merge-tree-vs-single stream only",
         "Coq proof (nested induction over merge trees, monoid homomorphism) + differential correspondence of executable Gallina models (extracted OCaml, cross-checked by vm_compute)"),
 "C03": ("generic theorem class(update*; compute) = gamma(beta(concatenation)) for every monoid-abstracted metric whose batch statistic is additive over concatenation; functional-form models per class tied to the real functionals; class-vs-functional executed on every catalogue class, half of the trials with the same numbers in another presentation (float64 scores, uint8/int8/int16/int32 labels, non-contiguous views); binned classes on boundary scores (on / one ulp beside every threshold, float64 scores beside float32 thresholds); constructor defaults exercised for every class",
         "presentation differences (leading num_tasks dimension, dtype width) are normalised before comparison; additivity of beta over concatenation is proved for Mean/Sum and by the family builders where stated, otherwise tied by correspondence",
         "Coq proof (corollary of the merge-tree theorem) + three-way differential correspondence class / functional / model"),
 "C04": ("algo = textbook-count theorems for thresholding, argmax, top-k rank rule, scatter/COO counting, every average and every confusion-matrix normalisation, NaN conventions via extended rationals, totality on valid input; exhaustive small-domain comparison impl vs algo vs spec; the correspondence is repeated with float64 scores / narrow integer labels / non-contiguous views, with 130-300 samples per call (narrow counts wrap) and with 129 / 130 / 257 classes",
         "multilabel / top-k multilabel criteria proved per sample (batch lifting tied, not proved); torch.topk tie choice taken from torch and checked admissible by the model",
         "Coq proof (induction over sample lists) + exhaustive small domains + random correspondence"),
 "C05": ("AUROC pipeline = weighted pairwise statistic with ties 1/2 for EVERY descending-sorted permutation; PR points = counts >= threshold per distinct score followed by (1,0); AUPRC = Riemann sum; recall@precision = max recall among qualifying points; multiclass/multilabel = one-vs-rest / per-label; all ten classes modelled and tied (also with 129 / 130 / 257 classes or labels and in float64 / narrow-label presentations)",
         "exact arithmetic over Qc; scores on a dyadic grid (legitimate because scores are only compared: C17); use_fbgemm=False only",
         "Coq proof (collapse/groups/closed form, permutation invariance) + exhaustive 3-grid enumeration n<=5/6 + tie-swept random correspondence"),
 "C06": ("searchsorted/histc/suffix-sum pipeline = per-threshold counting for any sorted threshold list (duplicates allowed); vectorized = memory mode (flattened index bijection); binned AUROC = exact AUROC of floored scores (full), binned AUPRC = exact AUPRC of floored scores; boundary stream: every threshold form (int -> linspace, list, float32 / float64 tensor) with float32 and float64 scores on / one ulp beside every threshold against exact counting, mode vs mode and the floor theorems",
         "in the model-based streams integer thresholds are generated only with n-1 a power of two so that linspace is exact on the grid; the float32 rounding of thresholds next to a score is covered at implementation level by the boundary stream (exact comparison in float64), not by the model",
         "Coq proof + both-modes differential + exhaustive n<=4 over a 5-point grid"),
 "C07": ("exact-arithmetic theorems: Chan/streaming covariance = two-pass, R2 sufficient statistics = definition (all modes, adjusted, guards), weighted MSE incl. clamp denominator, trapezoid AUC with stable sort, PSNR/NE/perplexity sufficient statistics (log/exp symbolic), throughput; Wasserstein partial",
         "PARTIAL w.r.t. floating-point rounding: theorems are over Q; inputs are well-conditioned and exactly representable; Frechet distance eigenvalue routine uninterpreted; FrechetAudioDistance has no value model",
         "Coq proof over Qc (ring/field) + float64 correspondence (tolerance 2^-40; 2^-17 where the code computes in float32)"),
 "C08": ("hit rate / reciprocal rank rank rule, retrieval precision/recall functionals for every k/limit_k_to_size, top-k retention, CTR, weighted calibration, collisions, frequency; row DP = Levenshtein recurrence = textbook distance (uniqueness), WER/WIP/WIL, BLEU clipped counts / closest reference / brevity penalty; class forms on all data seen (retrieval classes: positive theorems for the repaired code, refutations with witnesses kept for the pre-fix variant; the harness detects which variant the tree implements)",
         "retrieval statements under the property's proviso 'scores without ties'; BLEU exp/log symbolic; str.split glue exercised by mixed-whitespace rendering",
         "Coq proof + exhaustive edit-distance domain + random correspondence"),
 "C09": ("value-level bisimulation: load(state_dict) / clone reproduce every continuation when all attributes are registered; registry table regenerated from the AST proves attributes written outside __init__ are registered (windowed cursor refuted with witness); base-class skeletons prove state_dict/load/_add_state copy; restore-vs-original executed on every class at random checkpoints with continuations that wrap windows",
         "pickle/deepcopy themselves trusted; alias classification table of torch operations trusted and exercised dynamically",
         "Coq proof (pool semantics, effect-skeleton soundness) + AST translation regenerated each run + differential restore checks"),
 "C10": ("reset ~ fresh bisimulation for registered-only models; generated registry/reset table (attributes re-bound by an overriding reset() accepted); reset-vs-fresh executed on every class with continuations long enough to wrap windows",
         "same trusted base as C09",
         "Coq proof + AST translation regenerated each run + differential reset checks"),
 "C11": ("soundness theorem of the flow-insensitive alias check (in-place writes of a checked class only reach locations private to the writer), compute-purity, functional-argument immutability over skeletons regenerated from the AST of every class/functional; value-model frame theorems; storage/argument checks on every class incl. deferred checks of earlier arguments; sync clause: PrepLaws (prep idempotent, invisible to compute and to every later observation) proved for the additive and cache functors and all 16 classes overriding _prepare_for_merge_state, sync_leaves_local_results_unchanged / sync_repeatable / synced_metric_is_independent; every class synced on the checking transport (local compute before/after, first vs second sync)",
         "soundness is relative to the classification of torch operations as aliasing/fresh (trusted table, exercised dynamically); that the toolkit writes the local object only through _prepare_for_merge_state is modelled (tied by the effect skeletons and the sync stream), not derived from the protocol model",
         "Coq proof (heap semantics, invariant preservation) + AST translation regenerated each run + differential non-interference checks"),
 "C12": ("order invariance (permutation of updates with commutative abstraction) and batching invariance (additive beta) proved generically; per-family corollaries; the same sample multiset re-batched / re-ordered on the real classes",
         "per-sample-order metrics and AUC(reorder=False) exempt as documented; retrieval under tie-free scores",
         "Coq proof (corollaries of the merge-tree theorem) + differential re-batching / re-ordering"),
 "C13": ("ring buffer refines 'last N updates' queue for the four update-granular classes (windowed and lifetime values), sample-granular buffer holds the last N samples (three insertion cases) and compute() = AUROC spec of exactly those samples for all scores incl. 0 and all window sizes (model of the repaired code; the pre-fix variant keeps its refutations); window_merge_pools for merges; step-by-step state correspondence and windowed-vs-non-windowed direct stream in which the harness overwrites the tensors it passed",
         "NE log terms symbolic; permutation invariance of the AUROC kernel imported from C05",
         "Coq proof (refinement invariant by induction over updates) + step-by-step correspondence"),
 "C14": ("commit-order soundness (a raising update has written nothing) over skeletons regenerated from the AST with a discharge list; failure atomicity and survival executed by fault injection in sandboxed workers at every position of valid histories (single-argument faults, out-of-range indices, and JOINT re-layouts of all data arguments that only the metric's own layout contract can reject); functional arguments bit-identical",
         "PARTIAL: memory safety / not crashing / not hanging are properties of native kernels; the proof covers the Python layer's commit discipline only; worker exit status is supporting evidence",
         "Coq proof (abstract Clean/Dirty execution) + AST translation + sandboxed fault injection"),
 "C15": None, "C02": None,
 "C16": ("masked_scatter row-locality and 2-D AUROC kernel = row-wise map of the 1-D kernel, multiclass PR pipeline decomposition (Props/C16_auroc.v); multi-slice vs single-slice results executed on every sliced metric with slices of different tie structure and degeneracy",
         "metrics implemented as Python loops / sum(dim) over slices are definitional (assurance = correspondence)",
         "Coq proof + differential slice decomposition"),
 "C17": ("order-only dependence of the rank specs (AUROC pairwise statistic, PR counts, rank rule), degree-0 homogeneity in weights, duplication and class-permutation equivariance proved on the specs that C04/C05/C08 tie to the code; metamorphic pairs executed on inputs up to 90000 samples, with maps that squeeze all scores into a band below float32 resolution, negative scores, weight factors 2^-40 .. 2^40, functional and class forms",
         "maps restricted to exact strictly increasing maps on the dyadic grid (float64); power-of-two weight factors",
         "Coq proof (corollaries of specs) + metamorphic differential testing on large inputs"),
 "C18": ("check <-> documented shape contract equivalence proved per input-check function over ShapeLang terms regenerated from the AST on every run; exhaustive single-argument shape perturbation of valid calls (incl. two extra dimensions and trailing dimensions that broadcast against the sample dimension) compared with the contract verdict",
         "value-dependent conditions are opaque atoms; contracts hand-written from docstrings",
         "Coq proof over AST-regenerated definitions + exhaustive perturbation"),
 "C19": ("RNE accumulator model: every history of non-negative integer increments is counted exactly by wide kinds up to 2^53; every narrow kind refuted; the table of accumulator kinds is re-introspected from /repo each run and proved wide-or-known; update and merge paths executed on injected boundary states bit-exactly; ADDEND PATH: model acc_add_via (roundings through the kinds an addend passes before the accumulator), totals_exact_for_wide_paths / narrow_path_refuted, path table re-introspected each run and proved wide-or-known (all_paths_wide_or_known, path_excuses_are_live); large-addend stream with an exact integer oracle",
         "non-integer weights outside the exactness theorem; RNE is a Z-level definition validated bit-exactly against torch on the boundary sweep",
         "Coq proof + dynamic introspection regenerated each run + bit-exact boundary injection"),
}
NOT_CLAIMED = {}


def main():
    frag = {}
    for f in (ROOT / "manifest_fragments").glob("*.json"):
        for c in json.loads(f.read_text())["checks"]:
            frag[c["property_id"]] = c
    checks = []
    for pid in sorted(P):
        if pid in NOT_CLAIMED:
            continue
        if P[pid] is None:
            c = dict(frag[pid])
            c["replay_cmd_template"] = "./check replay {path}"
            checks.append(c)
            continue
        text, note, tech = P[pid]
        checks.append({"property_id": pid, "quick_cmd": f"./check {pid} --tier quick", "thorough_cmd": f"./check {pid} --tier thorough",
                       "evidence_file": f"evidence/{pid}.json", "replay_cmd_template": "./check replay {path}", "engine": ENGINE,
                       "level_claimed": {"category": "proof", "text": text, "design_ref": f"DESIGN.md 4/{pid} and 11"},
                       "level_note": note, "technique": tech})
    m = {"version": 1, "setup_cmd": "./setup.sh",
         "hooks": {"guard": "TORCHEVAL_VERIF", "enable": "no hooks inside /repo are needed: checks import /repo's working tree (PYTHONPATH=/repo) and regenerate the translated Coq files from it",
                   "baseline_off_cmd": "cd /repo && /venv/bin/python -m pytest -ra -q -p no:cacheprovider --timeout=900 --continue-on-collection-errors",
                   "source_commits": [], "add_only": True},
         "engines": [{"name": ENGINE, "path": "check", "serves_properties": [c["property_id"] for c in checks],
                      "kind_free_text": "Coq 8.16 theorems over executable Gallina models; models tied to /repo on every run by AST translators regenerating Coq definitions and by differential correspondence (extracted OCaml, cross-checked in Coq by vm_compute)"}],
         "checks": checks,
         "notes": "see DESIGN.md (sections 11-13 describe what was built, the findings and the seeded changes); known_findings.json lists known and fixed findings",
         "not_applicable": [{"property_id": k, "reason": v} for k, v in sorted(NOT_CLAIMED.items())]}
    (ROOT / "MANIFEST.json").write_text(json.dumps(m, indent=1))
    print("MANIFEST:", [c["property_id"] for c in checks], "not claimed:", sorted(NOT_CLAIMED))


if __name__ == "__main__":
    main()
