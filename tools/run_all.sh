#!/bin/bash
# usage: tools/run_all.sh [quick|thorough] [props...]
cd "$(dirname "$0")/.."; tier=${1:-quick}; shift
props=${@:-C01 C02 C03 C04 C05 C06 C07 C08 C09 C10 C11 C12 C13 C14 C15 C16 C17 C18 C19}
mkdir -p out/runall
for p in $props; do
  s=$(date +%s); ./check $p --tier $tier > out/runall/$p.out 2> out/runall/$p.err; rc=$?; e=$(date +%s)
  echo "$p rc=$rc $((e-s))s violations=$(grep -c '^VIOLATION' out/runall/$p.out) known=$(grep -c '^KNOWN' out/runall/$p.out)"
done
