# One-off scaffold (NOT run by any check): regenerates the text of coq/Proofs/ShapesP.v, ShapesRefutedP.v,
# ShapesRefutedSlowP.v and coq/Props/C18.v from out/gen/shape_checks.json and the witness table W below.
# Those files are ordinary hand-maintained sources afterwards.
import json
meta = json.load(open('/work/shapes/out/gen/shape_checks.json'))
T = 'ATensor'
def sh(l): return '(ATensor [' + '; '.join(f'{x}%nat' for x in l) + '])'
# refutation witnesses: name -> list of (args, atoms, default-atom)
W = {
 '_auc_update_input_check': [([('x', sh([2,3,4])), ('y', sh([2,3,4])), ('n_tasks', '(AInt 2)')], [], 'None')],
 '_binary_auprc_update_input_check': [([('input', sh([])), ('target', sh([])), ('num_tasks', '(AInt 1)')], [], 'None'),
                                      ([('input', sh([2])), ('target', sh([2])), ('num_tasks', '(AInt 2)')], [], 'None')],
 '_binary_auroc_update_input_check': [([('input', sh([])), ('target', sh([])), ('num_tasks', '(AInt 1)'), ('weight', 'ANone')], [], 'None'),
                                      ([('input', sh([2,3,4])), ('target', sh([2,3,4])), ('num_tasks', '(AInt 2)'), ('weight', 'ANone')], [], 'None')],
 '_binary_binned_auprc_update_input_check': [([('input', sh([2,3])), ('target', sh([2,3])), ('num_tasks', '(AInt 1)'), ('threshold', sh([5]))], [], 'None')],
 '_binary_binned_auroc_param_check': [([('num_tasks', '(AInt 1)'), ('threshold', sh([2,2]))], [], '(Some false)')],
 '_binary_binned_auroc_update_input_check': [([('input', sh([])), ('target', sh([])), ('num_tasks', '(AInt 1)'), ('threshold', sh([5]))], [], 'None')],
 '_binned_precision_recall_curve_param_check': [([('threshold', sh([2,2]))], [], '(Some false)')],
 '_confusion_matrix_update_input_check': [([('input', sh([3])), ('target', sh([3])), ('num_classes', '(AInt 3)')],
      [('torch.min(input) < 0', 'true'), ('torch.min(target) < 0', 'true')], '(Some false)')],
 '_mean_squared_error_update_input_check': [([('input', sh([3])), ('target', sh([3])), ('sample_weight', sh([3,1]))], [], 'None'),
                                            ([('input', sh([])), ('target', sh([])), ('sample_weight', 'ANone')], [], 'None')],
 '_multiclass_binned_auroc_param_check': [([('num_classes', '(AInt 3)'), ('threshold', sh([2,2])), ('average', '(AStr "macro")')], [], '(Some false)')],
 '_multilabel_accuracy_update_input_check': [([('input', sh([3])), ('target', sh([3]))], [], 'None')],
 '_ne_input_check': [([('input', sh([])), ('target', sh([])), ('from_logits', '(ABool true)'), ('num_tasks', '(AInt 1)'), ('weight', 'ANone')], [], '(Some false)')],
 '_r2_score_update_input_check': [([('input', sh([])), ('target', sh([]))], [], 'None')],
 '_topk_multilabel_accuracy_param_check': [([('criteria', '(AStr "exact_match")'), ('k', '(AInt 1)')], [], 'None')],
 '_wasserstein_update_input_check': [([('x', sh([])), ('y', sh([])), ('x_weights', 'ANone'), ('y_weights', 'ANone')], [], '(Some true)')],
 '_weighted_calibration_input_check': [([('weight', 'AFloat'), ('input', sh([])), ('target', sh([])), ('num_tasks', '(AInt 1)')], [], 'None'),
                                       ([('weight', 'AFloat'), ('input', sh([2,3,4])), ('target', sh([2,3,4])), ('num_tasks', '(AInt 2)')], [], 'None')],
 '_window_mean_squared_error_update_input_check': [([('input', sh([])), ('target', sh([])), ('sample_weight', 'ANone'), ('num_tasks', '(AInt 1)')], [], 'None')],
}
NO_COMPLETENESS = {'_topk_multilabel_accuracy_param_check'}
SLOW = {'_ne_input_check', '_wasserstein_update_input_check'}
HDR = '''From Coq Require Import ZArith List Bool String Lia.
From TE Require Import Models.ShapeLang Generated.ShapeChecks Models.Contracts Proofs.ShapesTac.
Import ListNotations.
Open Scope string_scope.

'''
def beq(cn):
    return (f"Lemma beq_{cn} e : wf sig_{cn} e -> accepts chk_{cn} e = contractb_{cn} e.\n"
            f"Proof. intros H. unfold chk_{cn}, contractb_{cn}. shape_solve H. Qed.\n"
            f"Lemma check_iff_contract_{cn} : forall e, wf sig_{cn} e -> (accepts chk_{cn} e = true <-> contract_{cn} e).\n"
            f"Proof. intros e H. exact (iff_of_beq _ _ (beq_{cn} e H)). Qed.\n\n")
out = ("(* C18: for every check function whose GENERATED term (Generated/ShapeChecks.v) is equivalent to the\n"
       "   hand-written docstring contract (Models/Contracts.v): the equivalence, by the one generic tactic. *)\n" + HDR)
for n, m in sorted(meta.items()):
    if n in W: continue
    out += beq(m['coq'])
open('/work/shapes/coq/Proofs/ShapesP.v', 'w').write(out)

def wit(cn, i, w):
    args, atoms, d = w
    a = '; '.join(f'("{k}", {v})' for k, v in args)
    at = '; '.join(f'("{k}", {v})' for k, v in atoms)
    return f"Definition wit_{cn}_{i} : env := env_of [{a}] [{at}] {d}.\n"
def refuted(n, m):
    cn = m['coq']; ws = W[n]
    s = ''.join(wit(cn, i, w) for i, w in enumerate(ws))
    if n not in NO_COMPLETENESS:
        s += (f"(* completeness half: every documented input is accepted *)\n"
              f"Lemma impl_{cn} e : wf sig_{cn} e -> implb (contractb_{cn} e) (accepts chk_{cn} e) = true.\n"
              f"Proof. intros H. unfold chk_{cn}, contractb_{cn}. shape_solve H. Qed.\n"
              f"Lemma contract_implies_accepts_{cn} : forall e, wf sig_{cn} e -> contract_{cn} e -> accepts chk_{cn} e = true.\n"
              f"Proof. intros e H C. exact (implb_true_intro _ _ (impl_{cn} e H) C). Qed.\n")
    alts = ''.join(f"\n        | right; exists wit_{cn}_{i}; vm_compute; repeat split; congruence" for i in range(len(ws)))
    s += (f"(* the equivalence itself: refuted on the as-is tree by the witness(es) above; if the check is repaired in /repo the\n"
          f"   left disjunct is proved instead by the generic tactic (same statement checks on both trees) *)\n"
          f"Lemma check_iff_contract_{cn}_refuted_or_fixed :\n"
          f"  (forall e, wf sig_{cn} e -> accepts chk_{cn} e = contractb_{cn} e)\n"
          f"  \\/ (exists e, wf sig_{cn} e /\\ accepts chk_{cn} e <> contractb_{cn} e).\n"
          f"Proof.\n  first [ left; intros e H; unfold chk_{cn}, contractb_{cn}; solve [shape_solve H]{alts} ].\nQed.\n"
          f"Definition refuted_now_{cn} : bool := " + ' || '.join(f"negb (Bool.eqb (accepts chk_{cn} wit_{cn}_{i}) (contractb_{cn} wit_{cn}_{i}))" for i in range(len(ws))) + ".\n\n")
    return s
out = ("(* C18: check functions whose generated term is NOT equivalent to the docstring contract on the as-is tree:\n"
       "   witness environments, the completeness half (contract -> accepted), and the as-is-or-fixed dichotomy. *)\n" + HDR)
out2 = out
for n, m in sorted(meta.items()):
    if n not in W: continue
    if n in SLOW: out2 += refuted(n, m)
    else: out += refuted(n, m)
open('/work/shapes/coq/Proofs/ShapesRefutedP.v', 'w').write(out)
open('/work/shapes/coq/Proofs/ShapesRefutedSlowP.v', 'w').write(out2)

# Props/C18.v
pr = ('''(* C18 -- Shape contract: inconsistent sample counts are rejected, never broadcast.
   Statements only.  All theorems are over the GENERATED check terms (Generated/ShapeChecks.v, re-translated from
   /repo on every run by tools/tr_shapes.py), so a weakened / dropped / edited condition in /repo breaks a proof.
     check_iff_contract_<f>            : for every well-typed argument environment the translated check function accepts
                                         exactly the inputs of the hand-written docstring contract (Models/Contracts.v);
     contract_implies_accepts_<f>      : (_partial: completeness half only) every documented input is accepted;
     check_iff_contract_<f>_refuted    : the equivalence fails on the as-is tree -- witness environment, checked by
                                         computation; stated as a dichotomy so that the same file also checks on a tree
                                         in which the check function has been repaired. *)
From Coq Require Import ZArith List Bool String.
From TE Require Import Models.ShapeLang Generated.ShapeChecks Models.Contracts Proofs.ShapesTac Proofs.ShapesP
  Proofs.ShapesRefutedP Proofs.ShapesRefutedSlowP.
Import ListNotations.
Open Scope string_scope.

(* fail-closed translation: no check function was left untranslated *)
Theorem all_check_functions_translated : untranslated = [].
Proof. reflexivity. Qed.
Theorem every_check_function_has_a_contract :
  forallb (fun c => match find_contract (fst c) all_contracts with Some _ => true | None => false end) all_checks = true.
Proof. vm_compute. reflexivity. Qed.

''')
pa = ['all_check_functions_translated', 'every_check_function_has_a_contract']
for n, m in sorted(meta.items()):
    cn = m['coq']
    if n not in W:
        pr += (f"Theorem check_iff_contract_{cn} : forall e, wf sig_{cn} e -> (accepts chk_{cn} e = true <-> contract_{cn} e).\n"
               f"Proof. exact ShapesP.check_iff_contract_{cn}. Qed.\n")
        pa.append(f'check_iff_contract_{cn}')
pr += "\n(* ---- non-equivalences on the current tree ---- *)\n"
for n, m in sorted(meta.items()):
    cn = m['coq']
    if n in W:
        mod = 'ShapesRefutedSlowP' if n in SLOW else 'ShapesRefutedP'
        if n not in NO_COMPLETENESS:
            pr += (f"Theorem contract_implies_accepts_{cn}_partial : forall e, wf sig_{cn} e -> contract_{cn} e -> accepts chk_{cn} e = true.\n"
                   f"Proof. exact {mod}.contract_implies_accepts_{cn}. Qed.\n")
            pa.append(f'contract_implies_accepts_{cn}_partial')
        pr += (f"Theorem check_iff_contract_{cn}_refuted :\n"
               f"  (forall e, wf sig_{cn} e -> accepts chk_{cn} e = contractb_{cn} e)\n"
               f"  \\/ (exists e, wf sig_{cn} e /\\ accepts chk_{cn} e <> contractb_{cn} e).\n"
               f"Proof. exact {mod}.check_iff_contract_{cn}_refuted_or_fixed. Qed.\n")
        pa.append(f'check_iff_contract_{cn}_refuted')
pr += '''
(* which of the dichotomies are refutations on THIS tree (computed; reported by the check as a note) *)
Definition refuted_now : list (string * bool) := [
''' + ';\n'.join(f'  ("{n}", refuted_now_{m["coq"]})' for n, m in sorted(meta.items()) if n in W) + '''
].
Example refuted_now_is_computable : List.length refuted_now = %d%%nat.
Proof. reflexivity. Qed.

(* non-vacuity: the accuracy check accepts a documented call and rejects a mismatched one *)
Example accuracy_accepts_documented :
  accepts chk_accuracy_update_input_check
    (env_of [("input", ATensor [4; 3]%%nat); ("target", ATensor [4]%%nat); ("num_classes", AInt 3); ("k", AInt 2)] [] None) = true.
Proof. vm_compute. reflexivity. Qed.
Example accuracy_rejects_mismatch :
  accepts chk_accuracy_update_input_check
    (env_of [("input", ATensor [4; 3]%%nat); ("target", ATensor [5]%%nat); ("num_classes", AInt 3); ("k", AInt 2)] [] None) = false.
Proof. vm_compute. reflexivity. Qed.

''' % len(W)
pr += ''.join(f'Print Assumptions {t}.\n' for t in pa)
open('/work/shapes/coq/Props/C18.v', 'w').write(pr)
print(len(pa), 'theorems')
