#!/usr/bin/env python3
"""Compare a junit xml of a (partial) test run with BASELINE.json's stable_pass list:
prints stable tests that did not pass in this run (only among tests that were collected)."""
import json, sys, xml.etree.ElementTree as ET
stable = set(json.load(open('/root/.vp/BASELINE.json'))['stable_pass'])
root = ET.parse(sys.argv[1]).getroot()
ran, bad = set(), []
for tc in root.iter('testcase'):
    cls = tc.get('classname'); name = tc.get('name')
    tid = f"{cls}::{name}"
    ran.add(tid)
    failed = any(ch.tag in ('failure', 'error') for ch in tc) or any(ch.tag == 'skipped' for ch in tc)
    if failed and tid in stable:
        bad.append(tid)
print(f"ran {len(ran)} tests, {len(ran & stable)} of them stable; stable tests not passing: {len(bad)}")
for b in bad: print("  REGRESSION", b)
