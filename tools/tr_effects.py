#!/usr/bin/env python3
"""tr_effects.py -- T-tr translator for the effect layer L-eff (DESIGN 2.1/2.2, Appendix B).

FAIL-CLOSED translation, from the Python `ast` of the working tree that is first on PYTHONPATH
(the driver puts core.REPO there), of

  * every metric class exported by torcheval.metrics (+ Wasserstein1D; FrechetInceptionDistance and
    StructuralSimilarity are out of scope, DESIGN 9): the effect skeleton of update / compute /
    merge_state / _prepare_for_merge_state with helper methods `self._x(...)` inlined, in the
    language
        Bind f rhs | InPlace f | Append f rhs | BindElem f rhs | Clobber rhs | MayRaise label
        | If a b | Loop b | Seq a b | Skip         rhs ::= Fresh | Imm | SelfAlias f | SrcAlias f | ArgAlias
    (`Clobber r` = an in-place write through a LOCAL that may alias r; the checker rejects it for
    r = SrcAlias/ArgAlias, the translator never emits it for Fresh/Imm, and emits `InPlace g`
    for SelfAlias g)                                                  -> coq/Generated/Skeletons.v
  * the four base-class methods of metric.py (_add_state, reset, state_dict, load_state_dict, plus
    `to`) as per-kind skeletons over the placeholders "$f" / "$default" / "$out"     -> Skeletons.v
  * registered state names + kinds per class, attributes written outside __init__ -> Registry.v
  * for every function under torcheval/metrics/functional: the parameters it may mutate in place
    (directly, through a local alias, or through a torcheval callee)          -> FunctionalArgs.v
  * the live known-finding excuses (from known_findings.json)                   -> KnownEffects.v
  * a JSON report for the check parts (localisation only)          -> out/effects/report.json

Any construct outside the grammar raises Abort: the method (function) is emitted as `None`
(every checker rejects None) and listed under "aborted" in the report -> broken tie.

Dynamic part (documented, small): whether an attribute holds a tensor / list of tensors / dict /
Python number comes from instantiating each class (CTORS below) and looking at vars(obj); so
`self.n += 1` on a Python int is a re-binding of an immutable, not an in-place tensor write.

Flow sensitivity: locals are tracked flow-sensitively (strong updates, join at if/loop, loop
bodies iterated to a fixpoint); `return/raise/break/continue` end a path (the continuation is
copied into the branches of an `if` that may terminate), so the emitted skeleton's traces
include every trace of the method (prefix-closed over-approximation).

Trusted classification table (validated dynamically by the C11 storage checks): VIEW_METHODS /
ALIAS_FUNCS may return (a view of) their first argument; CONTAINER_FUNCS pass their arguments'
elements through; every other call / arithmetic expression outside torcheval returns fresh
storage; calls into torcheval functions use a computed summary (returned aliases, mutated params).
"""
from __future__ import annotations

import ast
import hashlib
import importlib
import importlib.util
import inspect
import json
import os
import sys
import textwrap
from pathlib import Path

HERE = Path(__file__).resolve().parent
ROOT = HERE.parent
sys.path.insert(0, str(ROOT))
from vlib import effects_check as EC  # noqa: E402
from vlib.core import write_if_changed  # noqa: E402

GEN = ROOT / "coq" / "Generated"
REPORT = ROOT / "out" / "effects" / "report.json"
ENTRY_METHODS = ["update", "compute", "merge_state", "_prepare_for_merge_state"]
BASE_METHODS = ["_add_state", "reset", "state_dict", "load_state_dict", "to"]
OUT_OF_SCOPE = {"FrechetInceptionDistance", "StructuralSimilarity", "Metric"}
NOT_WRITTEN_SCAN = {"__init__", "to"}      # `to` only moves states / modules between devices

VIEW_METHODS = {
    "to", "detach", "squeeze", "unsqueeze", "reshape", "view", "flatten", "t", "transpose",
    "contiguous", "float", "double", "long", "int", "half", "bool", "type", "type_as", "expand",
    "expand_as", "permute", "view_as", "narrow", "select", "unbind", "split", "chunk", "cpu", "cuda",
    "movedim", "swapaxes", "diagonal", "unflatten", "ravel", "as_strided", "requires_grad_",
    "values", "items", "keys", "get", "nan_to_num_", "T", "mT", "H", "mH", "real", "imag", "data",
    "tensor_split", "unfold", "squeeze_", "unsqueeze_", "resolve_conj", "resolve_neg", "positive",
    "broadcast_to", "reshape_as", "indices",
}
VIEW_ATTRS = {"T", "mT", "H", "mH", "real", "imag", "data"}
IMM_ATTRS = {"shape", "ndim", "dtype", "device", "is_cuda", "requires_grad", "layout", "is_sparse",
             "__class__", "__name__", "nbytes", "itemsize", "is_floating_point"}
ALIAS_FUNCS = {"as_tensor", "asarray", "from_numpy", "atleast_1d", "atleast_2d", "squeeze", "unsqueeze",
               "reshape", "flatten", "t", "transpose", "broadcast_to", "ravel", "narrow", "select",
               "permute", "movedim", "swapaxes", "split", "chunk", "unbind", "detach", "view_as_real",
               "broadcast_tensors", "diagonal", "real", "imag", "unflatten", "tensor_split", "cast"}
CONTAINER_FUNCS = {"zip", "enumerate", "list", "tuple", "reversed", "sorted", "iter", "next", "set",
                   "dict", "chain", "defaultdict", "deque"}
NONRAISING_METHODS = {"to", "detach", "clone", "size", "dim", "numel", "append", "extend", "items", "keys", "values"}
NONRAISING_FUNCS = {"len", "range", "isinstance", "super"}
# function spellings of the arithmetic operators (a + b == torch.add(a, b)): same classification as ast.BinOp
ARITH_FUNCS = {"add", "sub", "subtract", "mul", "multiply", "div", "divide", "true_divide", "neg", "negative"}
FORBIDDEN_CALLS = {"getattr", "setattr", "delattr", "exec", "eval", "vars", "globals", "locals", "__import__"}
LIST_MUTATORS = {"append", "extend", "insert"}
LIST_SHRINKERS = {"pop", "clear", "remove", "reverse", "sort"}
IMM_ANNOT = {"int", "float", "bool", "str", "int | None", "float | None", "bool | None", "str | None",
             "Optional[int]", "Optional[float]", "Optional[str]", "Optional[bool]"}


class Abort(Exception):
    pass


# --------------------------------------------------------------------------------------------
# skeleton helpers
# --------------------------------------------------------------------------------------------
SKIP = ("Skip",)


def seq(items):
    items = [x for x in items if x is not None and x != SKIP]
    if not items:
        return SKIP
    out = items[-1]
    for x in reversed(items[:-1]):
        out = ("Seq", x, out)
    return out


def mk_if(a, b):
    if a == SKIP and b == SKIP:
        return SKIP
    return ("If", a, b)


def R(p):
    """provenance atom -> rhs of the language"""
    t = p[0]
    if t == "fresh":
        return ("Fresh",)
    if t == "imm":
        return ("Imm",)
    if t == "self":
        return ("SelfAlias", p[1])
    if t == "src":
        return ("SrcAlias", p[1])
    if t == "arg":
        return ("ArgAlias",)
    raise Abort(f"cannot bind a state field to provenance {p}")


FRESH = frozenset([("fresh",)])
IMM = frozenset([("imm",)])


def join(e1: dict, e2: dict) -> dict:
    out = dict(e1)
    for k, v in e2.items():
        out[k] = out.get(k, frozenset()) | v
    return out


# --------------------------------------------------------------------------------------------
# module index: functions / classes / imports of torcheval source files (AST only)
# --------------------------------------------------------------------------------------------
class ModuleInfo:
    cache: dict = {}

    def __init__(self, modname: str, path: str):
        self.modname, self.path = modname, path
        self.src = Path(path).read_text()
        self.tree = ast.parse(self.src)
        self.funcs, self.classes, self.imports = {}, {}, {}
        for n in self.tree.body:
            if isinstance(n, (ast.FunctionDef, ast.AsyncFunctionDef)):
                self.funcs[n.name] = n
            elif isinstance(n, ast.ClassDef):
                self.classes[n.name] = n
            elif isinstance(n, ast.ImportFrom) and n.module and n.level == 0:
                for a in n.names:
                    self.imports[a.asname or a.name] = (n.module, a.name)
            elif isinstance(n, ast.Import):
                for a in n.names:
                    self.imports[(a.asname or a.name).split(".")[0]] = (a.name, None)

    @classmethod
    def get(cls, modname: str):
        if modname in cls.cache:
            return cls.cache[modname]
        mi = None
        if modname.startswith("torcheval"):
            try:
                spec = importlib.util.find_spec(modname)
            except Exception:
                spec = None
            if spec and spec.origin and spec.origin.endswith(".py"):
                mi = ModuleInfo(modname, spec.origin)
        cls.cache[modname] = mi
        return mi

    def resolve_func(self, name: str, depth=0):
        """name used in this module -> (ModuleInfo, FunctionDef) if it is a torcheval function."""
        if name in self.funcs:
            return self, self.funcs[name]
        if name in self.imports and depth < 5:
            mod, orig = self.imports[name]
            if orig is None:
                return None
            mi = ModuleInfo.get(mod)
            if mi is not None:
                r = mi.resolve_func(orig, depth + 1)
                if r:
                    return r
                sub = ModuleInfo.get(mod + "." + orig)     # `from pkg import module`
                if sub is not None:
                    return None
        return None

    def is_module_name(self, name: str) -> bool:
        if name in self.imports:
            mod, orig = self.imports[name]
            if orig is None:
                return True
            try:
                return importlib.util.find_spec(mod + "." + orig) is not None
            except Exception:
                return False
        return False


# --------------------------------------------------------------------------------------------
# the walker
# --------------------------------------------------------------------------------------------
class Summary:
    def __init__(self, ret, mutates, aborted=None):
        self.ret, self.mutates, self.aborted = ret, mutates, aborted


SUMMARIES: dict = {}
IN_PROGRESS: set = set()


def param_names(fn: ast.FunctionDef, skip_self=False):
    a = fn.args
    ps = [x for x in a.posonlyargs + a.args]
    if skip_self and ps and ps[0].arg in ("self", "cls"):
        ps = ps[1:]
    return ps, a.kwonlyargs, a.vararg, a.kwarg


def is_imm_annot(arg: ast.arg) -> bool:
    if arg.annotation is None:
        return False
    return ast.unparse(arg.annotation).replace("typing.", "") in IMM_ANNOT


def summary_of(mi: ModuleInfo, fn: ast.FunctionDef) -> Summary:
    key = (mi.modname, fn.name)
    if key in SUMMARIES:
        return SUMMARIES[key]
    if key in IN_PROGRESS:
        raise Abort(f"recursive call of {fn.name}")
    IN_PROGRESS.add(key)
    try:
        w = Walker(mi, None)
        s = w.run_function(fn)
    except Abort as e:
        s = Summary(None, None, aborted=f"{fn.name}:{e}")
    finally:
        IN_PROGRESS.discard(key)
    SUMMARIES[key] = s
    return s


class ClassCtx:
    """Static + dynamic information about one metric class."""

    def __init__(self, name, pycls, kinds, chain):
        self.name, self.pycls, self.kinds, self.chain = name, pycls, kinds, chain  # chain: [(ModuleInfo, ClassDef)]

    def method(self, name):
        for mi, cd in self.chain:
            for m in cd.body:
                if isinstance(m, ast.FunctionDef) and m.name == name:
                    return mi, m
        return None


class Walker:
    def __init__(self, mi: ModuleInfo, cc: ClassCtx | None):
        self.mi, self.cc = mi, cc
        self.fx: list = []                 # effects of the statement being evaluated
        self.sites: dict = {}              # (method, line, atom) -> source text
        self.mutated: set = set()          # function mode: mutated parameter names
        self.ret: frozenset = frozenset()  # union of returned provenances (current function)
        self.src_param = None
        self.method_name = "?"
        self.depth = 0
        self.func_mode = cc is None

    # ---- utilities ------------------------------------------------------------------------
    def kind(self, f):
        return self.cc.kinds.get(f, "unknown") if self.cc else "unknown"

    def site(self, node, atom):
        self.sites[(self.method_name, getattr(node, "lineno", 0), atom)] = ast.unparse(node)[:160]

    def emit(self, node, atom):
        self.site(node, atom)
        self.fx.append(atom)

    def inplace_on(self, node, P):
        """an in-place write through something with provenance P"""
        for p in sorted(P):
            t = p[0]
            if t == "self":
                if self.kind(p[1]) != "num":
                    self.emit(node, ("InPlace", p[1]))
            elif t == "src":
                self.emit(node, ("Clobber", ("SrcAlias", p[1])))
            elif t == "arg":
                if self.func_mode:
                    self.mutated.add(p[1])
                    self.site(node, ("Mutates", p[1]))
                else:
                    self.emit(node, ("Clobber", ("ArgAlias",)))
            elif t == "srcobj":
                self.emit(node, ("Clobber", ("SrcAlias", "*")))

    def bind_field(self, node, ctor, f, P):
        if self.kind(f) == "num":
            self.emit(node, (ctor, f, ("Imm",)))
            return
        P = frozenset(p for p in P if p != ("list",)) or FRESH
        for p in sorted(P):
            if p[0] == "srcobj":
                raise Abort("state field bound to a source metric object")
            self.emit(node, (ctor, f, R(p)))

    def may_raise(self, node, label):
        self.fx.append(("MayRaise", label[:60]))

    # ---- expressions: returns provenance, appends effects to self.fx -------------------------
    def ev(self, e, env) -> frozenset:
        if e is None:
            return IMM
        if isinstance(e, ast.Constant):
            return IMM
        if isinstance(e, ast.JoinedStr):
            for v in e.values:
                if isinstance(v, ast.FormattedValue):
                    self.ev(v.value, env)
            return IMM
        if isinstance(e, ast.Name):
            if e.id in env:
                return env[e.id]
            return FRESH if not self.mi.is_module_name(e.id) else IMM      # global / builtin
        if isinstance(e, ast.Attribute):
            return self.ev_attr(e, env)
        if isinstance(e, ast.Subscript):
            self.ev(e.slice, env)
            return self.ev(e.value, env)           # views / elements alias their container
        if isinstance(e, ast.Slice):
            for x in (e.lower, e.upper, e.step):
                if x is not None:
                    self.ev(x, env)
            return IMM
        if isinstance(e, ast.Call):
            return self.ev_call(e, env)
        if isinstance(e, ast.BinOp):
            a, b = self.ev(e.left, env), self.ev(e.right, env)
            listy = lambda x: isinstance(x, (ast.List, ast.ListComp, ast.Tuple)) or \
                (isinstance(x, ast.Name) and ("list",) in env.get(x.id, ())) or \
                (isinstance(x, ast.BinOp) and (listy(x.left) or listy(x.right)))
            if isinstance(e.op, (ast.Add, ast.Mult)) and (listy(e.left) or listy(e.right)):
                return a | b | frozenset([("list",)])
            return FRESH
        if isinstance(e, ast.UnaryOp):
            self.ev(e.operand, env)
            return FRESH
        if isinstance(e, ast.Compare):
            self.ev(e.left, env)
            for c in e.comparators:
                self.ev(c, env)
            return FRESH
        if isinstance(e, ast.BoolOp):
            out = frozenset()
            for v in e.values:
                out |= self.ev(v, env)
            return out
        if isinstance(e, ast.IfExp):
            self.ev(e.test, env)
            return self.ev(e.body, env) | self.ev(e.orelse, env)
        if isinstance(e, (ast.Tuple, ast.List, ast.Set)):
            out = frozenset([("list",)]) if isinstance(e, ast.List) else frozenset()
            for x in e.elts:
                out |= self.ev(x, env)
            return out if out - {("list",)} else out | FRESH
        if isinstance(e, ast.Dict):
            out = frozenset()
            for k, v in zip(e.keys, e.values):
                if k is not None:
                    self.ev(k, env)
                out |= self.ev(v, env)
            return out or FRESH
        if isinstance(e, ast.Starred):
            return self.ev(e.value, env)
        if isinstance(e, (ast.ListComp, ast.GeneratorExp, ast.SetComp, ast.DictComp)):
            env2 = dict(env)
            for g in e.generators:
                if g.is_async:
                    raise Abort("async comprehension")
                self.bind_target(g.target, self.elem_of(self.ev(g.iter, env2)), env2, node=e)
                for c in g.ifs:
                    self.ev(c, env2)
            if isinstance(e, ast.DictComp):
                self.ev(e.key, env2)
                p = self.ev(e.value, env2)
            else:
                p = self.ev(e.elt, env2)
            return p | frozenset([("list",)])
        if isinstance(e, ast.Lambda):
            return self.ev_lambda(e, env)
        raise Abort(f"expression {type(e).__name__} at line {getattr(e, 'lineno', '?')}")

    def ev_lambda(self, e, env):
        # effects of the body are recorded at the definition; parameters may be anything in scope
        anyp = frozenset().union(*env.values()) if env else FRESH
        env2 = dict(env)
        a = e.args
        for p in a.posonlyargs + a.args + a.kwonlyargs + ([a.vararg] if a.vararg else []) + ([a.kwarg] if a.kwarg else []):
            env2[p.arg] = anyp or FRESH
        self.ev(e.body, env2)
        return FRESH

    @staticmethod
    def elem_of(P):
        return frozenset(p for p in P if p != ("list",)) or FRESH

    def ev_attr(self, e, env):
        v = e.value
        if isinstance(v, ast.Name) and v.id == "self" and not self.func_mode:
            k = self.kind(e.attr)
            if k in ("num", "obj"):
                return IMM if k == "num" else FRESH
            if e.attr == "device":
                return IMM
            return frozenset([("self", e.attr)])
        if isinstance(v, ast.Name) and v.id not in env and self.mi.is_module_name(v.id):
            return IMM                                   # torch.nan, math.pi, torch.float32
        if isinstance(v, ast.Name) and v.id not in env:
            return IMM                                   # attribute of a global (class constant)
        P = self.ev(v, env)
        if ("srcobj",) in P:
            k = self.kind(e.attr)
            rest = frozenset(p for p in P if p != ("srcobj",))
            here = IMM if k == "num" else frozenset([("src", e.attr)])
            return here | (rest if e.attr in VIEW_ATTRS else frozenset())
        if e.attr in IMM_ATTRS:
            return IMM
        return P                                         # .T/.real/... and unknown attributes: alias

    def call_label(self, c):
        return ast.unparse(c.func)

    def ev_call(self, c: ast.Call, env):
        f = c.func
        for kw in c.keywords:
            if kw.arg == "out":
                raise Abort(f"out= keyword at line {c.lineno}")
        # ---- self.helper(...) : inline ---------------------------------------------------
        if isinstance(f, ast.Attribute) and isinstance(f.value, ast.Name) and f.value.id == "self" and self.cc:
            h = self.cc.method(f.attr)
            if h is not None:
                return self.inline(c, h, env)
        if isinstance(f, ast.Attribute) and isinstance(f.value, ast.Call) and isinstance(f.value.func, ast.Name) \
                and f.value.func.id == "super":
            raise Abort(f"super().{f.attr}(...) at line {c.lineno}")
        # ---- method calls ---------------------------------------------------------------
        if isinstance(f, ast.Attribute) and not (isinstance(f.value, ast.Name) and f.value.id not in env
                                                 and f.value.id != "self" and self.is_global_ns(f.value.id)):
            recv = self.ev(f.value, env)
            args = [self.ev(a, env) for a in c.args] + [self.ev(k.value, env) for k in c.keywords]
            m = f.attr
            base = self_base(f.value)
            if m in LIST_MUTATORS:
                ap = frozenset().union(*[self.elem_of(a) for a in args]) if args else IMM
                if m == "insert" and c.args:
                    ap = self.elem_of(args[-1])
                if base is not None and not self.func_mode:
                    self.bind_field(c, "Append", base, ap)
                else:
                    if isinstance(f.value, ast.Name) and f.value.id in env:
                        env[f.value.id] = env[f.value.id] | ap | frozenset([("list",)])
                    self.inplace_container(c, recv, ap)
                return IMM
            if m in LIST_SHRINKERS and (("list",) in recv or any(
                    p[0] == "self" and self.kind(p[1]) in ("list", "dict") for p in recv)):
                if base is not None and not self.func_mode:
                    self.emit(c, ("Append", base, ("Imm",)))
                else:
                    self.inplace_container(c, recv, IMM)
                return self.elem_of(recv) if m == "pop" else IMM
            if m.endswith("_") and not m.startswith("_") and m not in VIEW_METHODS:
                self.inplace_on(c, recv)                       # add_, copy_, zero_, ...
                return recv
            if m not in NONRAISING_METHODS:
                self.may_raise(c, self.call_label(c))
            if m in VIEW_METHODS:
                return recv
            if m == "clone" or m == "copy":
                return FRESH
            return FRESH
        # ---- plain function calls ---------------------------------------------------------
        name = f.id if isinstance(f, ast.Name) else (f.attr if isinstance(f, ast.Attribute) else None)
        if name is None:
            raise Abort(f"call of a computed function at line {c.lineno}")
        if isinstance(f, ast.Name) and name in FORBIDDEN_CALLS:
            return self.ev_dynamic(c, env)
        args = [self.ev(a, env) for a in c.args]
        kws = {k.arg: self.ev(k.value, env) for k in c.keywords}
        if any(k.arg is None for k in c.keywords):
            kws.pop(None, None)
        if isinstance(f, ast.Name) and name in getattr(self, "local_defs", {}):
            return self.inline_local(c, self.local_defs[name], args, kws, env)
        if isinstance(f, ast.Name) and name not in env:
            r = self.mi.resolve_func(name)
            if r is not None:
                return self.apply_summary(c, r, args, kws)
        if (isinstance(f, ast.Attribute) and isinstance(f.value, ast.Name) and f.value.id == "torch"
                and name in ARITH_FUNCS and not c.keywords and len(c.args) in (1, 2)):
            return FRESH           # torch.add(a, b) is the function spelling of a + b: classified like the operator
        if name not in NONRAISING_FUNCS:
            self.may_raise(c, self.call_label(c))
        if name in CONTAINER_FUNCS:
            out = frozenset()
            for a in args + list(kws.values()):
                out |= a
            return out | frozenset([("list",)]) if out else FRESH
        if name in ALIAS_FUNCS and isinstance(f, ast.Attribute):
            return args[0] if args else (next(iter(kws.values())) if kws else FRESH)
        return FRESH

    def is_global_ns(self, name):
        return self.mi.is_module_name(name)

    def ev_dynamic(self, c, env):
        raise Abort(f"dynamic attribute access `{ast.unparse(c)[:60]}` at line {c.lineno}")

    def inplace_container(self, node, recv, ap):
        """list mutation through a local that may alias a state list / a caller's list"""
        for p in sorted(recv):
            if p[0] == "self" and not self.func_mode:
                self.bind_field(node, "Append", p[1], ap)
            elif p[0] == "src":
                self.emit(node, ("Clobber", ("SrcAlias", p[1])))
            elif p[0] == "arg":
                if self.func_mode:
                    self.mutated.add(p[1])
                    self.site(node, ("Mutates", p[1]))
                else:
                    self.emit(node, ("Clobber", ("ArgAlias",)))

    def bind_args(self, c, fn, args, kws, skip_self):
        ps, kwonly, vararg, kwarg = param_names(fn, skip_self)
        if any(isinstance(a, ast.Starred) for a in c.args) or any(k.arg is None for k in c.keywords):
            raise Abort(f"*args/**kwargs in call at line {c.lineno}")
        bound = {}
        if len(args) > len(ps) and vararg is None:
            raise Abort(f"too many positional arguments at line {c.lineno}")
        for p, a in zip(ps, args):
            bound[p.arg] = a
        if vararg is not None:
            extra = frozenset()
            for a in args[len(ps):]:
                extra |= a
            bound[vararg.arg] = extra or IMM
        for k, v in kws.items():
            if k in [p.arg for p in ps + kwonly]:
                bound[k] = v
            elif kwarg is None:
                raise Abort(f"unknown keyword {k} at line {c.lineno}")
        for p in ps + kwonly:
            bound.setdefault(p.arg, IMM)                      # defaults are immutables / None
        if kwarg is not None:
            bound[kwarg.arg] = IMM
        return bound

    def apply_summary(self, c, r, args, kws):
        mi, fn = r
        s = summary_of(mi, fn)
        if s.aborted:
            raise Abort(f"callee not translatable: {s.aborted}")
        bound = self.bind_args(c, fn, args, kws, skip_self=False)
        self.may_raise(c, self.call_label(c))
        for p in sorted(s.mutates):
            self.inplace_on(c, bound.get(p, IMM))
        out = frozenset()
        for p in s.ret:
            if p[0] == "arg":
                out |= bound.get(p[1], IMM)
            else:
                out |= frozenset([p])
        return out or FRESH

    def inline_local(self, c, h, args, kws, env):
        mi, fn = h
        if self.depth > 4:
            raise Abort("helper inlining too deep")
        bound = dict(env)
        bound.update(self.bind_args(c, fn, args, kws, skip_self=False))
        saved = (self.fx, self.ret, self.mi, self.depth)
        self.fx, self.ret, self.mi, self.depth = [], frozenset(), mi, self.depth + 1
        try:
            sk = self.block(list(fn.body), bound, 0)
            ret = self.ret
        finally:
            self.fx, self.ret, self.mi, self.depth = saved
        self.fx.append(sk)
        return ret or IMM

    def inline(self, c, h, env):
        mi, fn = h
        if self.depth > 4:
            raise Abort("helper inlining too deep")
        args = [self.ev(a, env) for a in c.args]
        kws = {k.arg: self.ev(k.value, env) for k in c.keywords}
        hand = HAND.get((self.cc.name, fn.name))
        if hand is not None:
            sha, fnc = hand
            src = ast.get_source_segment(mi.src, fn) or ""
            got = hashlib.sha256(src.encode()).hexdigest()
            if got != sha:
                raise Abort(f"hand-translated {self.cc.name}.{fn.name}: source SHA-256 changed ({got[:12]}.. != pinned {sha[:12]}..)")
            sk = fnc(self, c)
            self.fx.append(sk)
            self.site(c, ("Hand", fn.name))
            return IMM
        bound = self.bind_args(c, fn, args, kws, skip_self=True)
        for p in fn.args.posonlyargs + fn.args.args + fn.args.kwonlyargs:
            if is_imm_annot(p) and p.arg in bound:
                bound[p.arg] = IMM
        saved = (self.fx, self.ret, self.mi, self.depth)
        self.fx, self.ret, self.mi, self.depth = [], frozenset(), mi, self.depth + 1
        try:
            sk = self.block(list(fn.body), bound, 0)
            ret = self.ret
        finally:
            self.fx, self.ret, self.mi, self.depth = saved
        self.fx.append(sk)
        return ret or IMM

    # ---- targets ----------------------------------------------------------------------------
    def bind_target(self, t, P, env, node):
        if isinstance(t, ast.Name):
            env[t.id] = P
        elif isinstance(t, (ast.Tuple, ast.List)):
            for x in t.elts:
                self.bind_target(x.value if isinstance(x, ast.Starred) else x, self.elem_of(P), env, node)
        else:
            self.assign_nonlocal(t, P, env, node)

    def assign_nonlocal(self, t, P, env, node):
        if isinstance(t, ast.Attribute):
            if isinstance(t.value, ast.Name) and t.value.id == "self" and not self.func_mode:
                self.bind_field(node, "Bind", t.attr, P)
                return
            tp = self.ev(t.value, env)
            if tp - FRESH - IMM - {("list",)}:
                if ("srcobj",) in tp:
                    self.emit(node, ("Clobber", ("SrcAlias", t.attr)))
                    return
                raise Abort(f"attribute assignment `{ast.unparse(t)}` at line {node.lineno}")
            return
        if isinstance(t, ast.Subscript):
            self.ev(t.slice, env)
            base, depth = self_base_depth(t)
            if base is not None and not self.func_mode:
                k = self.kind(base)
                if k in ("list", "dict") and depth == 1:
                    self.bind_field(node, "BindElem", base, self.elem_of(P))
                elif k == "num":
                    raise Abort(f"subscript assignment on numeric field {base}")
                else:
                    self.emit(node, ("InPlace", base))
                return
            tp = self.ev(t.value, env)
            if isinstance(t.value, ast.Name) and t.value.id in env and ("list",) in tp:
                env[t.value.id] = env[t.value.id] | self.elem_of(P)
                self.inplace_container(node, tp, self.elem_of(P))
                return
            self.inplace_on(node, tp)
            return
        raise Abort(f"assignment target {type(t).__name__} at line {node.lineno}")

    # ---- statements -------------------------------------------------------------------------
    def flush(self):
        fx, self.fx = self.fx, []
        return fx

    def stmt(self, s, env, loop):
        if isinstance(s, (ast.Assign, ast.AnnAssign)):
            if isinstance(s, ast.AnnAssign) and s.value is None:
                return SKIP
            targets = s.targets if isinstance(s, ast.Assign) else [s.target]
            P = self.ev(s.value, env)
            for t in targets:
                if isinstance(t, (ast.Tuple, ast.List)) and isinstance(s.value, (ast.Tuple, ast.List)) \
                        and len(t.elts) == len(s.value.elts) and not any(isinstance(x, ast.Starred) for x in t.elts + s.value.elts):
                    ps = [self.ev(v, dict(env)) for v in s.value.elts]
                    self.fx = self.fx                     # (effects already recorded once above)
                    for x, p in zip(t.elts, ps):
                        self.bind_target(x, p, env, s)
                else:
                    self.bind_target(t, P, env, s)
            return seq(self.flush())
        if isinstance(s, ast.AugAssign):
            P = self.ev(s.value, env)
            t = s.target
            if isinstance(t, ast.Name):
                cur = env.get(t.id, FRESH)
                if ("list",) in cur:
                    env[t.id] = cur | self.elem_of(P)
                    self.inplace_container(s, cur, self.elem_of(P))
                elif cur <= IMM:
                    env[t.id] = IMM
                else:
                    self.inplace_on(s, cur)
            elif isinstance(t, ast.Attribute) and isinstance(t.value, ast.Name) and t.value.id == "self" and not self.func_mode:
                k = self.kind(t.attr)
                if k == "num":
                    self.emit(s, ("Bind", t.attr, ("Imm",)))
                elif k in ("list",):
                    self.bind_field(s, "Append", t.attr, self.elem_of(P))
                else:
                    self.emit(s, ("InPlace", t.attr))
            elif isinstance(t, ast.Subscript):
                self.ev(t.slice, env)
                base, _ = self_base_depth(t)
                if base is not None and not self.func_mode:
                    if self.kind(base) == "num":
                        raise Abort("subscript on numeric field")
                    self.emit(s, ("InPlace", base))
                else:
                    self.inplace_on(s, self.ev(t.value, env))
            elif isinstance(t, ast.Attribute):
                tp = self.ev(t.value, env)
                if ("srcobj",) in tp:
                    self.emit(s, ("Clobber", ("SrcAlias", t.attr)))
                elif tp - FRESH - IMM:
                    raise Abort(f"augmented attribute assignment at line {s.lineno}")
            else:
                raise Abort(f"augmented assignment target at line {s.lineno}")
            return seq(self.flush())
        if isinstance(s, ast.Expr):
            if isinstance(s.value, ast.Constant):
                return SKIP
            self.ev(s.value, env)
            return seq(self.flush())
        if isinstance(s, ast.If):
            return self.stmt_if(s, env, loop)
        if isinstance(s, (ast.For, ast.While)):
            return self.stmt_loop(s, env, loop)
        if isinstance(s, ast.Assert):
            self.ev(s.test, env)
            self.may_raise(s, "assert")
            return seq(self.flush())
        if isinstance(s, ast.Pass):
            return SKIP
        if isinstance(s, ast.Try):
            # over-approximation: the whole body, then possibly one handler, then finally
            e0 = dict(env)
            a = self.block(list(s.body) + list(s.orelse), env, loop)
            hs = SKIP
            envs = [dict(env)]
            for h in reversed(s.handlers):
                eh = join(e0, env)
                if h.name:
                    eh[h.name] = FRESH
                hs = mk_if(self.block(list(h.body), eh, loop), hs)
                envs.append(eh)
            for e2 in envs:
                new = join(env, e2)
                env.clear()
                env.update(new)
            fin = self.block(list(s.finalbody), env, loop) if s.finalbody else SKIP
            return seq([a, hs, fin])
        if isinstance(s, (ast.Import, ast.ImportFrom)):
            return SKIP
        if isinstance(s, ast.FunctionDef) and not s.decorator_list:
            # a local helper function: calls to it are inlined with the environment of the call site as its closure
            if not hasattr(self, "local_defs"):
                self.local_defs = {}
            self.local_defs[s.name] = (self.mi, s)
            return SKIP
        raise Abort(f"statement {type(s).__name__} at line {s.lineno}")

    def static_test(self, test, env):
        return None

    def stmt_if(self, s, env, loop):
        st = self.static_test(s.test, env)
        if st is not None:
            return self.block(list(s.body if st else s.orelse), env, loop)
        self.ev(s.test, env)
        pre = self.flush()
        ea, eb = dict(env), dict(env)
        a = self.block(list(s.body), ea, loop)
        b = self.block(list(s.orelse), eb, loop)
        env.clear()
        env.update(join(ea, eb))
        return seq(pre + [mk_if(a, b)])

    def loop_target(self, s, it, env):
        self.bind_target(s.target, self.elem_of(it), env, s)

    def stmt_loop(self, s, env, loop):
        if s.orelse:
            raise Abort(f"loop with else at line {s.lineno}")
        if isinstance(s, ast.For):
            it = self.ev(s.iter, env)
        else:
            it = None
            self.ev(s.test, env)
        pre = self.flush()
        body = SKIP
        for _ in range(8):
            e0 = dict(env)
            eb = dict(env)
            if it is not None:
                self.loop_target(s, it, eb)
            else:
                self.ev(s.test, eb)
                pre_b = self.flush()
            body = self.block(list(s.body), eb, loop + 1)
            if it is None:
                body = seq(pre_b + [body])
            new = join(env, eb)
            env.clear()
            env.update(new)
            if new == e0:
                break
        else:
            raise Abort(f"loop at line {s.lineno}: no fixpoint")
        return seq(pre + [("Loop", body)])

    def block(self, stmts, env, loop):
        out = []
        for i, s in enumerate(stmts):
            if isinstance(s, ast.Return):
                if s.value is not None:
                    p = self.ev(s.value, env)
                    self.ret = self.ret | p
                out += self.flush()
                return seq(out)
            if isinstance(s, ast.Raise):
                if s.exc is not None:
                    saved = self.fx
                    self.fx = []
                    self.ev(s.exc, env)          # message formatting; its calls are irrelevant
                    self.fx = saved
                out.append(("MayRaise", "raise"))
                return seq(out)
            if isinstance(s, (ast.Break, ast.Continue)):
                if loop == 0:
                    raise Abort("break/continue outside a loop")
                return seq(out)
            if isinstance(s, ast.With):
                for it in s.items:
                    if it.optional_vars is not None:
                        raise Abort(f"with ... as at line {s.lineno}")
                    saved = self.fx
                    self.fx = []
                    self.ev(it.context_expr, env)   # torch.inference_mode() etc.: no state effect
                    self.fx = saved
                out.append(self.block(list(s.body) + list(stmts[i + 1:]), env, loop))
                return seq(out)
            if isinstance(s, ast.If) and (may_terminate(s.body) or may_terminate(s.orelse)) \
                    and self.static_test(s.test, env) is None:
                self.ev(s.test, env)
                pre = self.flush()
                rest = list(stmts[i + 1:])
                ea, eb = dict(env), dict(env)
                a = self.block(list(s.body) + rest, ea, loop)
                b = self.block(list(s.orelse) + rest, eb, loop)
                env.clear()
                env.update(join(ea, eb))
                out += pre + [mk_if(a, b)]
                return seq(out)
            out.append(self.stmt(s, env, loop))
        return seq(out)

    # ---- entry points -----------------------------------------------------------------------
    def run_function(self, fn) -> Summary:
        """function mode: which params may be returned / mutated"""
        self.method_name = fn.name
        if isinstance(fn, ast.AsyncFunctionDef):
            raise Abort("async function")
        ps, kwonly, vararg, kwarg = param_names(fn)
        env = {}
        for p in ps + kwonly:
            env[p.arg] = IMM if is_imm_annot(p) else frozenset([("arg", p.arg)])
        if vararg is not None:
            env[vararg.arg] = frozenset([("arg", vararg.arg), ("list",)])
        if kwarg is not None:
            env[kwarg.arg] = frozenset([("arg", kwarg.arg)])
        self.block(list(fn.body), env, 0)
        ret = frozenset(p for p in self.ret if p != ("list",))
        return Summary(ret, set(self.mutated))

    def run_method(self, name, fn):
        self.method_name = name
        ps, kwonly, vararg, kwarg = param_names(fn, skip_self=True)
        env = {}
        allp = ps + kwonly + ([vararg] if vararg else []) + ([kwarg] if kwarg else [])
        for i, p in enumerate(allp):
            if name == "merge_state" and i == 0:
                env[p.arg] = frozenset([("srcobj",), ("list",)])
            else:
                env[p.arg] = IMM if is_imm_annot(p) else frozenset([("arg", p.arg)])
        return self.block(list(fn.body), env, 0)


def self_base(n):
    b, _ = self_base_depth(n)
    return b


def self_base_depth(n):
    d = 0
    while isinstance(n, ast.Subscript):
        n = n.value
        d += 1
    if isinstance(n, ast.Attribute) and isinstance(n.value, ast.Name) and n.value.id == "self":
        return n.attr, d
    return None, d


def may_terminate(stmts) -> bool:
    for s in stmts:
        for n in ast.walk(s):
            if isinstance(n, (ast.Return, ast.Raise, ast.Break, ast.Continue)):
                return True
    return False


# --------------------------------------------------------------------------------------------
# base-class methods of metric.py: per-kind skeletons over "$f" / "$default" / "$out"
# --------------------------------------------------------------------------------------------
class BaseWalker(Walker):
    """metric.py addresses states through setattr/getattr inside a loop over
    self._state_name_to_default; exactly that shape is recognised: the loop body is translated once
    per state kind (isinstance tests on the default / value decided by the kind)."""

    KINDTEST = {"torch.Tensor": "tensor", "list": "list", "dict": "dict", "(int, float)": "num",
                "int": "num", "float": "num"}

    def __init__(self, mi, kind):
        super().__init__(mi, ClassCtx("Metric", None, {}, []))
        self.k = kind
        self.regnames: set = set()
        self.kinded: set = set()          # locals whose runtime type is the state's kind

    def kind(self, f):
        return {"$f": self.k, "$default": self.k, "_state_name_to_default": "obj", "_device": "obj"}.get(f, "obj")

    def is_registry(self, e, env):
        return "_state_name_to_default" in ast.unparse(e) or (isinstance(e, ast.Name) and ("regnames",) in env.get(e.id, ()))

    def ev(self, e, env):
        if isinstance(e, ast.Attribute) and isinstance(e.value, ast.Name) and e.value.id == "self" \
                and e.attr == "_state_name_to_default":
            return frozenset([("regnames",)])
        return super().ev(e, env)

    def ev_lambda(self, e, env):
        return FRESH                       # default factory of the defaultdict: builds a new tensor

    def ev_call(self, c, env):
        f = c.func
        if isinstance(f, ast.Attribute) and self.is_registry(f.value, env) and f.attr in ("items", "keys", "values", "difference"):
            return frozenset([("regnames",)])
        if isinstance(f, ast.Name) and f.id == "set" and c.args and ("regnames",) in self.ev(c.args[0], dict(env)):
            return frozenset([("regnames",)])
        if isinstance(f, ast.Name) and f.id == "isinstance":
            return IMM
        return super().ev_call(c, env)

    def ev_dynamic(self, c, env):
        f = c.func.id
        ok = len(c.args) >= 2 and isinstance(c.args[0], ast.Name) and c.args[0].id == "self" \
            and isinstance(c.args[1], ast.Name) and c.args[1].id in self.regnames
        if not ok:
            raise Abort(f"dynamic attribute access `{ast.unparse(c)[:60]}` outside the registry-loop shape")
        if f == "getattr" and len(c.args) == 2:
            return IMM if self.k == "num" else frozenset([("self", "$f")])
        if f == "setattr" and len(c.args) == 3:
            P = self.ev(c.args[2], env)
            self.bind_field(c, "Bind", "$f", P)
            return IMM
        raise Abort(f"dynamic attribute access `{ast.unparse(c)[:60]}`")

    def assign_nonlocal(self, t, P, env, node):
        if isinstance(t, ast.Subscript) and isinstance(t.slice, ast.Name) and t.slice.id in self.regnames:
            if isinstance(t.value, ast.Attribute) and ast.unparse(t.value) == "self._state_name_to_default":
                self.bind_field(node, "Bind", "$default", P)
                return
            if isinstance(t.value, ast.Name) and self.method_name == "state_dict":
                self.bind_field(node, "Bind", "$out", P)
                return
        if isinstance(t, ast.Attribute) and ast.unparse(t) == "self._device":
            return
        super().assign_nonlocal(t, P, env, node)

    def bind_field(self, node, ctor, f, P):
        if f in ("$f", "$default", "$out") and self.k == "num":
            self.emit(node, (ctor, f, ("Imm",)))
            return
        for p in sorted(P):
            if p[0] in ("regnames", "list"):
                continue
            self.emit(node, (ctor, f, R(p)))

    def static_test(self, test, env):
        neg = False
        if isinstance(test, ast.UnaryOp) and isinstance(test.op, ast.Not):
            neg, test = True, test.operand
        if isinstance(test, ast.Call) and isinstance(test.func, ast.Name) and test.func.id == "isinstance" \
                and isinstance(test.args[0], ast.Name) and test.args[0].id in self.kinded:
            t = ast.unparse(test.args[1])
            if t not in self.KINDTEST:
                raise Abort(f"isinstance against {t}")
            r = self.KINDTEST[t] == self.k
            return (not r) if neg else r
        return None

    def loop_target(self, s, it, env):
        if ("regnames",) in it:
            t = s.target
            names = [t] if isinstance(t, ast.Name) else list(t.elts)
            if not all(isinstance(n, ast.Name) for n in names) or len(names) > 2:
                raise Abort("registry loop target shape")
            self.regnames.add(names[0].id)
            env[names[0].id] = IMM
            if len(names) == 2:
                self.kinded.add(names[1].id)
                env[names[1].id] = IMM if self.k == "num" else frozenset([("self", "$default")])
            return
        super().loop_target(s, it, env)

    def stmt(self, s, env, loop):
        # `value = getattr(self, state_name)` : remember that `value` has the state's kind
        if isinstance(s, ast.Assign) and len(s.targets) == 1 and isinstance(s.targets[0], ast.Name) \
                and isinstance(s.value, ast.Call) and isinstance(s.value.func, ast.Name) and s.value.func.id == "getattr":
            self.kinded.add(s.targets[0].id)
        return super().stmt(s, env, loop)

    def stmt_loop(self, s, env, loop):
        if isinstance(s, ast.For) and ("regnames",) in self.ev(s.iter, dict(env)):
            self.flush()
            # per-field body, no Loop wrapper: the skeleton is instantiated per registered field
            self.loop_target(s, frozenset([("regnames",)]), env)
            return self.block(list(s.body), env, loop + 1)
        return super().stmt_loop(s, env, loop)

    def run_base(self, name, fn):
        self.method_name = name
        ps, kwonly, vararg, kwarg = param_names(fn, skip_self=True)
        env = {}
        for p in ps + kwonly:
            env[p.arg] = IMM if is_imm_annot(p) else frozenset([("arg", p.arg)])
        if name == "_add_state":
            self.regnames.add("name")
            self.kinded.add("default")
            env["name"] = IMM
            if self.k == "num":
                env["default"] = IMM
        for extra in (vararg, kwarg):
            if extra is not None:
                env[extra.arg] = IMM
        return self.block(list(fn.body), env, 0)


# --------------------------------------------------------------------------------------------
# hand translations (pinned by SHA-256 of the source text)
# --------------------------------------------------------------------------------------------
def hand_fad_update_state(w: Walker, call: ast.Call):
    """FrechetAudioDistance._update_state(prefix, waveforms): getattr/setattr with f-strings.
        n, mean, cov = getattr(self, f"{p}_n"), getattr(self, f"{p}_mean_partial"), getattr(self, f"{p}_cov_partial")
        for idx in range(waveforms.size(0)):
            embedding = self._compute_embedding(waveforms[idx])      # model forward: may raise
            n += embedding.size(0)                                   # Python int: local re-binding
            mean += embedding.sum(0).unsqueeze(0)                    # in place on self.{p}_mean_partial
            cov += embedding.T @ embedding                           # in place on self.{p}_cov_partial
        setattr(self, f"{p}_n", n); setattr(... mean); setattr(... cov)
    """
    a0 = call.args[0]
    if not (isinstance(a0, ast.Constant) and a0.value in ("pred", "target")):
        raise Abort("FrechetAudioDistance._update_state: prefix is not the literal 'pred'/'target'")
    p = a0.value
    n, mean, cov = f"{p}_n", f"{p}_mean_partial", f"{p}_cov_partial"
    for f, k in ((n, "num"), (mean, "tensor"), (cov, "tensor")):
        if w.kind(f) != k:
            raise Abort(f"FrechetAudioDistance.{f}: kind {w.kind(f)} != {k}")
    body = seq([("MayRaise", "self._compute_embedding"), ("MayRaise", "embedding.sum"),
                ("InPlace", mean), ("InPlace", cov)])
    for a in (("InPlace", mean), ("InPlace", cov), ("Bind", n, ("Imm",)), ("Bind", mean, ("SelfAlias", mean)),
              ("Bind", cov, ("SelfAlias", cov))):
        w.site(call, a)
    return seq([("Loop", body), ("Bind", n, ("Imm",)), ("Bind", mean, ("SelfAlias", mean)),
                ("Bind", cov, ("SelfAlias", cov))])


HAND = {
    ("FrechetAudioDistance", "_update_state"):
        ("PINNED_SHA_FAD", hand_fad_update_state),
}


# --------------------------------------------------------------------------------------------
# classes: discovery, introspection
# --------------------------------------------------------------------------------------------
def ctor_table():
    import torch

    class _Emb(torch.nn.Module):
        def __init__(self):
            super().__init__()
            self.lin = torch.nn.Linear(4, 3)

        def forward(self, x):
            return self.lin(x.reshape(-1, 4))
    T = {
        "BinaryRecallAtFixedPrecision": [dict(min_precision=0.5)],
        "MultilabelRecallAtFixedPrecision": [dict(num_labels=3, min_precision=0.5)],
        "BLEUScore": [dict(n_gram=2)],
        "FrechetAudioDistance": [dict(preproc=lambda x: x, model=_Emb(), embedding_dim=3)],
        "MulticlassAUPRC": [dict(num_classes=3)], "MulticlassAUROC": [dict(num_classes=3)],
        "MulticlassBinnedAUPRC": [dict(num_classes=3)], "MulticlassBinnedAUROC": [dict(num_classes=3)],
        "MulticlassBinnedPrecisionRecallCurve": [dict(num_classes=3)],
        "MulticlassConfusionMatrix": [dict(num_classes=3)],
        "MultilabelAUPRC": [dict(num_labels=3)], "MultilabelBinnedAUPRC": [dict(num_labels=3)],
        "MultilabelBinnedPrecisionRecallCurve": [dict(num_labels=3)],
        "MultilabelPrecisionRecallCurve": [dict(num_labels=3)],
        "TopKMultilabelAccuracy": [dict(k=2)],
        "RetrievalPrecision": [dict(), dict(num_queries=2)], "RetrievalRecall": [dict(), dict(num_queries=2)],
    }
    for w in ("WindowedBinaryNormalizedEntropy", "WindowedClickThroughRate", "WindowedMeanSquaredError",
              "WindowedWeightedCalibration"):
        T[w] = [dict(enable_lifetime=True), dict(enable_lifetime=False)]
    return T


def value_kind(v):
    import torch
    if isinstance(v, torch.Tensor):
        return "tensor"
    if isinstance(v, (bool, int, float, str, type(None), torch.device, torch.dtype)):
        return "num"
    if isinstance(v, (list, tuple)):
        return "list" if all(isinstance(x, torch.Tensor) for x in v) else ("num" if all(isinstance(x, (int, float, str)) for x in v) and isinstance(v, tuple) else "list")
    if isinstance(v, dict):
        return "dict"
    return "obj"


def discover():
    import torcheval.metrics as M
    from torcheval.metrics.metric import Metric
    names = [n for n in M.__all__ if inspect.isclass(getattr(M, n, None)) and issubclass(getattr(M, n), Metric)
             and n not in OUT_OF_SCOPE]
    classes = {n: getattr(M, n) for n in names}
    from torcheval.metrics.statistical import Wasserstein1D
    classes["Wasserstein1D"] = Wasserstein1D
    return dict(sorted(classes.items())), Metric


def introspect(name, pycls, ctors):
    """kinds of all instance attributes over the catalogue of constructor configurations"""
    kinds, reg, errs = {}, {}, []
    for kw in ctors.get(name, [dict()]):
        try:
            o = pycls(**kw)
        except Exception as e:       # noqa: BLE001
            errs.append(f"{name}({kw}): {type(e).__name__}: {e}")
            continue
        for k, v in vars(o).items():
            if k in ("_state_name_to_default",):
                continue
            vk = value_kind(v)
            if k in kinds and kinds[k] != vk:
                errs.append(f"{name}.{k}: kind differs between configurations ({kinds[k]} vs {vk})")
            kinds[k] = vk
        for k, d in o._state_name_to_default.items():
            reg[k] = value_kind(d)
    return kinds, reg, errs


def class_chain(pycls, Metric):
    chain = []
    for c in pycls.__mro__:
        if c is Metric:
            break
        if not (inspect.isclass(c) and issubclass(c, Metric)):
            continue
        mi = ModuleInfo.get(c.__module__)
        if mi is None or c.__name__ not in mi.classes:
            raise Abort(f"source of {c.__name__} not found")
        chain.append((mi, mi.classes[c.__name__]))
    return chain


def static_registered(chain):
    names, dynamic = [], False
    for mi, cd in chain:
        for m in cd.body:
            if isinstance(m, ast.FunctionDef) and m.name == "__init__":
                for n in ast.walk(m):
                    if isinstance(n, ast.Call) and isinstance(n.func, ast.Attribute) and n.func.attr.startswith("_add_state"):
                        a = n.args[0] if n.args else next((k.value for k in n.keywords if k.arg == "name"), None)
                        if isinstance(a, ast.Constant) and isinstance(a.value, str):
                            if a.value not in names:
                                names.append(a.value)
                        elif not (isinstance(a, ast.Name) and m.name != "__init__"):
                            dynamic = True
    return names, dynamic


def written_outside_init(chain):
    """self.* attributes (re)bound, mutated in place, appended to ... in any method but __init__/to"""
    written = {}
    for mi, cd in chain:
        for m in cd.body:
            if not isinstance(m, ast.FunctionDef) or m.name in NOT_WRITTEN_SCAN:
                continue
            if any(isinstance(d, ast.Name) and d.id == "staticmethod" for d in m.decorator_list):
                continue
            for n in ast.walk(m):
                tg = []
                if isinstance(n, ast.Assign):
                    for t in n.targets:
                        tg += list(t.elts) if isinstance(t, (ast.Tuple, ast.List)) else [t]
                elif isinstance(n, (ast.AugAssign, ast.AnnAssign)):
                    tg = [n.target]
                elif isinstance(n, ast.Delete):
                    tg = n.targets
                elif isinstance(n, ast.Call) and isinstance(n.func, ast.Attribute):
                    a = self_base(n.func.value)
                    mth = n.func.attr
                    if a and (mth in LIST_MUTATORS or mth in LIST_SHRINKERS or (mth.endswith("_") and not mth.startswith("_"))):
                        written.setdefault(a, f"{cd.name}.{m.name}:{n.lineno}")
                elif isinstance(n, ast.Call) and isinstance(n.func, ast.Name) and n.func.id == "setattr":
                    if len(n.args) >= 2 and isinstance(n.args[0], ast.Name) and n.args[0].id == "self":
                        a1 = n.args[1]
                        if isinstance(a1, ast.Constant):
                            written.setdefault(a1.value, f"{cd.name}.{m.name}:{n.lineno}")
                        elif (cd.name, m.name) in HAND:
                            for f in ("pred_n", "pred_mean_partial", "pred_cov_partial", "target_n",
                                      "target_mean_partial", "target_cov_partial"):
                                written.setdefault(f, f"{cd.name}.{m.name}:{n.lineno}")
                        else:
                            written.setdefault("<dynamic>", f"{cd.name}.{m.name}:{n.lineno}")
                for t in tg:
                    a = self_base(t)
                    if a:
                        written.setdefault(a, f"{cd.name}.{m.name}:{getattr(n, 'lineno', 0)}")
    return written


def reset_assigned(chain):
    """attributes that an overriding reset() re-binds to the same literal that __init__ gives them
    (so reset() restores them although they are not registered states)"""
    init_const, out = {}, []
    for mi, cd in chain:
        for m in cd.body:
            if isinstance(m, ast.FunctionDef) and m.name == "__init__":
                for n in ast.walk(m):
                    if isinstance(n, ast.Assign) and isinstance(n.value, ast.Constant):
                        for t in n.targets:
                            a = self_base(t)
                            if a and isinstance(t, ast.Attribute):
                                init_const.setdefault(a, n.value.value)
    for mi, cd in chain:
        for m in cd.body:
            if isinstance(m, ast.FunctionDef) and m.name == "reset":
                for n in m.body:                                   # top-level, unconditional statements only
                    if isinstance(n, ast.Assign) and isinstance(n.value, ast.Constant):
                        for t in n.targets:
                            if isinstance(t, ast.Attribute) and self_base(t) and self_base(t) in init_const \
                                    and init_const[self_base(t)] == n.value.value and type(init_const[self_base(t)]) is type(n.value.value):
                                out.append(self_base(t))
                break
    return sorted(set(out))


# --------------------------------------------------------------------------------------------
# Coq printers
# --------------------------------------------------------------------------------------------
def q(s):
    return '"' + str(s).replace('"', '""') + '"'


def coq_rhs(r):
    return r[0] if len(r) == 1 else f"({r[0]} {q(r[1])})"


def coq_sk(s, ind=0):
    t = s[0]
    if t in ("Bind", "Append", "BindElem"):
        return f"{t} {q(s[1])} {coq_rhs(s[2])}"
    if t == "InPlace":
        return f"InPlace {q(s[1])}"
    if t == "Clobber":
        return f"Clobber {coq_rhs(s[1])}"
    if t == "MayRaise":
        return f"MayRaise {q(s[1])}"
    if t == "Skip":
        return "Skip"
    pad = "\n" + " " * (ind + 2)
    if t == "Seq":
        items = []
        while s[0] == "Seq":
            items.append(s[1])
            s = s[2]
        items.append(s)
        return "seqs [" + ";".join(pad + coq_sk(x, ind + 2) for x in items) + "]"
    if t == "If":
        return f"If{pad}({coq_sk(s[1], ind + 2)}){pad}({coq_sk(s[2], ind + 2)})"
    if t == "Loop":
        return f"Loop{pad}({coq_sk(s[1], ind + 2)})"
    raise ValueError(s)


def coq_atom(a):
    if a[0] in ("Bind", "Append"):
        return f"A{a[0]} {q(a[1])} {coq_rhs(a[2])}"
    if a[0] == "InPlace":
        return f"AInPlace {q(a[1])}"
    return f"AClobber {coq_rhs(a[1])}"


HEADER = "(* GENERATED by tools/tr_effects.py from the working tree of the library -- do not edit. *)\n"


# --------------------------------------------------------------------------------------------
# main
# --------------------------------------------------------------------------------------------
def pin_sha():
    """the pinned hash lives next to the hand translation"""
    return (HERE / "tr_effects_pins.json")


def main():
    os.environ.setdefault("TORCHEVAL_VERIF", "1")
    import warnings
    warnings.filterwarnings("ignore")
    pins = json.loads(pin_sha().read_text()) if pin_sha().exists() else {}
    for k in list(HAND):
        HAND[k] = (pins.get(".".join(k), "unpinned"), HAND[k][1])

    classes, Metric = discover()
    ctors = ctor_table()
    report = {"classes": {}, "base": {}, "aborted": [], "functionals": {}, "sites": {}, "introspect_errors": [],
              "repo": os.path.dirname(os.path.dirname(inspect.getsourcefile(Metric)))}

    # ---- base class --------------------------------------------------------------------------
    mmi = ModuleInfo.get(Metric.__module__)
    mcd = mmi.classes["Metric"]
    base = {}
    for m in BASE_METHODS:
        fn = next((x for x in mcd.body if isinstance(x, ast.FunctionDef) and x.name == m), None)
        base[m] = {}
        for k in ("tensor", "list", "dict", "num"):
            if fn is None:
                base[m][k] = None
                report["aborted"].append({"class": "Metric", "method": m, "reason": "method missing"})
                continue
            try:
                w = BaseWalker(mmi, k)
                base[m][k] = w.run_base(m, fn)
                for (mm, line, atom), src in w.sites.items():
                    report["sites"].setdefault("Metric", []).append({"method": mm, "kind": k, "line": line, "atom": atom, "src": src})
            except Abort as e:
                base[m][k] = None
                report["aborted"].append({"class": "Metric", "method": m, "kind": k, "reason": str(e)})
    report["base"] = base

    # ---- classes -------------------------------------------------------------------------------
    for name, pycls in classes.items():
        ent = {"methods": {}, "registered": [], "written": [], "written_at": {}, "kinds": {}, "file": "", "reset_assigned": []}
        report["classes"][name] = ent
        try:
            chain = class_chain(pycls, Metric)
        except Abort as e:
            report["aborted"].append({"class": name, "method": "*", "reason": str(e)})
            for m in ENTRY_METHODS:
                ent["methods"][m] = None
            continue
        ent["file"] = os.path.relpath(chain[0][0].path, report["repo"])
        kinds, regk, errs = introspect(name, pycls, ctors)
        report["introspect_errors"] += errs
        if errs and not kinds:
            report["aborted"].append({"class": name, "method": "*", "reason": "cannot instantiate: " + errs[0]})
        sreg, dyn = static_registered(chain)
        regnames = list(sreg)
        for k in regk:
            if k not in regnames:
                regnames.append(k)
        if dyn and not regk:
            report["aborted"].append({"class": name, "method": "registry", "reason": "dynamic state names and no instance"})
        for k in sreg:
            if k not in regk and kinds:
                report["introspect_errors"].append(f"{name}.{k}: registered statically but in no instantiated configuration")
        ent["registered"] = [[f, regk.get(f, kinds.get(f, "tensor"))] for f in regnames]
        ent["kinds"] = kinds
        wr = written_outside_init(chain)
        ent["written"] = sorted(wr)
        ent["written_at"] = wr
        ent["reset_assigned"] = reset_assigned(chain)
        cc = ClassCtx(name, pycls, kinds, chain)
        for m in ENTRY_METHODS:
            h = cc.method(m)
            if h is None:
                if m == "_prepare_for_merge_state":
                    ent["methods"][m] = SKIP                    # Metric's default: `pass`
                else:
                    ent["methods"][m] = None
                    report["aborted"].append({"class": name, "method": m, "reason": "method not found"})
                continue
            if not kinds:
                ent["methods"][m] = None
                continue
            mi, fn = h
            try:
                w = Walker(mi, cc)
                ent["methods"][m] = w.run_method(m, fn)
                for (mm, line, atom), src in w.sites.items():
                    report["sites"].setdefault(name, []).append({"method": mm, "line": line, "atom": atom, "src": src})
            except Abort as e:
                ent["methods"][m] = None
                report["aborted"].append({"class": name, "method": m, "reason": str(e)})
            except RecursionError:
                ent["methods"][m] = None
                report["aborted"].append({"class": name, "method": m, "reason": "recursion limit"})
        # in-place writes onto a DATA-SHAPED tensor field are fallible (see mark_fallible_inplace)
        upd = ent["methods"].get("update")
        if upd is not None:
            U = data_shaped_fields(upd, kinds)
            ent["data_shaped"] = sorted(U)
            ent["methods"]["update"] = mark_fallible_inplace(upd, U)

    # ---- functionals ---------------------------------------------------------------------------
    import torcheval.metrics.functional as F
    froot = Path(inspect.getsourcefile(F)).parent
    for path in sorted(froot.rglob("*.py")):
        rel = path.relative_to(froot.parent.parent.parent)
        modname = ".".join(rel.with_suffix("").parts)
        if modname.endswith(".__init__"):
            continue
        if "frechet" in modname or modname.endswith(".image.ssim") or modname.endswith("image.fid"):
            pass
        mi = ModuleInfo.get(modname)
        if mi is None:
            continue
        for fname, fn in mi.funcs.items():
            s = summary_of(mi, fn)
            key = f"{modname.replace('torcheval.metrics.functional.', '')}.{fname}"
            if s.aborted:
                report["functionals"][key] = None
                report["aborted"].append({"class": "functional", "method": key, "reason": s.aborted})
            else:
                report["functionals"][key] = sorted(s.mutates)

    # ---- known findings -> live / stale excuses --------------------------------------------------
    kf_path = ROOT / "known_findings.json"
    findings = json.loads(kf_path.read_text()) if kf_path.exists() else []
    excuses = {"alias": [], "pure": [], "registry": [], "commit": []}
    stale = []
    for f in findings:
        pat = f.get("pattern", {})
        kind = pat.get("effects_check")
        if kind not in excuses or f.get("status") != "known":
            continue
        cls = pat.get("class")
        ent = report["classes"].get(cls)
        for item in pat.get("items", []):
            live = False
            if ent is not None:
                if kind == "alias":
                    a = tuple_atom(item)
                    live = a in EC.alias_offences(EC.class_atoms(ent, base))
                elif kind == "pure":
                    a = tuple_atom(item)
                    sk = ent["methods"].get("compute")
                    live = sk is not None and a in EC.purity_offences(sk, {x for x, _ in ent["registered"]})
                elif kind == "registry":
                    live = item in EC.registry_offences(ent, ent["reset_assigned"] if f.get("property") == "C10" else ())
                elif kind == "commit":
                    sk = ent["methods"].get("update")
                    live = sk is not None and item in EC.dirty_raises(sk)
            rec = {"id": f["id"], "property": f.get("property"), "class": cls, "item": item}
            if live:
                if rec not in excuses[kind]:
                    excuses[kind].append(rec)
            else:
                stale.append(rec)
    report["excuses"] = excuses
    report["stale_excuses"] = stale

    # ---- write Coq --------------------------------------------------------------------------------
    S = [HEADER, "From Coq Require Import List String.\nFrom TE Require Import Models.Effects.\nImport ListNotations.\nOpen Scope string_scope.\n"]
    S.append("(* base-class methods of metric.py, per state kind, over the placeholders $f / $default / $out *)")
    for m in BASE_METHODS:
        S.append(f"Definition base_{m.strip('_')} : list (kind * option sk) := [")
        rows = []
        for k, kn in (("tensor", "KTensor"), ("list", "KList"), ("dict", "KDict"), ("num", "KNum")):
            sk = base[m][k]
            rows.append(f"  ({kn}, " + ("None" if sk is None else "Some (" + coq_sk(sk, 4) + ")") + ")")
        S.append(";\n".join(rows) + "].\n")
    S.append("Definition base_methods : list (string * list (kind * option sk)) := [" +
             "; ".join(f"({q(m)}, base_{m.strip('_')})" for m in BASE_METHODS) + "].\n")
    for name, ent in report["classes"].items():
        for m in ENTRY_METHODS:
            sk = ent["methods"][m]
            S.append(f"Definition sk_{name}_{m.strip('_')} : option sk :=\n  " +
                     ("None" if sk is None else "Some (" + coq_sk(sk, 2) + ")") + ".\n")
    S.append("Definition class_skeletons : list (string * list (string * option sk)) := [")
    S.append(";\n".join(f"  ({q(n)}, [" + "; ".join(f"({q(m)}, sk_{n}_{m.strip('_')})" for m in ENTRY_METHODS) + "])"
                        for n in report["classes"]) + "].\n")
    write_if_changed(GEN / "Skeletons.v", "\n".join(S))

    KN = {"tensor": "KTensor", "list": "KList", "dict": "KDict", "num": "KNum", "obj": "KTensor", "unknown": "KTensor"}
    Rg = [HEADER, "From Coq Require Import List String.\nFrom TE Require Import Models.Effects.\nImport ListNotations.\nOpen Scope string_scope.\n",
          "(* (class, registered states with kinds, self.* attributes written outside __init__) *)",
          "Definition registry : list (string * (list (fld * kind) * list fld)) := ["]
    Rg.append(";\n".join(
        f"  ({q(n)}, ([" + "; ".join(f"({q(f)}, {KN[k]})" for f, k in e["registered"]) + "],\n     [" +
        "; ".join(q(w) for w in e["written"]) + "]))" for n, e in report["classes"].items()) + "].\n")
    Rg.append("(* (class, attribute) re-bound by an overriding reset() to the literal __init__ gives it: covered by reset() (C10 only) *)")
    Rg.append("Definition reset_assigned : list (string * fld) := [" +
              "; ".join(f"({q(n)}, {q(a)})" for n, e in report["classes"].items() for a in e["reset_assigned"]) + "].\n")
    write_if_changed(GEN / "Registry.v", "\n".join(Rg))

    Fa = [HEADER, "From Coq Require Import List String.\nImport ListNotations.\nOpen Scope string_scope.\n",
          "(* (functional, Some [parameters it may mutate in place]) ; None = not translatable *)",
          "Definition functional_args : list (string * option (list string)) := ["]
    Fa.append(";\n".join(f"  ({q(k)}, " + ("None" if v is None else "Some [" + "; ".join(q(x) for x in v) + "]") + ")"
                         for k, v in report["functionals"].items()) + "].\n")
    write_if_changed(GEN / "FunctionalArgs.v", "\n".join(Fa))

    K = [HEADER, "From Coq Require Import List String.\nFrom TE Require Import Models.Effects.\nImport ListNotations.\nOpen Scope string_scope.\n",
         "(* LIVE excuses only (known_findings.json entries whose offence is still present in the tree);",
         "   stale ones (the tree was repaired) are dropped here and reported as a note:"]
    for s in stale:
        K.append(f"     stale: {s['id']} {s['class']} {s['item']}")
    K.append("*)")
    K.append("Definition alias_excused : list (string * atom) := [" +
             "; ".join(f"({q(e['class'])}, {coq_atom(tuple_atom(e['item']))})" for e in dedupe(excuses["alias"])) + "].")
    K.append("Definition pure_excused : list (string * atom) := [" +
             "; ".join(f"({q(e['class'])}, {coq_atom(tuple_atom(e['item']))})" for e in dedupe(excuses["pure"])) + "].")
    for prop, nm in (("C09", "registry_excused_load"), ("C10", "registry_excused_reset")):
        K.append(f"Definition {nm} : list (string * fld) := [" +
                 "; ".join(f"({q(e['class'])}, {q(e['item'])})" for e in dedupe([x for x in excuses["registry"] if x["property"] == prop])) + "].")
    K.append("Definition commit_excused : list (string * string) := [" +
             "; ".join(f"({q(e['class'])}, {q(e['item'])})" for e in dedupe(excuses["commit"])) + "].\n")
    write_if_changed(GEN / "KnownEffects.v", "\n".join(K))

    REPORT.parent.mkdir(parents=True, exist_ok=True)
    REPORT.write_text(json.dumps(report, indent=1, default=list))
    nab = len(report["aborted"])
    print(f"tr_effects: {len(report['classes'])} classes, {len(report['functionals'])} functionals, "
          f"{nab} aborted, {sum(len(v) for v in excuses.values())} live excuses, {len(stale)} stale")
    return 0


def dedupe(recs):
    out, seen = [], set()
    for r in recs:
        k = (r["class"], json.dumps(r["item"]))
        if k not in seen:
            seen.add(k)
            out.append(r)
    return out


def data_shaped_fields(update_sk, kinds) -> set:
    """tensor fields whose shape is established by the data: update() itself re-binds them to a
    computed tensor (`self.f = statistic` on the first call, `self.f += statistic` afterwards).  A
    re-binding to (a view of) the field itself (`setattr(self, f, alias of self.f)`) does not count."""
    return {a[1] for a in EC.atoms(update_sk)
            if a[0] == "Bind" and a[2][0] != "Imm" and a[2] != ("SelfAlias", a[1]) and kinds.get(a[1]) == "tensor"}


def mark_fallible_inplace(sk, U):
    """C14 refinement: `self.f += e` / `self.f[i] = e` on a data-shaped field f raises when a later
    batch has another width (the state kept the first batch's shape), so it is emitted as
    `MayRaise "inplace:f"; InPlace f`: accepted as the FIRST state write of a path, rejected after
    another write (MeanSquaredError: `sum_weight +=` before `sum_squared_error +=`).  In-place writes
    onto fields whose shape is fixed by the constructor stay non-raising (assumption: the validated
    arguments determine the statistic's shape; dtype faults are covered dynamically)."""
    t = sk[0]
    if t == "InPlace" and sk[1] in U:
        return ("Seq", ("MayRaise", "inplace:" + sk[1]), sk)
    if t in ("If", "Seq"):
        return (t, mark_fallible_inplace(sk[1], U), mark_fallible_inplace(sk[2], U))
    if t == "Loop":
        return (t, mark_fallible_inplace(sk[1], U))
    return sk


def tuple_atom(item):
    """JSON form ["Bind","f",["SrcAlias","g"]] -> tuple atom"""
    if item[0] in ("Bind", "Append"):
        return (item[0], item[1], tuple(item[2]))
    if item[0] == "InPlace":
        return ("InPlace", item[1])
    if item[0] == "Clobber":
        return ("Clobber", tuple(item[1]))
    raise ValueError(item)


if __name__ == "__main__":
    sys.exit(main())
