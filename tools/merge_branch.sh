#!/bin/bash
# usage: tools/merge_branch.sh <name>   -- merge /work/<name> branch <name> into /verif, uniting known_findings.json
set -e
cd /verif
n=$1
cp known_findings.json /tmp/kf_ours.json
git fetch -q /work/$n $n
if ! git merge -q --no-edit FETCH_HEAD 2>/tmp/merge_err.txt; then
  echo "conflicts:"; git diff --name-only --diff-filter=U
  for f in $(git diff --name-only --diff-filter=U); do
    if [ "$f" = "known_findings.json" ]; then
      git show FETCH_HEAD:known_findings.json > /tmp/kf_theirs.json
      python3 - <<'PY'
import json
a=json.load(open('/tmp/kf_ours.json')); b=json.load(open('/tmp/kf_theirs.json'))
bm={x['id']:x for x in b}
a=[(bm[x['id']] if x['id'] in bm and bm[x['id']].get('status')=='fixed' else x) for x in a]
ids={x['id'] for x in a}
a+= [x for x in b if x['id'] not in ids]
json.dump(a,open('/verif/known_findings.json','w'),indent=1)
PY
      git add known_findings.json
    elif [[ "$f" == evidence/* ]]; then
      git checkout --theirs -- "$f"; git add "$f"
    fi
  done
  if [ -z "$(git diff --name-only --diff-filter=U)" ]; then git commit -q --no-edit; else echo UNRESOLVED; exit 1; fi
fi
echo merged $n: $(git log --oneline -1)
