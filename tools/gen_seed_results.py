#!/usr/bin/env python3
"""Regenerate seeded/RESULTS.md from the meta.json files written by tools/seed_pipeline.py."""
import json, glob, os, re
rows = []
for d in sorted(glob.glob('/verif/seeded/C*-*'), key=lambda p: (os.path.basename(p).split('-')[0], int(os.path.basename(p).split('-')[1]))):
    try:
        m = json.load(open(d + '/meta.json'))
    except Exception:
        continue
    def fmt(v):
        out = []
        for p, c in (v or {}).get('checks', {}).items():
            if c.get('violations', 0) > 0:
                out.append(f"{p} ({'failing input' if c['violations'] > c.get('no_failing_input', 0) else 'broken obligation, no input'})")
        return ', '.join(out) or '—'
    first = fmt(m.get('first_pass')) if 'first_pass' in m else ''
    rows.append((os.path.basename(d), re.sub(r'\s+', ' ', m.get('summary', ''))[:170], fmt(m.get('verification')), first))
with open('/verif/seeded/RESULTS.md', 'w') as f:
    f.write("# Seeded changes and the checks that catch them\n\n"
            "Ids `Cxx-1/2`: first seeding round, `Cxx-3/4`: second, `Cxx-5/6`: third, `Cxx-7/8`: fourth (from the second round on the agents were told what had "
            "already been seeded).  Each directory holds patch.diff (and patch.ported.diff where the change had to be ported by hand onto the repaired tree), demo.py "
            "(exits 0 on the clean tree, non-zero with the change), meta.json (what it needs to manifest, tests run, and the verification record written by "
            "tools/seed_pipeline.py: the checks were run with VERIF_REPO pointing at a scratch worktree carrying the change).  Column 'first pass' is what the checks "
            "reported before the strengthening that the miss led to (empty: caught at once or not re-run).\n\n"
            "| id | seeded change | caught by | first pass |\n|---|---|---|---|\n")
    for r in rows:
        f.write("| " + " | ".join(r) + " |\n")
    n = len(rows); c = sum(1 for r in rows if r[2] != '—')
    f.write(f"\n{c} of {n} seeded changes raise an alarm.\n")
print(len(rows))
