#!/usr/bin/env python3
"""T-tr (C19): every NARROWING cast site of torcheval/metrics/**, regenerated from the Python AST on every run.

A narrowing cast site is
  * a method call  x.float() / .half() / .bfloat16() / .int() / .short() / .char() / .byte(),
  * x.type(D) / x.to(D) / x.to(dtype=D) / any call with keyword dtype=D where D names a narrow dtype
    (float, float32, float16, half, bfloat16, int, int32, int16, short, int8, uint8),
  * x.to(y) / x.type_as(y) where y is not a device / dtype expression (adopts the dtype of ANOTHER tensor).
Each site is recorded as (module, enclosing function, the cast OPERATION: `.float()`, `.to(torch.float)`,
`.type(<tensor>.dtype)`, `torch.ones_like(dtype=torch.float)` ... -- without the receiver expression, variable names or line
numbers, so renames, hoisting and edits elsewhere in the file do not disturb the table), with its number of occurrences.  Output: coq/Generated/CastSites.v.  Fail-closed: a file that
does not parse is a broken tie (exit 1)."""
import ast, os, sys
from pathlib import Path

REPO = Path(os.environ.get("VERIF_REPO", "/repo"))
OUT = Path(__file__).resolve().parent.parent / "coq" / "Generated" / "CastSites.v"
NARROW = {"float", "float32", "float16", "half", "bfloat16", "int", "int32", "int16", "short", "int8", "uint8"}
METHODS = {"float", "half", "bfloat16", "int", "short", "char", "byte"}
SKIP_FILES = {"image/fid.py", "image/ssim.py"}          # not constructible on this image; not modelled (DESIGN 14)


def dtype_name(n):
    if isinstance(n, ast.Attribute) and isinstance(n.value, ast.Name) and n.value.id == "torch":
        return n.attr
    return None


def devicey(n):
    s = ast.unparse(n)
    return "device" in s or isinstance(n, ast.Constant) or s.startswith("torch.") or s in ("dtype",)


class V(ast.NodeVisitor):
    def __init__(self, mod):
        self.mod, self.stack, self.rows = mod, [], []

    def visit_ClassDef(self, n):
        self.stack.append(n.name); self.generic_visit(n); self.stack.pop()

    def visit_FunctionDef(self, n):
        self.stack.append(n.name); self.generic_visit(n); self.stack.pop()
    visit_AsyncFunctionDef = visit_FunctionDef

    def norm_arg(self, a):
        """torch.<dtype> stays; everything else is reduced to its shape, so that renaming a variable or hoisting a
        sub-expression does not change the identity of a site"""
        if isinstance(a, ast.Starred):
            return "*"
        if dtype_name(a) is not None:
            return "torch." + dtype_name(a)
        if isinstance(a, ast.Attribute) and a.attr == "dtype":
            return "<tensor>.dtype"
        if isinstance(a, ast.Call):
            return "<call>"
        if isinstance(a, ast.Constant):
            return repr(a.value)
        return "<expr>"

    def add(self, n):
        f = n.func
        name = f.attr if isinstance(f, ast.Attribute) else (f.id if isinstance(f, ast.Name) else "<fn>")
        recv = "." if isinstance(f, ast.Attribute) and not (isinstance(f.value, ast.Name) and f.value.id == "torch") else "torch."
        args = [self.norm_arg(a) for a in n.args] if recv == "." else []
        kws = [f"{k.arg}={self.norm_arg(k.value)}" for k in n.keywords if k.arg == "dtype"]
        self.rows.append((self.mod, ".".join(self.stack) or "<module>", f"{recv}{name}({', '.join(args + kws)})"))

    def visit_Call(self, n):
        f = n.func
        hit = False
        if isinstance(f, ast.Attribute):
            if f.attr in METHODS and not n.args and not n.keywords:
                hit = True
            elif f.attr in ("type", "to"):
                for a in n.args:
                    if isinstance(a, ast.Starred):
                        continue
                    d = dtype_name(a)
                    if d in NARROW:
                        hit = True
                    elif d is None and f.attr == "to" and not devicey(a):
                        hit = True                      # .to(other_tensor): adopts its dtype
                    elif d is None and f.attr == "type":
                        hit = True                      # .type(<computed dtype>), e.g. .type(target.dtype)
            elif f.attr == "type_as":
                hit = True
        for k in n.keywords:
            if k.arg == "dtype" and dtype_name(k.value) in NARROW:
                hit = True
        if hit:
            self.add(n)
        self.generic_visit(n)


def main():
    rows, bad = [], []
    base = REPO / "torcheval" / "metrics"
    for p in sorted(base.rglob("*.py")):
        rel = str(p.relative_to(base))
        if rel in SKIP_FILES:
            continue
        try:
            tree = ast.parse(p.read_text())
        except Exception as e:   # fail closed
            bad.append(f"{rel}: {e}")
            continue
        # docstrings (examples) are not code
        v = V(rel)
        v.visit(tree)
        rows += v.rows
    import collections
    cnt = collections.Counter(rows)
    rows = sorted(cnt)
    esc = lambda s: s.replace('"', '""')
    OUT.parent.mkdir(exist_ok=True)
    with open(OUT, "w") as f:
        f.write("(* GENERATED by tools/tr_casts.py from the Python AST of /repo/torcheval/metrics on every run -- do not edit.\n"
                "   (module, enclosing function, normalised source of a narrowing cast expression, number of occurrences in that function) *)\n"
                "From Coq Require Import List String.\nImport ListNotations.\nOpen Scope string_scope.\n\n"
                "Definition cast_sites : list (string * string * string * nat) := [\n")
        f.write(";\n".join(f'  ("{esc(m)}", "{esc(fn)}", "{esc(src)}", {cnt[(m, fn, src)]})' for m, fn, src in rows))
        f.write("\n].\n")
        f.write(f"Definition cast_translation_problems : list string := [{'; '.join(chr(34) + esc(b) + chr(34) for b in bad)}].\n")
    print(f"tr_casts: {len(rows)} narrowing cast sites, {len(bad)} problems")
    return 1 if bad else 0


if __name__ == "__main__":
    sys.exit(main())
