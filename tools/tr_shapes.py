#!/usr/bin/env python3
"""T-tr for C18/C14: FAIL-CLOSED translation of every `*check*` function under
torcheval/metrics/functional/** (plus the window classes' input-check methods) into a ShapeLang
term (coq/Models/ShapeLang.v) in coq/Generated/ShapeChecks.v.

Grammar (DESIGN Appendix B).  Statements: `if/elif/else`, `raise`, docstrings, assignment of an
option tuple, assignment of a shape term, `x = x.unsqueeze(0)`, `if c: return`, opaque local computations
(`input_max = input.max()`; an `if` whose branches only assign opaque locals), calls of another
check function (inlined).  Conditions: comparisons of `.ndim/.dim()/len(.shape)`, `.shape[i]/.size(i)`,
`.numel()/.nelement()`, `len()`, integer parameters and integer literals; `.shape/.size()` (in)equality;
`is None`; isinstance / type() tests; option membership; string (in)equality; boolean parameters;
and/or/not.  A condition that depends on tensor VALUES (torch.max(target) >= num_classes,
(threshold < 0).any(), dtype/device tests, comparisons of float parameters) becomes an opaque,
NAMED atom -- the name is the source text, so editing the expression breaks the contract proof.
Anything else aborts the translation of that function: it is emitted as `SUntranslated` (which never
accepts, so its contract theorem fails), listed in `untranslated`, and this script exits 1.

Side output out/gen/shape_checks.json: per function its file, parameters, kinds, atoms (name,
python expression) and the opaque pre-statements the harness executes to evaluate the atoms on real
arguments.
"""
from __future__ import annotations
import ast
import json
import os
import sys
from pathlib import Path

ROOT = Path(__file__).resolve().parent.parent
sys.path.insert(0, str(ROOT))
from vlib.core import write_if_changed, REPO  # noqa: E402

METRICS = REPO / "torcheval" / "metrics"
OUT_V = ROOT / "coq" / "Generated" / "ShapeChecks.v"
OUT_JSON = ROOT / "out" / "gen" / "shape_checks.json"

# not in scope (DESIGN Appendix B): FID's checks are methods mixing model plumbing (image/fid.py is not
# under functional/ and is not a window class).
EXTRA_FILES = sorted((METRICS / "window").glob("*.py"))


class Unsupported(Exception):
    pass


def q(s: str) -> str:
    return '"' + s.replace('"', '""') + '"'


def coq_name(fn: str) -> str:
    return fn.lstrip("_")


KINDS = {
    "torch.Tensor": "KTensor", "Tensor": "KTensor",
    "torch.Tensor | None": "KOptTensor", "Optional[torch.Tensor]": "KOptTensor",
    "int": "KInt", "int | None": "KOptInt", "Optional[int]": "KOptInt",
    "bool": "KBool", "float": "KFloat", "float | None": "KOptFloat", "Optional[float]": "KOptFloat",
    "str": "KStr", "str | None": "KOptStr", "Optional[str]": "KOptStr",
    "str | list[str]": "KStrOrList", "Union[str, List[str]]": "KStrOrList",
    "float | int | torch.Tensor": "KNumOrTensor", "int | float | torch.Tensor": "KNumOrTensor",
    "Union[float, int, torch.Tensor]": "KNumOrTensor",
}
FLOATY = {"KFloat", "KOptFloat"}
VALUE_CALLS = {"any", "all", "max", "min", "sum", "diff", "isnan", "isinf", "is_tensor", "is_floating_point"}
VALUE_ATTRS = {"dtype", "device"}
CMP = {ast.Eq: "Eq", ast.NotEq: "Ne", ast.Lt: "Lt", ast.LtE: "Le", ast.Gt: "Gt", ast.GtE: "Ge"}


class Fn:
    """Translation state of one check function."""

    def __init__(self, name, node, file, funcs):
        self.name, self.node, self.file, self.funcs = name, node, file, funcs
        args = node.args
        if args.vararg or args.kwarg or args.posonlyargs:
            raise Unsupported("*args/**kwargs")
        self.params = []
        self.kinds = {}
        for a in list(args.args) + list(args.kwonlyargs):
            if a.arg == "self":
                continue
            ann = ast.unparse(a.annotation) if a.annotation is not None else ""
            self.params.append(a.arg)
            self.kinds[a.arg] = KINDS.get(ann, "KAny")
        self.atoms: list[dict] = []      # {name, expr}  in order of first occurrence
        self.pre: list[dict] = []        # {name, src}   opaque statements (exec'd by the harness), in order
        self.opaque_locals: set[str] = set()
        self.options: dict[str, list] = {}
        self.locals_term: dict[str, str] = {}
        self.locals_cond: dict[str, str] = {}

    # ---- atoms ---------------------------------------------------------------------------
    def names_ok(self, e, ren) -> bool:
        for n in ast.walk(e):
            if isinstance(n, ast.Name):
                if n.id in ("torch", "float", "int", "bool", "len"):
                    continue
                if n.id in self.opaque_locals:
                    continue
                if n.id in ren:
                    continue           # (inside an inlined callee the name is substituted, see `renamed`)
                return False
        return True

    @staticmethod
    def renamed(e, ren) -> str:
        """Source text of an expression / statement with the callee's parameter names replaced by the caller's."""
        import copy

        class R(ast.NodeTransformer):
            def visit_Name(self, n):
                if n.id in ren and ren[n.id] != n.id:
                    return ast.copy_location(ast.Name(id=ren[n.id], ctx=n.ctx), n)
                return n
        return ast.unparse(R().visit(copy.deepcopy(e)))

    def is_value_expr(self, e, ren) -> bool:
        """Depends on tensor values / dtypes / devices / float parameters, and on nothing we do not know."""
        if not self.names_ok(e, ren):
            return False
        for n in ast.walk(e):
            if isinstance(n, ast.Call):
                f = n.func
                if isinstance(f, ast.Attribute) and f.attr in VALUE_CALLS:
                    return True
            if isinstance(n, ast.Attribute) and n.attr in VALUE_ATTRS:
                return True
            if isinstance(n, ast.Subscript) and isinstance(n.value, ast.Name):
                return True            # threshold[0]
            if isinstance(n, ast.Name) and (n.id in self.opaque_locals or self.kinds.get(n.id) in FLOATY):
                return True
        return False

    def atom(self, e, ren=None) -> str:
        src = self.renamed(e, ren) if ren else ast.unparse(e)
        if src not in [a["name"] for a in self.atoms]:
            self.atoms.append({"name": src, "expr": src})
        return f"(Atom {q(src)})"

    def seval(self, stmt_src: str) -> str:
        if stmt_src not in [a["name"] for a in self.atoms]:
            self.atoms.append({"name": stmt_src, "expr": None})
            self.pre.append({"name": stmt_src, "src": stmt_src})
        return f"(SEval {q(stmt_src)})"

    # ---- terms ---------------------------------------------------------------------------
    def argname(self, e, ren) -> str:
        if isinstance(e, ast.Name) and e.id in ren:
            return q(ren[e.id])
        raise Unsupported("argument expression " + ast.unparse(e))

    def index(self, e) -> str:
        if isinstance(e, ast.Constant) and isinstance(e.value, int) and not isinstance(e.value, bool) and e.value >= 0:
            return str(e.value)
        raise Unsupported("index " + ast.unparse(e))

    def term(self, e, ren) -> str:
        if isinstance(e, ast.Constant) and isinstance(e.value, int) and not isinstance(e.value, bool):
            return f"(Lit ({e.value}))"
        if isinstance(e, ast.Name):
            if e.id in self.locals_term:
                return self.locals_term[e.id]
            if e.id in ren and self.kinds.get(e.id) not in FLOATY:
                return f"(Par {q(ren[e.id])})"
            raise Unsupported("name " + e.id)
        if isinstance(e, ast.Attribute) and e.attr == "ndim":
            return f"(Ndim {self.argname(e.value, ren)})"
        if isinstance(e, ast.Call):
            f = e.func
            if isinstance(f, ast.Attribute) and f.attr == "dim" and not e.args and not e.keywords:
                return f"(Ndim {self.argname(f.value, ren)})"
            if isinstance(f, ast.Attribute) and f.attr == "size" and len(e.args) == 1 and not e.keywords:
                return f"(Dim {self.argname(f.value, ren)} {self.index(e.args[0])})"
            if isinstance(f, ast.Attribute) and f.attr in ("numel", "nelement") and not e.args and not e.keywords:
                return f"(NumEl {self.argname(f.value, ren)})"
            if isinstance(f, ast.Name) and f.id == "len" and len(e.args) == 1:
                a = e.args[0]
                if isinstance(a, ast.Attribute) and a.attr == "shape":
                    return f"(Ndim {self.argname(a.value, ren)})"
                if isinstance(a, ast.Call) and isinstance(a.func, ast.Attribute) and a.func.attr == "size" and not a.args:
                    return f"(Ndim {self.argname(a.func.value, ren)})"
                return f"(Len {self.argname(a, ren)})"
        if isinstance(e, ast.Subscript):
            v = e.value
            if isinstance(v, ast.Attribute) and v.attr == "shape":
                return f"(Dim {self.argname(v.value, ren)} {self.index(e.slice)})"
            if isinstance(v, ast.Call) and isinstance(v.func, ast.Attribute) and v.func.attr == "size" and not v.args:
                return f"(Dim {self.argname(v.func.value, ren)} {self.index(e.slice)})"
        raise Unsupported("term " + ast.unparse(e))

    @staticmethod
    def shape_of(e):
        """`a.shape` / `a.size()` -> the Name node a, else None."""
        if isinstance(e, ast.Attribute) and e.attr == "shape":
            return e.value
        if isinstance(e, ast.Call) and isinstance(e.func, ast.Attribute) and e.func.attr == "size" and not e.args \
                and not e.keywords:
            return e.func.value
        return None

    @staticmethod
    def type_of(e):
        if isinstance(e, ast.Call) and isinstance(e.func, ast.Name) and e.func.id == "type" and len(e.args) == 1:
            return e.args[0]
        return None

    def type_test(self, a, ty, ren, isinst) -> str:
        t = ast.unparse(ty)
        n = self.argname(a, ren)
        if t in ("torch.Tensor", "Tensor"):
            return f"(IsTensor {n})"
        if t == "int":
            return f"(IsInstInt {n})" if isinst else f"(TypeIsInt {n})"
        if t == "float":
            return f"(IsFloat {n})"
        if t == "list":
            return f"(IsList {n})"
        raise Unsupported("type test against " + t)

    def options_of(self, e):
        if isinstance(e, ast.Name) and e.id in self.options:
            return self.options[e.id]
        if isinstance(e, (ast.Tuple, ast.List)) and all(isinstance(x, ast.Constant) for x in e.elts):
            return [x.value for x in e.elts]
        raise Unsupported("option set " + ast.unparse(e))

    # ---- conditions ----------------------------------------------------------------------
    def cond(self, e, ren) -> str:
        try:
            return self.cond_struct(e, ren)
        except Unsupported:
            if self.is_value_expr(e, ren):
                return self.atom(e, ren)
            raise

    def cond_struct(self, e, ren) -> str:
        if isinstance(e, ast.BoolOp):
            op = "And" if isinstance(e.op, ast.And) else "Or"
            parts = [self.cond(v, ren) for v in e.values]
            out = parts[-1]
            for p in reversed(parts[:-1]):
                out = f"({op} {p} {out})"
            return out
        if isinstance(e, ast.UnaryOp) and isinstance(e.op, ast.Not):
            return f"(Not {self.cond(e.operand, ren)})"
        if isinstance(e, ast.Name):
            if e.id in getattr(self, "locals_cond", {}):
                return self.locals_cond[e.id]            # a named local condition: `ok = x.ndim == 1`
            if e.id in ren and self.kinds.get(e.id) in ("KBool", "KOptInt", "KInt", "KAny"):
                return f"(BoolP {q(ren[e.id])})"
            raise Unsupported("truthiness of " + e.id)
        if isinstance(e, ast.Call) and isinstance(e.func, ast.Name) and e.func.id == "isinstance" and len(e.args) == 2:
            return self.type_test(e.args[0], e.args[1], ren, True)
        if isinstance(e, ast.Compare):
            if len(e.ops) > 1:                      # chained a <= b <= c
                parts = []
                left = e.left
                for op, r in zip(e.ops, e.comparators):
                    parts.append(ast.Compare(left, [op], [r]))
                    left = r
                return self.cond_struct(ast.BoolOp(ast.And(), parts), ren)
            op, l, r = e.ops[0], e.left, e.comparators[0]
            if isinstance(op, (ast.Is, ast.IsNot)):
                neg = isinstance(op, ast.IsNot)
                if isinstance(r, ast.Constant) and r.value is None:
                    t = f"(IsNone {self.argname(l, ren)})"
                elif self.type_of(l) is not None:
                    t = self.type_test(self.type_of(l), r, ren, False)
                else:
                    raise Unsupported("is-test " + ast.unparse(e))
                return f"(Not {t})" if neg else t
            if isinstance(op, (ast.In, ast.NotIn)):
                neg = isinstance(op, ast.NotIn)
                opts = self.options_of(r)
                if all(isinstance(o, str) or o is None for o in opts):
                    lst = "; ".join("None" if o is None else f"Some {q(o)}" for o in opts)
                    t = f"(OptIn {self.argname(l, ren)} [{lst}])"
                elif opts and all(isinstance(o, int) and not isinstance(o, bool) for o in opts):
                    lt = self.term(l, ren)
                    t = f"(Eq {lt} (Lit ({opts[-1]})))"
                    for o in reversed(opts[:-1]):
                        t = f"(Or (Eq {lt} (Lit ({o}))) {t})"
                else:
                    raise Unsupported("membership " + ast.unparse(e))
                return f"(Not {t})" if neg else t
            if type(op) in CMP:
                k = CMP[type(op)]
                if k in ("Eq", "Ne"):
                    sl, sr = self.shape_of(l), self.shape_of(r)
                    if sl is not None and sr is not None:
                        t = f"(ShapeEq {self.argname(sl, ren)} {self.argname(sr, ren)})"
                        return t if k == "Eq" else f"(Not {t})"
                    tl, tr = self.type_of(l), self.type_of(r)
                    if tl is not None and tr is not None:
                        t = f"(TypeEq {self.argname(tl, ren)} {self.argname(tr, ren)})"
                        return t if k == "Eq" else f"(Not {t})"
                    if tl is not None:
                        t = self.type_test(tl, r, ren, False)
                        return t if k == "Eq" else f"(Not {t})"
                    if isinstance(r, ast.Constant) and isinstance(r.value, str):
                        t = f"(StrEq {self.argname(l, ren)} {q(r.value)})"
                        return t if k == "Eq" else f"(Not {t})"
                return f"({k} {self.term(l, ren)} {self.term(r, ren)})"
        raise Unsupported("condition " + ast.unparse(e))

    # ---- statements ----------------------------------------------------------------------
    def is_opaque_assign(self, s, ren) -> bool:
        if not (isinstance(s, ast.Assign) and len(s.targets) == 1 and isinstance(s.targets[0], ast.Name)):
            return False
        v = s.value
        if isinstance(v, ast.Name):
            return v.id in ren or v.id in self.opaque_locals
        # a tensor-valued computation over parameters / opaque locals: method calls, deepcopy, indexing
        for n in ast.walk(v):
            if isinstance(n, ast.Name) and n.id not in ren and n.id not in self.opaque_locals \
                    and n.id not in ("torch", "deepcopy"):
                return False
        return isinstance(v, (ast.Call, ast.Subscript))

    def opaque_block(self, stmts, ren) -> bool:
        """All statements assign opaque locals (checked sequentially: later ones may use earlier ones)."""
        saved = set(self.opaque_locals)
        ok = bool(stmts)
        for s in stmts:
            if not self.is_opaque_assign(s, ren):
                ok = False
                break
            self.opaque_locals.add(s.targets[0].id)
        self.opaque_locals = saved
        return ok

    def seq(self, items) -> str:
        items = [i for i in items if i != "SSkip"]
        if not items:
            return "SSkip"
        out = items[-1]
        for i in reversed(items[:-1]):
            out = f"(SSeq {i} {out})"
        return out

    def body(self, stmts, ren, depth=0) -> str:
        out = []
        for s in stmts:
            if isinstance(s, ast.Expr) and isinstance(s.value, ast.Constant) and isinstance(s.value.value, str):
                continue
            if isinstance(s, ast.Pass):
                continue
            if isinstance(s, ast.Raise):
                out.append("SRaise")
                break
            if isinstance(s, ast.Return) and s.value is None:
                raise Unsupported("early return")
            if isinstance(s, ast.If):
                # `if c: x = x.unsqueeze(0)`
                if (len(s.body) == 1 and not s.orelse and isinstance(s.body[0], ast.Assign)
                        and self.unsqueeze0(s.body[0]) is not None):
                    a = self.unsqueeze0(s.body[0])
                    c = self.cond(s.test, ren)
                    self.forget_locals(a)
                    out.append(f"(SIf {c} (SUnsq0 {self.argname(ast.Name(a), ren)}) SSkip)")
                    continue
                # an `if` whose branches only compute opaque locals
                if self.opaque_block(s.body, ren) and (not s.orelse or self.opaque_block(s.orelse, ren)):
                    pre_locals = set(self.opaque_locals)
                    for b in s.body + s.orelse:
                        self.opaque_locals.add(b.targets[0].id)
                    if not self.names_ok(s.test, ren):
                        raise Unsupported("opaque if-test " + ast.unparse(s.test))
                    out.append(self.seval(self.renamed(s, ren)))
                    continue
                # `if c: return` -- the rest of the function runs only when c is false
                if len(s.body) == 1 and isinstance(s.body[0], ast.Return) and s.body[0].value is None and not s.orelse:
                    c = self.cond(s.test, ren)
                    rest = self.body(stmts[stmts.index(s) + 1:], ren, depth)
                    out.append(f"(SIf {c} SSkip {rest})")
                    break
                c = self.cond(s.test, ren)
                t = self.body(s.body, ren, depth)
                f = self.body(s.orelse, ren, depth)
                out.append(f"(SIf {c} {t} {f})")
                continue
            if isinstance(s, ast.Assign) and len(s.targets) == 1 and isinstance(s.targets[0], ast.Name):
                n, v = s.targets[0].id, s.value
                if isinstance(v, (ast.Tuple, ast.List)) and all(isinstance(x, ast.Constant) for x in v.elts):
                    self.options[n] = [x.value for x in v.elts]
                    continue
                if self.unsqueeze0(s) is not None:
                    a = self.unsqueeze0(s)
                    self.forget_locals(a)
                    out.append(f"(SUnsq0 {self.argname(ast.Name(a), ren)})")
                    continue
                if n in ren:
                    raise Unsupported("rebinding of parameter " + n)
                sh = self.shape_of(v)
                if sh is not None:                    # size_x = x.size(): only usable in messages
                    self.argname(sh, ren)
                    self.locals_term.pop(n, None)
                    continue
                if not isinstance(v, ast.Name):
                    try:
                        self.locals_term[n] = self.term(v, ren)
                        continue
                    except Unsupported:
                        pass
                if isinstance(v, (ast.Compare, ast.BoolOp)) or (isinstance(v, ast.UnaryOp) and isinstance(v.op, ast.Not)):
                    # a named local condition (side-effect free): substituted where it is tested
                    try:
                        c = self.cond(v, ren)
                        if not hasattr(self, "locals_cond"):
                            self.locals_cond = {}
                        self.locals_cond[n] = c
                        continue
                    except Unsupported:
                        pass
                if self.is_opaque_assign(s, ren):
                    self.opaque_locals.add(n)
                    out.append(self.seval(self.renamed(s, ren)))
                    continue
                raise Unsupported("assignment " + ast.unparse(s))
            if isinstance(s, ast.Expr) and isinstance(s.value, ast.Call) and isinstance(s.value.func, ast.Name) \
                    and s.value.func.id in self.funcs:
                if depth >= 3:
                    raise Unsupported("call depth")
                call = s.value
                callee = self.funcs[call.func.id][0]
                cparams = [a.arg for a in callee.args.args if a.arg != "self"]
                ren2 = {}
                for p_, a_ in list(zip(cparams, call.args)) + [(k.arg, k.value) for k in call.keywords]:
                    if p_ is None or p_ not in cparams:
                        raise Unsupported("call " + ast.unparse(call))
                    if isinstance(a_, ast.Name) and a_.id in ren:
                        ren2[p_] = ren[a_.id]
                        ck = KINDS.get(ast.unparse(next(x for x in callee.args.args if x.arg == p_).annotation or ast.Name("")), "KAny")
                        self.kinds.setdefault(p_, ck)
                    else:
                        raise Unsupported("call argument " + ast.unparse(a_))
                ndef = len(callee.args.defaults)
                required = cparams[: len(cparams) - ndef] if ndef else cparams
                for p_ in required:
                    if p_ not in ren2:
                        raise Unsupported("call misses " + p_)
                for p_ in cparams:
                    if p_ not in ren2:
                        raise Unsupported("callee default for " + p_)
                saved = (self.options, self.locals_term, self.locals_cond)
                self.options, self.locals_term, self.locals_cond = {}, {}, {}
                out.append(self.body(callee.body, ren2, depth + 1))
                self.options, self.locals_term, self.locals_cond = saved
                continue
            raise Unsupported(type(s).__name__ + ": " + ast.unparse(s)[:100])
        return self.seq(out)

    def forget_locals(self, a):
        for k in [k for k, v in self.locals_term.items() if q(a) in v]:
            del self.locals_term[k]

    @staticmethod
    def unsqueeze0(s):
        """`x = x.unsqueeze(0)` -> 'x'."""
        v = s.value
        if (isinstance(s.targets[0], ast.Name) and isinstance(v, ast.Call) and isinstance(v.func, ast.Attribute)
                and v.func.attr == "unsqueeze" and isinstance(v.func.value, ast.Name)
                and v.func.value.id == s.targets[0].id and len(v.args) == 1
                and isinstance(v.args[0], ast.Constant) and v.args[0].value == 0):
            return s.targets[0].id
        return None

    def translate(self) -> str:
        ren = {p: p for p in self.params}
        return self.body(self.node.body, ren)


def collect():
    files = sorted((METRICS / "functional").rglob("*.py")) + EXTRA_FILES
    funcs = {}
    for f in files:
        tree = ast.parse(f.read_text())
        for n in ast.walk(tree):
            if isinstance(n, ast.FunctionDef) and "check" in n.name:
                if n.name in funcs:
                    raise SystemExit(f"duplicate check function name {n.name}")
                funcs[n.name] = (n, str(f.relative_to(REPO)))
    return funcs


def main() -> int:
    funcs = collect()
    defs, table, meta, failed = [], [], {}, []
    for name in sorted(funcs):
        node, file = funcs[name]
        cn = coq_name(name)
        try:
            fn = Fn(name, node, file, funcs)
            term = fn.translate()
            ok = True
        except Unsupported as ex:
            fn = Fn.__new__(Fn)
            fn.params, fn.kinds, fn.atoms, fn.pre = [], {}, [], []
            try:
                tmp = Fn(name, node, file, funcs)
                fn.params, fn.kinds = tmp.params, tmp.kinds
            except Unsupported:
                pass
            term = "SUntranslated"
            ok = False
            failed.append((name, file, str(ex)))
        sig = "; ".join(f"({q(p)}, {fn.kinds[p]})" for p in fn.params)
        atoms = "; ".join(q(a["name"]) for a in fn.atoms)
        defs.append(f"(* {file}:{node.lineno} {name}" + ("" if ok else "   -- TRANSLATION ABORTED: " + failed[-1][2].replace("*)", "* )")) + " *)\n"
                    f"Definition sig_{cn} : list (string * kind) := [{sig}].\n"
                    f"Definition atoms_{cn} : list string := [{atoms}].\n"
                    f"Definition chk_{cn} : stmt :=\n  {term}.\n")
        table.append(f"  ({q(name)}, (sig_{cn}, atoms_{cn}, chk_{cn}))")
        meta[name] = {"file": file, "line": node.lineno, "coq": cn, "translated": ok,
                      "params": fn.params, "kinds": {p: fn.kinds[p] for p in fn.params},
                      "atoms": fn.atoms, "pre": fn.pre}
    txt = ("(* GENERATED by tools/tr_shapes.py from " + str(METRICS.relative_to(REPO)) + " -- do not edit. *)\n"
           "From Coq Require Import ZArith List String.\nFrom TE Require Import Models.ShapeLang.\n"
           "Import ListNotations.\nOpen Scope string_scope.\nOpen Scope Z_scope.\n\n"
           + "\n".join(defs) +
           "\nDefinition all_checks : list (string * (list (string * kind) * list string * stmt)) := [\n"
           + ";\n".join(table) + "\n].\n\n"
           "Definition untranslated : list string := [" + "; ".join(q(n) for n, _, _ in failed) + "].\n")
    write_if_changed(OUT_V, txt)
    write_if_changed(OUT_JSON, json.dumps(meta, indent=1, sort_keys=True))
    natoms = len({a["name"] for m in meta.values() for a in m["atoms"]})
    for n, f, why in failed:
        print(f"UNTRANSLATED {f}:{n}: {why}", file=sys.stderr)
    print(f"tr_shapes: {len(funcs) - len(failed)}/{len(funcs)} check functions translated, {natoms} distinct value atoms")
    return 1 if failed else 0


if __name__ == "__main__":
    sys.exit(main())
