#!/usr/bin/env python3
"""Apply each seeded change to /repo, run the checks of its property (and any extra ones given),
undo it, and record which checks raised an alarm in seeded/<id>/meta.json.
usage: seed_pipeline.py <PROP>/<n>[:extra,extra] ..."""
import json, os, shutil, subprocess, sys, time
from pathlib import Path
V = Path(os.environ.get("VERIF_DIR", "/verif"))
S = os.environ.get("SCRATCH", "/tmp/repo-scratch")   # a detached worktree of /repo HEAD: seeds are applied HERE, /repo itself is never touched

def sh(cmd, **kw):
    return subprocess.run(cmd, shell=True, capture_output=True, text=True, **kw)

import os
if not Path(S).exists():
    sh(f"git -C /repo worktree add -q --detach {S} HEAD")
sh(f"git -C {S} checkout -q --detach $(git -C /repo rev-parse HEAD) ; git -C {S} checkout -q -- . ; git -C {S} reset -q")
args = sys.argv[1:]
if args == ["--all"]:          # re-verify every recorded seed with the checks recorded for it
    args = []
    for d in sorted((V / "seeded").glob("C*-*")):
        try:
            mm = json.loads((d / "meta.json").read_text())
        except Exception:
            continue
        cks = list((mm.get("verification") or {}).get("checks", {})) or [d.name.split("-")[0]]
        own = d.name.split("-")[0]
        if os.environ.get("FROM") and d.name < os.environ["FROM"]:
            continue
        args.append(d.name + ":" + ",".join(c for c in cks if c != own))
for arg in args:
    sid, _, extra = arg.partition(":")
    if "-" in sid:             # an already recorded seed: seeded/<sid>
        prop = sid.split("-")[0]
        dst = V / "seeded" / sid
        src = dst
        n = None
    else:
        prop, n = sid.split("/")
    if n is not None:
        src = Path(os.environ.get("SEED_BASE", "/tmp/seed")) / prop / "out" / n
        if os.environ.get("SEED_FLAT"):
            src = Path(os.environ["SEED_BASE"]) / prop / n
        dst = V / "seeded" / f"{prop}-{int(n) + int(os.environ.get('NOFF', '0'))}"
        dst.mkdir(parents=True, exist_ok=True)
        for f in ("patch.diff", "demo.py", "meta.json"):
            if (src / f).exists():
                shutil.copy(src / f, dst / f)
    meta = json.loads((dst / "meta.json").read_text()) if (dst / "meta.json").exists() else {}
    assert sh(f"git -C {S} status --short").stdout.strip() == "", "scratch repo not clean"
    how = "apply patch.diff"
    r = sh(f"git -C {S} apply {dst}/patch.diff")
    if r.returncode != 0 and (dst / "patch.ported.diff").exists():
        r = sh(f"git -C {S} apply {dst}/patch.ported.diff")
        how = "apply patch.ported.diff (the same change ported by hand onto the repaired tree)"
    if r.returncode != 0:
        meta["verification"] = {"applies_to_repaired_tree": False, "error": r.stderr[-500:]}
        (dst / "meta.json").write_text(json.dumps(meta, indent=1))
        sh(f"git -C {S} checkout -- . ; git -C {S} reset -q")
        print(sid, "APPLY-FAILED")
        continue
    # the demo must fail on the patched repaired tree as well
    d = sh(f"PYTHONPATH={S} /venv/bin/python {dst}/demo.py", timeout=300)
    res = {}
    for p in [prop] + [x for x in extra.split(",") if x]:
        t = time.time()
        c = sh(f"VERIF_REPO={S} ./check {p} --tier quick", cwd=V, timeout=1800)
        vio = [l for l in c.stdout.splitlines() if l.startswith("VIOLATION")]
        rep = []
        for l in vio[:3]:
            try:
                rp = json.load(open(l.split("replay=")[1].split()[0]))
                rep.append({"kind": rp.get("kind"), "target": rp.get("target"), "observed": str(rp.get("observed") or rp.get("detail") or rp.get("broken"))[:300]})
            except Exception:
                rep.append({"line": l})
        res[p] = {"exit": c.returncode, "violations": len(vio), "no_failing_input": sum("no-failing-input-found" in l for l in vio), "first": rep, "wall_s": round(time.time() - t)}
    sh(f"git -C {S} checkout -- . ; git -C {S} reset -q")
    assert sh(f"git -C {S} status --short").stdout.strip() == "", "scratch repo not restored"
    if "verification" in meta and "first_pass" not in meta and meta["verification"].get("checks") and int(dst.name.split("-")[1]) >= 5:
        meta["first_pass"] = meta["verification"]          # what the checks reported before they were strengthened
    meta["verification"] = {"applied_with": f"git -C {S} {how} (scratch worktree of the repaired tree, checks run with VERIF_REPO pointing at it), undone with git checkout",
                            "demo_exit_on_patched_repo": d.returncode, "checks": res,
                            "caught_by": [p for p, v in res.items() if v["violations"] > 0]}
    (dst / "meta.json").write_text(json.dumps(meta, indent=1))
    print(sid, "demo_exit", d.returncode, {p: (v["violations"], v["no_failing_input"]) for p, v in res.items()}, flush=True)
