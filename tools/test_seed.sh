#!/bin/bash
# usage: tools/test_seed.sh <patch.diff> <prop> [<prop>...]  -- apply a seeded change to /repo, run the checks, undo
patch=$1; shift
cd /verif
if ! git -C /repo apply --check "$patch" 2>/dev/null; then
  if git -C /repo apply --3way --check "$patch" 2>/dev/null; then echo "(3way)"; else echo "APPLY-FAILED $patch"; exit 3; fi
fi
git -C /repo apply "$patch" 2>/dev/null || git -C /repo apply --3way "$patch"
for p in "$@"; do
  out=$(./check $p 2>/dev/null | grep "^VIOLATION" | head -3)
  if [ -n "$out" ]; then echo "CAUGHT by $p: $(echo "$out" | head -1 | cut -c1-120) ($(echo "$out" | wc -l)+ lines)"; else echo "missed by $p"; fi
done
git -C /repo checkout -- . ; git -C /repo reset -q ; git -C /repo status --short | head -3
