(* DESIGN PROBE (not framework code): C13 item 2 -- the sample-granular ring buffer of
   WindowedBinaryAUROC.update (three insertion cases: batch >= N; fits in the rest of the
   window; wraps around) always holds exactly the last min(total, N) samples. *)
From Coq Require Import List Arith Lia.
Import ListNotations.

Section Win.
Variable A : Type.
Variable z : A.                                    (* the zero filling of the initial buffers *)

Record win := { buf : list A; cursor : nat; total : nat }.
Definition init (N : nat) : win := {| buf := repeat z N; cursor := 0; total := 0 |}.
Definition lastn (n : nat) (l : list A) := skipn (length l - n) l.
(* buf[a : a + |b|] = b *)
Definition blit (a : nat) (b : list A) (l : list A) : list A := firstn a l ++ b ++ skipn (a + length b) l.

Definition upd (N : nat) (w : win) (b : list A) : win :=
  let k := length b in
  if N <=? k then {| buf := lastn N b; cursor := 0; total := total w + k |}
  else
    let rest := N - cursor w in
    if k <=? rest
    then {| buf := blit (cursor w) b (buf w); cursor := (cursor w + k) mod N; total := total w + k |}
    else {| buf := blit 0 (skipn rest b) (blit (cursor w) (firstn rest b) (buf w));
            cursor := (k - rest) mod N; total := total w + k |}.

(* history = older ++ prev ++ cur ; buffer = cur ++ skipn |cur| prev  (prev = zeros on the first lap) *)
Definition Inv (N : nat) (h : list A) (w : win) : Prop :=
  exists older prev cur,
    h = older ++ prev ++ cur /\ length cur = cursor w /\ cursor w < N /\ total w = length h /\
    ((length prev = N /\ buf w = cur ++ skipn (length cur) prev) \/
     (prev = [] /\ older = [] /\ buf w = cur ++ skipn (length cur) (repeat z N))).

Lemma skipn_skipn' : forall (n m : nat) (l : list A), skipn n (skipn m l) = skipn (m + n) l.
Proof.
  intros n m. revert n. induction m as [|m IH]; intros n l; [reflexivity|].
  destruct l as [|x l]; [rewrite !skipn_nil; reflexivity|]. cbn [skipn Nat.add]. apply IH.
Qed.

Lemma blit_tail (cur b P : list A) : length cur + length b <= length P ->
  blit (length cur) b (cur ++ skipn (length cur) P) = (cur ++ b) ++ skipn (length cur + length b) P.
Proof.
  intros H. unfold blit. rewrite firstn_app, firstn_all, Nat.sub_diag. cbn [firstn]. rewrite app_nil_r.
  rewrite skipn_app. rewrite (skipn_all2 cur) by lia. cbn [app].
  replace (length cur + length b - length cur) with (length b) by lia.
  rewrite skipn_skipn'. rewrite <- app_assoc. reflexivity.
Qed.

Lemma inv_init N : 0 < N -> Inv N [] (init N).
Proof. intros HN. exists [], [], []. cbn. repeat split; try lia. right. repeat split. Qed.

Lemma inv_upd N h w b : 0 < N -> Inv N h w -> Inv N (h ++ b) (upd N w b).
Proof.
  intros HN (older & prev & cur & Hh & Hc & HcN & Ht & Hb). unfold upd.
  assert (Hlen : total w + length b = length (h ++ b)) by (rewrite app_length; lia).
  destruct (Nat.leb_spec N (length b)) as [Hbig|Hsmall].
  - (* the batch alone fills the window *)
    exists (older ++ prev ++ cur ++ firstn (length b - N) b), (lastn N b), [].
    cbn [buf cursor total]. split; [|split; [reflexivity|split; [lia|split; [exact Hlen|]]]].
    + unfold lastn. rewrite Hh, app_nil_r, <- !app_assoc. do 3 f_equal. symmetry. apply firstn_skipn.
    + left. unfold lastn. split; [rewrite skipn_length; lia|reflexivity].
  - destruct (Nat.leb_spec (length b) (N - cursor w)) as [Hfit|Hwrap].
    + (* fits into the rest of the window *)
      assert (HP : forall P, length P = N -> buf w = cur ++ skipn (length cur) P ->
                 blit (cursor w) b (buf w) = (cur ++ b) ++ skipn (length (cur ++ b)) P).
      { intros P HPl HPb. rewrite HPb, <- Hc, blit_tail by lia. rewrite app_length. reflexivity. }
      destruct (Nat.eq_dec (cursor w + length b) N) as [Hfull|Hnot].
      * exists (older ++ prev), (cur ++ b), []. cbn [buf cursor total]. rewrite Hfull, Nat.mod_same by lia.
        split; [|split; [reflexivity|split; [lia|split; [exact Hlen|]]]].
        -- rewrite Hh, app_nil_r, <- !app_assoc. reflexivity.
        -- left. split; [rewrite app_length; lia|]. cbn [app length skipn].
           destruct Hb as [[Hp Hbw]|(-> & -> & Hbw)].
           ++ rewrite (HP prev Hp Hbw), skipn_all2 by (rewrite app_length; lia). apply app_nil_r.
           ++ rewrite (HP (repeat z N) (repeat_length z N) Hbw), skipn_all2 by (rewrite app_length, repeat_length; lia). apply app_nil_r.
      * exists older, prev, (cur ++ b). cbn [buf cursor total]. rewrite Nat.mod_small by lia.
        split; [|split; [rewrite app_length; lia|split; [lia|split; [exact Hlen|]]]].
        -- rewrite Hh, <- !app_assoc. reflexivity.
        -- destruct Hb as [[Hp Hbw]|(-> & -> & Hbw)].
           ++ left. split; [exact Hp|]. apply (HP prev Hp Hbw).
           ++ right. split; [reflexivity|split; [reflexivity|]]. apply (HP (repeat z N) (repeat_length z N) Hbw).
    + (* wraps around: first part to the end, second part to the front *)
      set (rest := N - cursor w) in *. set (b1 := firstn rest b). set (b2 := skipn rest b).
      assert (Hb1 : length b1 = rest) by (unfold b1; rewrite firstn_length; lia).
      assert (Hb2 : length b2 = length b - rest) by (unfold b2; rewrite skipn_length; lia).
      assert (Hb12 : b = b1 ++ b2) by (unfold b1, b2; symmetry; apply firstn_skipn).
      exists (older ++ prev), (cur ++ b1), b2. cbn [buf cursor total].
      rewrite Nat.mod_small by lia.
      split; [|split; [lia|split; [lia|split; [exact Hlen|]]]].
      * rewrite Hh, Hb12, <- !app_assoc. reflexivity.
      * left. split; [rewrite app_length; lia|].
        assert (Hstep1 : blit (cursor w) b1 (buf w) = cur ++ b1).
        { destruct Hb as [[Hp Hbw]|(-> & -> & Hbw)]; rewrite Hbw, <- Hc, blit_tail by (rewrite ?repeat_length; lia);
            rewrite skipn_all2 by (rewrite ?repeat_length; lia); apply app_nil_r. }
        rewrite Hstep1. unfold blit. cbn [firstn app Nat.add]. rewrite Hb2. reflexivity.
Qed.

(* what the window holds: the last min(total, N) samples (as a list up to rotation) *)
Definition contents (N : nat) (w : win) : list A :=
  if N <=? total w then skipn (cursor w) (buf w) ++ firstn (cursor w) (buf w) else firstn (cursor w) (buf w).

Lemma inv_contents N h w : 0 < N -> Inv N h w -> contents N w = lastn N h.
Proof.
  intros HN (older & prev & cur & Hh & Hc & HcN & Ht & Hb). unfold contents, lastn. rewrite Ht.
  destruct Hb as [[Hp Hbw]|(-> & -> & Hbw)].
  - assert (Hge : N <= length h) by (rewrite Hh, !app_length; lia). apply Nat.leb_le in Hge. rewrite Hge, Hbw, <- Hc.
    rewrite skipn_app, (skipn_all2 cur), Nat.sub_diag by lia. cbn [app skipn].
    rewrite firstn_app, firstn_all, Nat.sub_diag. cbn [firstn]. rewrite app_nil_r.
    rewrite Hh, !app_length. replace (length older + (length prev + length cur) - N) with (length older + length cur) by lia.
    rewrite skipn_app, (skipn_all2 older) by lia. cbn [app].
    replace (length older + length cur - length older) with (length cur) by lia.
    rewrite skipn_app. replace (length cur - length prev) with 0 by lia. reflexivity.
  - cbn [app] in Hh. subst h. assert (Hlt : (N <=? length cur) = false) by (apply Nat.leb_gt; lia).
    rewrite Hlt, Hbw, <- Hc, firstn_app, firstn_all, Nat.sub_diag. cbn [firstn]. rewrite app_nil_r.
    replace (length cur - N) with 0 by lia. reflexivity.
Qed.

Theorem window_holds_last_N N (bs : list (list A)) : 0 < N ->
  contents N (fold_left (upd N) bs (init N)) = lastn N (concat bs).
Proof.
  intros HN. apply inv_contents; [exact HN|].
  assert (H : forall bs h w, Inv N h w -> Inv N (h ++ concat bs) (fold_left (upd N) bs w)).
  { induction bs0 as [|b bs0 IH]; intros h w Hi; cbn [fold_left concat]; [rewrite app_nil_r; exact Hi|].
    rewrite app_assoc. apply IH, inv_upd; assumption. }
  exact (H bs [] (init N) (inv_init N HN)).
Qed.
End Win.
Print Assumptions window_holds_last_N.
