(* DESIGN PROBE (not framework code): C14 -- soundness of the commit-order check on structured
   effect skeletons: if the path-sensitive abstract run never meets a MayRaise in state Dirty,
   then every concrete execution that raises has performed no state write. *)
From Coq Require Import List Bool Arith Lia.
Import ListNotations.

Inductive sk :=
| Write                      (* a state write whose right-hand side cannot raise *)
| MayRaise                   (* a call that can raise (and writes nothing) *)
| Skip
| Seq (a b : sk)
| If (a b : sk)              (* either branch *)
| Loop (body : sk).          (* zero or more iterations *)

(* concrete big-step semantics: exec s raised writes *)
Inductive exec : sk -> bool -> nat -> Prop :=
| e_write : exec Write false 1
| e_ok : exec MayRaise false 0
| e_raise : exec MayRaise true 0
| e_skip : exec Skip false 0
| e_seq_raise a b n : exec a true n -> exec (Seq a b) true n
| e_seq a b r n m : exec a false n -> exec b r m -> exec (Seq a b) r (n + m)
| e_if_l a b r n : exec a r n -> exec (If a b) r n
| e_if_r a b r n : exec b r n -> exec (If a b) r n
| e_loop_0 body : exec (Loop body) false 0
| e_loop_raise body n : exec body true n -> exec (Loop body) true n
| e_loop_s body r n m : exec body false n -> exec (Loop body) r m -> exec (Loop body) r (n + m).

(* abstract run from entry state Clean (false) / Dirty (true): (no MayRaise met while Dirty, exit may be Dirty) *)
Fixpoint ex (s : sk) (d : bool) : bool :=
  match s with
  | Write => true
  | MayRaise | Skip => d
  | Seq a b => ex b (ex a d)
  | If a b => ex a d || ex b d
  | Loop body => ex body (ex body d) || ex body d || d
  end.
Fixpoint ok (s : sk) (d : bool) : bool :=
  match s with
  | Write | Skip => true
  | MayRaise => negb d
  | Seq a b => ok a d && ok b (ex a d)
  | If a b => ok a d && ok b d
  | Loop body => ok body d && ok body (ex body d)
  end.

Lemma ex_sticky s : ex s true = true.
Proof.
  induction s; cbn; try reflexivity.
  - rewrite IHs1. exact IHs2.
  - rewrite IHs1. reflexivity.
  - rewrite !IHs. reflexivity.
Qed.
Lemma ex_false_entry s d : ex s d = false -> d = false.
Proof. destruct d; [rewrite ex_sticky; discriminate|reflexivity]. Qed.
(* a loop body entered in the loop's exit state leaves it there, and is still ok *)
Lemma ex_idem s d : ex s (ex s (ex s d)) = ex s (ex s d).
Proof.
  destruct (ex s d) eqn:E1; [rewrite !ex_sticky; reflexivity|].
  pose proof (ex_false_entry _ _ E1); subst d. rewrite !E1. reflexivity.
Qed.

Theorem commit_order_sound : forall s r n, exec s r n -> forall d, ok s d = true ->
  (r = true -> d = false /\ n = 0) /\ (n <> 0 -> ex s d = true).
Proof.
  induction 1; intros d Hok; cbn [ok ex] in *.
  - split; [discriminate|reflexivity].
  - split; [discriminate|intros H; congruence].
  - split; [intros _; destruct d; [discriminate|auto]|intros H; congruence].
  - split; [discriminate|intros H; congruence].
  - (* raise inside a *)
    apply andb_true_iff in Hok as [Ha Hb]. destruct (IHexec d Ha) as [H1 H2]. split; [exact H1|].
    intros Hn. rewrite (H2 Hn). apply ex_sticky.
  - (* a finished, then b *)
    apply andb_true_iff in Hok as [Ha Hb].
    destruct (IHexec1 d Ha) as [_ A2]. destruct (IHexec2 (ex a d) Hb) as [B1 B2]. split.
    + intros Hr. destruct (B1 Hr) as [Hda ->]. pose proof (ex_false_entry _ _ Hda); subst d.
      split; [reflexivity|]. destruct (Nat.eq_dec n 0) as [->|Hn]; [reflexivity|]. rewrite (A2 Hn) in Hda. discriminate.
    + intros Hnm. destruct (Nat.eq_dec m 0) as [->|Hm]; [|exact (B2 Hm)].
      rewrite A2 by lia. apply ex_sticky.
  - apply andb_true_iff in Hok as [Ha Hb]. destruct (IHexec d Ha) as [H1 H2]. split; [exact H1|].
    intros Hn. rewrite (H2 Hn). reflexivity.
  - apply andb_true_iff in Hok as [Ha Hb]. destruct (IHexec d Hb) as [H1 H2]. split; [exact H1|].
    intros Hn. rewrite (H2 Hn). apply orb_true_r.
  - split; [discriminate|intros H; congruence].
  - apply andb_true_iff in Hok as [Ha Hb]. destruct (IHexec d Ha) as [H1 H2]. split; [exact H1|].
    intros Hn. rewrite (H2 Hn). rewrite orb_true_r. reflexivity.
  - (* one full iteration, then the rest of the loop from state (ex body d) *)
    apply andb_true_iff in Hok as [Ha Hb].
    destruct (IHexec1 d Ha) as [_ A2].
    assert (Hok' : ok (Loop body) (ex body d) = true).
    { cbn [ok]. rewrite Hb. cbn.
      destruct (ex body d) eqn:E1; [rewrite ex_sticky; exact Hb|].
      pose proof (ex_false_entry _ _ E1); subst d. rewrite E1. exact Hb. }
    destruct (IHexec2 (ex body d) Hok') as [B1 B2]. cbn [ex] in B2. split.
    + intros Hr. destruct (B1 Hr) as [Hd ->]. pose proof (ex_false_entry _ _ Hd); subst d.
      split; [reflexivity|]. destruct (Nat.eq_dec n 0) as [->|Hn]; [reflexivity|]. rewrite (A2 Hn) in Hd. discriminate.
    + intros Hnm. destruct (Nat.eq_dec n 0) as [->|Hn].
      * assert (Hm : m <> 0) by lia. specialize (B2 Hm). rewrite ex_idem in B2.
        destruct (ex body (ex body d)); destruct (ex body d); cbn in *; try reflexivity; discriminate.
      * rewrite (A2 Hn). rewrite orb_true_r. reflexivity.
Qed.

(* the form used per class: a raising update leaves the state exactly as it was *)
Corollary failed_update_writes_nothing s n : ok s false = true -> exec s true n -> n = 0.
Proof. intros Hok He. destruct (commit_order_sound s true n He false Hok) as [H _]. destruct (H eq_refl). assumption. Qed.

(* validate-then-mutate passes; mutate-then-validate and "call inside a writing loop" are rejected *)
Example good : ok (Seq MayRaise (Seq MayRaise (Seq Write Write))) false = true. Proof. reflexivity. Qed.
Example bad1 : ok (Seq Write MayRaise) false = false. Proof. reflexivity. Qed.
Example bad_loop : ok (Seq MayRaise (Loop (Seq MayRaise Write))) false = false. Proof. reflexivity. Qed.
Print Assumptions failed_update_writes_nothing.
