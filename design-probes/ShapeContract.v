(* DESIGN PROBE (not framework code): C18 workflow -- a translated input check (ShapeLang,
   as tr_shapes.py would emit it) is proved equivalent to a hand-written contract by one
   generic tactic, so that re-ordering conditions in the source keeps the proof and
   weakening one breaks it. *)
From Coq Require Import List Arith Bool Lia ZArith.
Import ListNotations.

(* argument environment: shapes of tensor arguments, integer parameters (None = absent) *)
Record env := { shape : nat -> list nat;       (* 0 = input, 1 = target, 2 = weight *)
                present : nat -> bool;          (* optional tensor argument given? *)
                ipar : nat -> option nat }.     (* 0 = num_classes, 1 = k, 2 = num_tasks *)
Definition ndim (e : env) a := length (shape e a).
Definition dim (e : env) a i := nth_error (shape e a) i.   (* None = IndexError in Python *)

Inductive term := Ndim (a : nat) | Dim (a i : nat) | Par (p : nat) | Lit (n : nat).
Inductive cond :=
| Eq (x y : term) | Ne (x y : term) | Gt (x y : term) | Ge (x y : term)
| ShapeNe (a b : nat) | IsNone (p : nat) | Absent (a : nat)
| And (c d : cond) | Or (c d : cond) | Not (c : cond).
Inductive stmt := IfRaise (c : cond) | IfElse (c : cond) (t e : list stmt).

(* three-valued: Some true/false, or None when Python itself would raise (IndexError, None compare) *)
Definition tval (e : env) (t : term) : option nat :=
  match t with Ndim a => Some (ndim e a) | Dim a i => dim e a i | Par p => ipar e p | Lit n => Some n end.
Definition cmp2 (f : nat -> nat -> bool) (x y : option nat) : option bool :=
  match x, y with Some a, Some b => Some (f a b) | _, _ => None end.
Fixpoint cval (e : env) (c : cond) : option bool :=
  match c with
  | Eq x y => cmp2 Nat.eqb (tval e x) (tval e y)
  | Ne x y => cmp2 (fun a b => negb (Nat.eqb a b)) (tval e x) (tval e y)
  | Gt x y => cmp2 (fun a b => Nat.ltb b a) (tval e x) (tval e y)
  | Ge x y => cmp2 (fun a b => Nat.leb b a) (tval e x) (tval e y)
  | ShapeNe a b => Some (negb (if list_eq_dec Nat.eq_dec (shape e a) (shape e b) then true else false))
  | IsNone p => Some (match ipar e p with None => true | Some _ => false end)
  | Absent a => Some (negb (present e a))
  | And c d => match cval e c with Some true => cval e d | r => r end          (* short-circuit *)
  | Or c d => match cval e c with Some false => cval e d | r => r end
  | Not c => option_map negb (cval e c)
  end.
(* accepts = no branch raises *)
Fixpoint run (e : env) (fuel : nat) (ss : list stmt) : bool :=
  match fuel with O => false | S fuel' =>
    match ss with
    | [] => true
    | IfRaise c :: r => match cval e c with Some false => run e fuel' r | _ => false end
    | IfElse c t f :: r => match cval e c with
                           | Some true => run e fuel' t && run e fuel' r
                           | Some false => run e fuel' f && run e fuel' r
                           | None => false end
    end
  end.

(* ---- as emitted for functional/classification/accuracy.py:_accuracy_update_input_check ---- *)
Definition chk_accuracy : list stmt :=
  [ IfRaise (Ne (Dim 0 0) (Dim 1 0));
    IfRaise (Ne (Ndim 1) (Lit 1));
    IfRaise (And (Gt (Par 1) (Lit 1)) (Ne (Ndim 0) (Lit 2)));
    IfRaise (And (Not (Eq (Ndim 0) (Lit 1)))
                 (Not (And (Eq (Ndim 0) (Lit 2)) (Or (IsNone 0) (Eq (Dim 0 1) (Par 0)))))) ].

(* contract written from the docstring: input (n,) or (n, C), target (n,), same n; k > 1 needs logits;
   C must equal num_classes when that is given *)
Definition contract_accuracy (e : env) : Prop :=
  exists n k, ipar e 1 = Some k /\ shape e 1 = [n] /\
    ((shape e 0 = [n] /\ k <= 1) \/
     (exists C, shape e 0 = [n; C] /\ (ipar e 0 = None \/ ipar e 0 = Some C))).

Ltac shape_cases e :=
  destruct (shape e 0) as [|i0 [|i1 [|i2 ?]]]; destruct (shape e 1) as [|t0 [|t1 ?]];
  destruct (ipar e 0) as [c|]; destruct (ipar e 1) as [k|].

Ltac atoms := repeat (match goal with
  | |- context [Nat.eqb ?a ?b] => destruct (Nat.eqb_spec a b)
  | |- context [Nat.ltb ?a ?b] => destruct (Nat.ltb_spec a b)
  | |- context [Nat.leb ?a ?b] => destruct (Nat.leb_spec a b) end; cbn -[Nat.ltb Nat.leb Nat.eqb]).

Theorem check_iff_contract_accuracy e : run e 10 chk_accuracy = true <-> contract_accuracy e.
Proof.
  unfold contract_accuracy, chk_accuracy. split.
  - unfold run, cval, tval, cmp2, ndim, dim.
    shape_cases e; cbn -[Nat.ltb Nat.leb Nat.eqb]; try discriminate; atoms; try discriminate; intros _; subst;
      try lia;
      (eexists _, _; split; [reflexivity|split; [reflexivity|]]);
      first [left; split; [reflexivity|lia] | right; eexists; split; [reflexivity|auto]].
  - intros (n & k & Hk & Ht & [[Hi Hk1]|(C & Hi & Hc)]); unfold run, cval, tval, cmp2, ndim, dim; rewrite Hk, Ht, Hi;
      cbn -[Nat.ltb Nat.leb Nat.eqb].
    + atoms; try reflexivity; lia.
    + destruct Hc as [->| ->]; atoms; try reflexivity; try lia; congruence.
Qed.
Print Assumptions check_iff_contract_accuracy.
