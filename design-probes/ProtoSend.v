(* DESIGN PROBE (not framework code): per-rank responses, and the uneven-tensor gather of
   synclib._send_uneven_tensors (all_gather of shapes -> equal-size fast path | pad,
   all_gather, trim) is lossless for every world size.  Tensors are abstract here; the
   pad/slice round-trip is a hypothesis that the real development proves on the nd-array
   model (pad_slice_roundtrip). *)
From Coq Require Import List Bool Arith Lia.
Import ListNotations.

Section Send.
Variable tensor : Type.
Variable shp : tensor -> list nat.
Variable shp_eqb : list nat -> list nat -> bool.
Hypothesis shp_eqb_spec : forall a b, shp_eqb a b = true <-> a = b.
Variable pad slice : list nat -> tensor -> tensor.
Variable of_shape : list nat -> tensor.          (* torch.tensor(t.shape) *)
Variable to_shape : tensor -> list nat.
Hypothesis to_of : forall s, to_shape (of_shape s) = s.
Hypothesis shp_of : forall s, shp (of_shape s) = [length s].
Variable le_shape : list nat -> list nat -> Prop.
Variable maxshape : list (list nat) -> list nat.
Hypothesis max_ge : forall ss s, In s ss -> (forall s', In s' ss -> length s' = length s) -> le_shape s (maxshape ss).
Hypothesis shp_pad : forall m t, le_shape (shp t) m -> shp (pad m t) = m.
Hypothesis roundtrip : forall m t, le_shape (shp t) m -> slice (shp t) (pad m t) = t.

(* ---- interaction trees with one response per rank ---- *)
Inductive prog (A : Type) := Ret (a : A) | AllGather (t : tensor) (k : list tensor -> prog A).
Arguments Ret {A}. Arguments AllGather {A}.

Fixpoint all_ret {A} (ps : list (prog A)) : option (list A) :=
  match ps with [] => Some [] | Ret a :: r => option_map (cons a) (all_ret r) | AllGather _ _ :: _ => None end.
Fixpoint all_op {A} (ps : list (prog A)) : option (list (tensor * (list tensor -> prog A))) :=
  match ps with [] => Some [] | AllGather c k :: r => option_map (cons (c, k)) (all_op r) | Ret _ :: _ => None end.
(* torch.distributed.all_gather: every rank must contribute the same shape *)
Definition respond (cs : list tensor) : option (list tensor) :=
  match cs with
  | [] => Some []
  | c :: _ => if forallb (fun c' => shp_eqb (shp c') (shp c)) cs then Some cs else None
  end.

Fixpoint run {A} (p0 : prog A) (rest : list (prog A)) {struct p0} : option (list A) :=
  match p0 with
  | Ret a => option_map (cons a) (all_ret rest)
  | AllGather c k =>
      match all_op rest with
      | Some cks =>
          match respond (c :: map fst cks) with
          | Some r => run (k r) (map (fun ck => snd ck r) cks)
          | None => None
          end
      | None => None
      end
  end.
Definition run_all {A} (ps : list (prog A)) : option (list A) :=
  match ps with [] => Some [] | p :: r => run p r end.

Lemma all_op_map {A X} (c : X -> tensor) (k : X -> list tensor -> prog A) (xs : list X) :
  all_op (map (fun x => AllGather (c x) (k x)) xs) = Some (map (fun x => (c x, k x)) xs).
Proof. induction xs as [|x xs IH]; cbn; [reflexivity|]. rewrite IH. reflexivity. Qed.
Lemma all_ret_map {A X} (f : X -> A) (xs : list X) : all_ret (map (fun x => Ret (f x)) xs) = Some (map f xs).
Proof. induction xs as [|x xs IH]; cbn; [reflexivity|]. rewrite IH. reflexivity. Qed.

Lemma run_all_op {A X} (c : X -> tensor) (k : X -> list tensor -> prog A) (xs : list X) r :
  xs <> [] -> respond (map c xs) = Some r ->
  run_all (map (fun x => AllGather (c x) (k x)) xs) = run_all (map (fun x => k x r) xs).
Proof.
  destruct xs as [|x xs]; [congruence|]. intros _ Hr. cbn [map run_all run].
  rewrite all_op_map, map_map. cbn [map] in Hr.
  rewrite (map_ext (fun x0 => fst (c x0, k x0)) c) by reflexivity. rewrite Hr, map_map. reflexivity.
Qed.
Lemma run_all_ret {A X} (f : X -> A) (xs : list X) : run_all (map (fun x => Ret (f x)) xs) = Some (map f xs).
Proof. destruct xs as [|x xs]; [reflexivity|]. cbn [map run_all run]. rewrite all_ret_map. reflexivity. Qed.

Lemma respond_same cs s : cs <> [] -> (forall c, In c cs -> shp c = s) -> respond cs = Some cs.
Proof.
  destruct cs as [|c cs]; [congruence|]. intros _ H. unfold respond.
  replace (forallb _ (c :: cs)) with true; [reflexivity|]. symmetry. apply forallb_forall.
  intros c' Hc'. apply shp_eqb_spec. rewrite (H c' Hc'), (H c (or_introl eq_refl)). reflexivity.
Qed.

(* ---- synclib._send_uneven_tensors with rank=None ---- *)
Fixpoint all_eq (ss : list (list nat)) : bool :=
  match ss with [] => true | s :: r => forallb (shp_eqb s) r && all_eq r end.
Fixpoint map2 {X Y Z} (f : X -> Y -> Z) (xs : list X) (ys : list Y) : list Z :=
  match xs, ys with x :: xs', y :: ys' => f x y :: map2 f xs' ys' | _, _ => [] end.

Definition send_uneven (t : tensor) : prog (list tensor) :=
  AllGather (of_shape (shp t)) (fun sizes_t =>
    let sizes := map to_shape sizes_t in
    if all_eq sizes then AllGather t (fun ts => Ret ts)
    else AllGather (pad (maxshape sizes) t) (fun ps => Ret (map2 slice sizes ps))).

Lemma all_eq_true ss : all_eq ss = true -> forall a b, In a ss -> In b ss -> a = b.
Proof.
  induction ss as [|s r IH]; intros H a b Ha Hb; [destruct Ha|].
  cbn in H. apply andb_true_iff in H as [H1 H2]. rewrite forallb_forall in H1.
  destruct Ha as [<-|Ha], Hb as [<-|Hb]; auto.
  - apply shp_eqb_spec, H1, Hb.
  - symmetry. apply shp_eqb_spec, H1, Ha.
Qed.

Lemma map2_slice_pad m ts : (forall t, In t ts -> le_shape (shp t) m) ->
  map2 slice (map shp ts) (map (pad m) ts) = ts.
Proof.
  induction ts as [|t ts IH]; intros H; [reflexivity|]. cbn [map map2].
  rewrite roundtrip by (apply H; left; reflexivity). f_equal. apply IH. intros t' Ht'. apply H; right; exact Ht'.
Qed.

Theorem send_uneven_lossless (ts : list tensor) (d : nat) :
  ts <> [] -> (forall t, In t ts -> length (shp t) = d) ->
  run_all (map send_uneven ts) = Some (map (fun _ => ts) ts).
Proof.
  intros Hne Hd. unfold send_uneven.
  rewrite (run_all_op (fun t => of_shape (shp t)) _ ts (map (fun t => of_shape (shp t)) ts) Hne).
  2:{ apply (respond_same _ [d]); [destruct ts; [congruence|discriminate]|].
      intros c Hc. apply in_map_iff in Hc as (t & <- & Ht). rewrite shp_of, (Hd t Ht). reflexivity. }
  cbv beta zeta. rewrite map_map.
  rewrite (map_ext (fun x => to_shape (of_shape (shp x))) shp) by (intros; apply to_of).
  destruct (all_eq (map shp ts)) eqn:Heq.
  - (* equal sizes: simple gather *)
    rewrite (run_all_op (fun t => t) (fun _ tsr => Ret tsr) ts ts Hne).
    2:{ rewrite map_id. destruct ts as [|t0 ts']; [congruence|].
        apply (respond_same _ (shp t0)); [discriminate|]. intros c Hc.
        apply (all_eq_true _ Heq); apply in_map; [exact Hc|left; reflexivity]. }
    apply (run_all_ret (fun _ => ts)).
  - (* pad to the maximum, gather, trim *)
    set (m := maxshape (map shp ts)).
    assert (Hle : forall t, In t ts -> le_shape (shp t) m).
    { intros t Ht. apply max_ge; [apply in_map, Ht|].
      intros s' Hs'. apply in_map_iff in Hs' as (t' & <- & Ht'). rewrite (Hd t Ht), (Hd t' Ht'). reflexivity. }
    rewrite (run_all_op (fun t => pad m t) (fun _ ps => Ret (map2 slice (map shp ts) ps)) ts (map (pad m) ts) Hne).
    2:{ apply (respond_same _ m); [destruct ts; [congruence|discriminate]|].
        intros c Hc. apply in_map_iff in Hc as (t & <- & Ht). apply shp_pad, Hle, Ht. }
    rewrite (run_all_ret (fun _ => map2 slice (map shp ts) (map (pad m) ts))).
    rewrite map2_slice_pad by exact Hle. reflexivity.
Qed.
End Send.
Print Assumptions send_uneven_lossless.
