(* DESIGN PROBE (not framework code): C07 over Qc with lists --
   (a) R2Score's sufficient-statistics form  TSS = sum y^2 - (sum y)^2 / n  equals the definition
       sum (y - mean)^2, hence 1 - RSS/TSS is the textbook R^2;
   (b) Covariance's Chan/Welford combine equals the two-pass definition, per matrix entry. *)
From Coq Require Import List QArith Qcanon.
Import ListNotations.
Open Scope Qc_scope.

Definition sumQ (l : list Qc) : Qc := fold_right Qcplus 0 l.
Definition lenQ (l : list Qc) : Qc := fold_right (fun _ acc => acc + 1) 0 l.
Lemma sumQ_cons x l : sumQ (x :: l) = x + sumQ l. Proof. reflexivity. Qed.
Lemma lenQ_cons x l : lenQ (x :: l) = lenQ l + 1. Proof. reflexivity. Qed.

(* sum (y - m)^2 = sum y^2 - 2 m sum y + n m^2, for any m *)
Lemma centered_sq (ys : list Qc) (m : Qc) :
  sumQ (map (fun y => (y - m) * (y - m)) ys)
  = sumQ (map (fun y => y * y) ys) - (1 + 1) * m * sumQ ys + lenQ ys * m * m.
Proof.
  induction ys as [|y ys IH]; [cbn [sumQ lenQ fold_right map app]; ring|].
  cbn [map]. rewrite !sumQ_cons, lenQ_cons, IH. ring.
Qed.

Theorem r2_tss_spec (ys : list Qc) : lenQ ys <> 0 ->
  sumQ (map (fun y => y * y) ys) - sumQ ys * sumQ ys / lenQ ys
  = sumQ (map (fun y => (y - sumQ ys / lenQ ys) * (y - sumQ ys / lenQ ys)) ys).
Proof. intros Hn. rewrite centered_sq. field. exact Hn. Qed.

(* ---- covariance, one matrix entry (i, j): xs = column i, zs = column j ---- *)
Fixpoint dot (xs zs : list Qc) : Qc :=
  match xs, zs with x :: xs', z :: zs' => x * z + dot xs' zs' | _, _ => 0 end.
(* scatter entry around the means: sum (x - mx)(z - mz) *)
Fixpoint scatter (mx mz : Qc) (xs zs : list Qc) : Qc :=
  match xs, zs with x :: xs', z :: zs' => (x - mx) * (z - mz) + scatter mx mz xs' zs' | _, _ => 0 end.

Lemma scatter_expand : forall xs zs mx mz, length xs = length zs ->
  scatter mx mz xs zs = dot xs zs - mz * sumQ xs - mx * sumQ zs + lenQ xs * mx * mz.
Proof.
  induction xs as [|x xs IH]; intros [|z zs] mx mz Hl; try discriminate; [cbn [scatter dot sumQ lenQ fold_right map app]; ring|].
  cbn [scatter dot]. rewrite !sumQ_cons, lenQ_cons, IH by (injection Hl; auto). ring.
Qed.

(* what Covariance.update stores for one batch: ss = scatter around the batch means *)
Definition ss_batch (xs zs : list Qc) : Qc := scatter (sumQ xs / lenQ xs) (sumQ zs / lenQ zs) xs zs.

Lemma lenQ_app a b : lenQ (a ++ b) = lenQ a + lenQ b.
Proof. induction a as [|x a IH]; [cbn [app]; change (lenQ []) with 0; ring|]. cbn [app]. rewrite !lenQ_cons, IH. ring. Qed.
Lemma sumQ_app a b : sumQ (a ++ b) = sumQ a + sumQ b.
Proof. induction a as [|x a IH]; [cbn [app]; change (sumQ []) with 0; ring|]. cbn [app]. rewrite !sumQ_cons, IH. ring. Qed.
Lemma dot_app : forall a1 b1 a2 b2, length a1 = length b1 -> dot (a1 ++ a2) (b1 ++ b2) = dot a1 b1 + dot a2 b2.
Proof.
  induction a1 as [|x a1 IH]; intros [|z b1] a2 b2 Hl; try discriminate; [cbn [app]; change (dot [] []) with 0; ring|].
  cbn [app dot]. rewrite IH by (injection Hl; auto). ring.
Qed.
Lemma lenQ_same : forall (a b : list Qc), length a = length b -> lenQ a = lenQ b.
Proof. induction a as [|x a IH]; intros [|z b] H; try discriminate; [reflexivity|]. rewrite !lenQ_cons, (IH b) by (injection H; auto). reflexivity. Qed.

(* Chan's combine for the entry, exactly as Covariance._update computes it:
     delta_x = sum_a/n_a - sum_b/n_b ; ss' = ss_a + ss_b + delta_x * delta_z * n_a n_b / (n_a + n_b) *)
Theorem chan_combine_spec (xa za xb zb : list Qc) :
  length xa = length za -> length xb = length zb ->
  lenQ xa <> 0 -> lenQ xb <> 0 -> lenQ xa + lenQ xb <> 0 ->
  ss_batch xa za + ss_batch xb zb
  + (sumQ xa / lenQ xa - sumQ xb / lenQ xb) * (sumQ za / lenQ za - sumQ zb / lenQ zb)
    * (lenQ xb * lenQ xa) / (lenQ xa + lenQ xb)
  = ss_batch (xa ++ xb) (za ++ zb).
Proof.
  intros Ha Hb Hna Hnb Hn. unfold ss_batch.
  assert (Hab : length (xa ++ xb) = length (za ++ zb)) by (rewrite !app_length; congruence).
  rewrite !scatter_expand by assumption.
  rewrite !lenQ_app, !sumQ_app, dot_app by assumption.
  rewrite <- (lenQ_same xa za Ha), <- (lenQ_same xb zb Hb). field. repeat split; assumption.
Qed.
Print Assumptions r2_tss_spec.
Print Assumptions chan_combine_spec.
