(* DESIGN PROBE (not framework code): the lock-step runner for per-rank interaction trees
   and its compositional ("bind") lemma, which every C02/C15 protocol proof will chain. *)
From Coq Require Import List Bool Lia.
Import ListNotations.

Section Proto.
Variables (call resp : Type).
Variable respond : list call -> option resp.     (* None = ranks disagree -> mismatch *)

Inductive prog (A : Type) := Ret (a : A) | Op (c : call) (k : resp -> prog A).
Arguments Ret {A}. Arguments Op {A}.

Fixpoint bind {A B} (p : prog A) (f : A -> prog B) : prog B :=
  match p with Ret a => f a | Op c k => Op c (fun r => bind (k r) f) end.

Fixpoint all_ret {A} (ps : list (prog A)) : option (list A) :=
  match ps with
  | [] => Some []
  | Ret a :: r => option_map (cons a) (all_ret r)
  | Op _ _ :: _ => None
  end.
Fixpoint all_op {A} (ps : list (prog A)) : option (list (call * (resp -> prog A))) :=
  match ps with
  | [] => Some []
  | Op c k :: r => option_map (cons (c, k)) (all_op r)
  | Ret _ :: _ => None
  end.

Fixpoint run {A} (p0 : prog A) (rest : list (prog A)) {struct p0} : option (list A) :=
  match p0 with
  | Ret a => option_map (cons a) (all_ret rest)
  | Op c k =>
      match all_op rest with
      | Some cks =>
          match respond (c :: map fst cks) with
          | Some r => run (k r) (map (fun ck => snd ck r) cks)
          | None => None
          end
      | None => None
      end
  end.

(* rank i runs [bind p_i f_i]; pair them up *)
Definition pf A B := (prog A * (A -> prog B))%type.
Fixpoint apply2 {A B} (fs : list (A -> prog B)) (xs : list A) : list (prog B) :=
  match fs, xs with f :: fs', x :: xs' => f x :: apply2 fs' xs' | _, _ => [] end.

Lemma all_ret_bind {A B} : forall (ps : list (pf A B)) (l : list A),
  all_ret (map fst ps) = Some l ->
  map (fun q => bind (fst q) (snd q)) ps = apply2 (map snd ps) l.
Proof.
  induction ps as [|[p f] ps IH]; intros l H; cbn in *.
  - inversion H; reflexivity.
  - destruct p as [a|c k]; [|discriminate]. cbn in H.
    destruct (all_ret (map fst ps)) as [l'|] eqn:E; [|discriminate]. inversion H; subst.
    cbn. f_equal. apply IH. reflexivity.
Qed.

Lemma all_op_bind {A B} : forall (ps : list (pf A B)) cks,
  all_op (map fst ps) = Some cks ->
  all_op (map (fun q => bind (fst q) (snd q)) ps)
  = Some (map (fun ckf => (fst (fst ckf), fun r => bind (snd (fst ckf) r) (snd ckf))) (combine cks (map snd ps)))
  /\ length cks = length ps.
Proof.
  induction ps as [|[p f] ps IH]; intros cks H; cbn in *.
  - inversion H; subst. split; reflexivity.
  - destruct p as [a|c k]; [discriminate|]. cbn in H.
    destruct (all_op (map fst ps)) as [cks'|] eqn:E; [|discriminate]. inversion H; subst.
    destruct (IH cks' eq_refl) as [IH1 IH2]. cbn. rewrite IH1. cbn. split; [reflexivity|lia].
Qed.

Theorem run_bind {A B} : forall (p0 : prog A) (f0 : A -> prog B) (ps : list (pf A B)) a0 l,
  run p0 (map fst ps) = Some (a0 :: l) ->
  run (bind p0 f0) (map (fun q => bind (fst q) (snd q)) ps) = run (f0 a0) (apply2 (map snd ps) l).
Proof.
  induction p0 as [a|c k IH]; intros f0 ps a0 l H.
  - cbn in H. destruct (all_ret (map fst ps)) as [l'|] eqn:E; [|discriminate]. inversion H; subst.
    cbn [bind]. rewrite (all_ret_bind ps l E). reflexivity.
  - cbn [run] in H. destruct (all_op (map fst ps)) as [cks|] eqn:E; [|discriminate].
    destruct (all_op_bind ps cks E) as [E' Hlen].
    cbn [bind run]. rewrite E'.
    rewrite map_map. cbn [fst].
    assert (Hm : map (fun x : call * (resp -> prog A) * (A -> prog B) => fst (fst x)) (combine cks (map snd ps)) = map fst cks).
    { clear -Hlen. revert ps Hlen. induction cks as [|ck cks IHc]; intros [|q ps] Hlen; cbn in *; try lia; [reflexivity|].
      f_equal. apply IHc. lia. }
    rewrite Hm. destruct (respond (c :: map fst cks)) as [r|]; [|discriminate].
    (* continue with the continuations applied to r *)
    set (ps' := map (fun ckf : call * (resp -> prog A) * (A -> prog B) => (snd (fst ckf) r, snd ckf)) (combine cks (map snd ps))).
    assert (H1 : map (fun ck => snd ck r) cks = map fst ps').
    { unfold ps'. rewrite map_map. cbn [fst]. clear -Hlen. revert ps Hlen.
      induction cks as [|ck cks IHc]; intros [|q ps] Hlen; cbn in *; try lia; [reflexivity|]. f_equal. apply IHc. lia. }
    assert (H2 : map snd ps' = map snd ps).
    { unfold ps'. rewrite map_map. cbn [snd]. clear -Hlen. revert ps Hlen.
      induction cks as [|ck cks IHc]; intros [|q ps] Hlen; cbn in *; try lia; [reflexivity|]. f_equal. apply IHc. lia. }
    rewrite H1 in H. specialize (IH r f0 ps' a0 l H). rewrite H2 in IH. rewrite <- IH.
    f_equal. unfold ps'. rewrite !map_map. cbn [fst snd]. reflexivity.
Qed.
End Proto.
Print Assumptions run_bind.
