#!/usr/bin/env python3
"""DESIGN PROBE (not framework code): feasibility of the in-process *checking transport*:
torch.distributed is monkey-patched from outside the repo with a thread/barrier
implementation that (a) records every collective per rank and (b) raises CollectiveMismatch on
all ranks instead of hanging when ranks disagree.  Runs real toolkit/synclib code."""
import threading, copy, logging, warnings, sys
import torch, torch.distributed as dist
logging.disable(logging.CRITICAL); warnings.simplefilter('ignore')

class CollectiveMismatch(RuntimeError): pass
class SimGroup:
    def __init__(self, ranks): self.ranks = list(ranks)
class World:
    def __init__(self, n):
        self.n = n; self.tls = threading.local(); self.lock = threading.Lock()
        self.WORLD = SimGroup(range(n)); self.rounds = {}   # group id -> rendezvous state
        self.trace = {r: [] for r in range(n)}
    def rank(self): return self.tls.rank
    def _rendezvous(self, group, desc, payload):
        """all members of [group] exchange (desc, payload); mismatch in desc => error everywhere"""
        g = group or self.WORLD; me = self.rank()
        self.trace[me].append(desc)
        key = tuple(g.ranks)
        with self.lock:
            st = self.rounds.setdefault(key, {'barrier': threading.Barrier(len(g.ranks)), 'slots': {}})
        st['slots'][me] = (desc, payload)
        try: st['barrier'].wait(timeout=10)
        except threading.BrokenBarrierError: raise CollectiveMismatch(f'rank {me}: peers never arrived at {desc}')
        slots = dict(st['slots'])
        st['barrier'].wait(timeout=10)           # everyone has read
        if me == g.ranks[0]: st['slots'].clear()
        st['barrier'].wait(timeout=10)
        descs = {slots[r][0] for r in g.ranks}
        if len(descs) != 1: raise CollectiveMismatch(f'rank {me}: {sorted(map(str, descs))}')
        return [slots[r][1] for r in g.ranks]
W = None
def install(world):
    global W; W = world
    dist.is_available = lambda: True
    dist.is_initialized = lambda: True
    dist.get_world_size = lambda group=None: len((group or W.WORLD).ranks)
    dist.get_rank = lambda group=None: (group or W.WORLD).ranks.index(W.rank()) if W.rank() in (group or W.WORLD).ranks else -1
    dist.get_backend = lambda group=None: 'gloo'
    dist.group.WORLD = W.WORLD
    def all_gather(out_list, tensor, group=None, async_op=False):
        res = W._rendezvous(group, ('all_gather', tuple(tensor.shape), str(tensor.dtype)), tensor.detach().clone())
        for i, t in enumerate(res): out_list[i] = t.clone()
    def gather(tensor, gather_list=None, dst=0, group=None, async_op=False, group_dst=None):
        res = W._rendezvous(group, ('gather', dst, tuple(tensor.shape), str(tensor.dtype)), tensor.detach().clone())
        if W.rank() == dst:                       # dst is a GLOBAL rank, as in torch
            for i, t in enumerate(res): gather_list[i] = t.clone()
    def all_gather_object(obj_list, obj, group=None):
        res = W._rendezvous(group, ('all_gather_object',), copy.deepcopy(obj))
        for i, o in enumerate(res): obj_list[i] = o
    def gather_object(obj, object_gather_list=None, dst=0, group=None, group_dst=None):
        res = W._rendezvous(group, ('gather_object', dst), copy.deepcopy(obj))
        if W.rank() == dst:
            for i, o in enumerate(res): object_gather_list[i] = o
    def broadcast_object_list(object_list, src=0, group=None, device=None, group_src=None):
        g = group or W.WORLD
        res = W._rendezvous(group, ('broadcast_object_list', src, len(object_list)), copy.deepcopy(object_list))
        if src not in g.ranks: raise ValueError(f'global rank {src} is not part of the group')
        val = res[g.ranks.index(src)]             # src is a GLOBAL rank, as in torch
        for i in range(len(object_list)): object_list[i] = val[i]
    dist.all_gather, dist.gather, dist.all_gather_object = all_gather, gather, all_gather_object
    dist.gather_object, dist.broadcast_object_list = gather_object, broadcast_object_list
def run_ranks(n, fn):
    world = World(n); install(world); out = {}
    def target(r):
        world.tls.rank = r
        try: out[r] = ('ok', fn(r, world))
        except Exception as e: out[r] = ('exc', type(e).__name__, str(e)[:100])
    ts = [threading.Thread(target=target, args=(r,)) for r in range(n)]
    [t.start() for t in ts]; [t.join(30) for t in ts]
    return out, world.trace

if __name__ == '__main__':
    from torcheval.metrics import Cat, Mean, MeanSquaredError
    from torcheval.metrics.toolkit import sync_and_compute
    def scen_cat(r, w):
        m = Cat()
        if r != 0: m.update(torch.arange(r + 1).float())
        return sync_and_compute(m).tolist()
    out, trace = run_ranks(3, scen_cat)
    print('cat_world', out); print(' trace rank0:', trace[0])
    def scen_sub(r, w):
        g = SimGroup([1, 2])
        if r == 0: return None
        m = Cat()
        if r == 2: m.update(torch.tensor([5., 6.]))
        return sync_and_compute(m, g).tolist()
    print('cat_subgroup', run_ranks(3, scen_sub)[0])
    def scen_mse(r, w):
        m = MeanSquaredError(multioutput='raw_values')
        if r != 0: m.update(torch.tensor([[1., 2.], [3., 4.]]), torch.zeros(2, 2))
        return sync_and_compute(m).tolist()
    print('mse_ndim_mismatch', run_ranks(2, scen_mse)[0])
