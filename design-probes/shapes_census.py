#!/usr/bin/env python3
"""DESIGN PROBE (not framework code): dry run of the fail-closed ShapeLang translation over
every *check* function of the pinned tree: prints the ShapeLang term or the construct that
would abort the translation."""
import ast, glob, sys
ROOT='/repo/torcheval/metrics'
files = sorted(glob.glob(ROOT+'/functional/**/*.py', recursive=True)) + [ROOT+'/window/mean_squared_error.py']
class Unsupported(Exception): pass
VALUE_ATOMS = []
def term(e, env):
    """integer/shape-valued terms"""
    if isinstance(e, ast.Constant) and isinstance(e.value, (int, float)) and not isinstance(e.value, bool): return f'(Lit {e.value})'
    if isinstance(e, ast.Name):
        if e.id in env: return env[e.id]
        return f'(Par {e.id})'
    if isinstance(e, ast.Attribute):
        if e.attr == 'ndim': return f'(Ndim {arg(e.value, env)})'
        if e.attr == 'shape': return f'(Shape {arg(e.value, env)})'
    if isinstance(e, ast.Call):
        f = e.func
        if isinstance(f, ast.Attribute) and f.attr in ('dim',) and not e.args: return f'(Ndim {arg(f.value, env)})'
        if isinstance(f, ast.Attribute) and f.attr == 'size':
            if not e.args: return f'(Shape {arg(f.value, env)})'
            return f'(Dim {arg(f.value, env)} {idx(e.args[0])})'
        if isinstance(f, ast.Attribute) and f.attr in ('numel','nelement') and not e.args: return f'(NumEl {arg(f.value, env)})'
        if isinstance(f, ast.Name) and f.id == 'len' and len(e.args) == 1:
            a = e.args[0]
            if isinstance(a, ast.Attribute) and a.attr == 'shape': return f'(Ndim {arg(a.value, env)})'
            return f'(Len {arg(a, env)})'
        if isinstance(f, ast.Name) and f.id == 'type' and len(e.args) == 1: return f'(TypeOf {arg(e.args[0], env)})'
    if isinstance(e, ast.Subscript):
        v = e.value
        if isinstance(v, ast.Attribute) and v.attr == 'shape': return f'(Dim {arg(v.value, env)} {idx(e.slice)})'
        if isinstance(v, ast.Call) and isinstance(v.func, ast.Attribute) and v.func.attr == 'size' and not v.args: return f'(Dim {arg(v.func.value, env)} {idx(e.slice)})'
    if isinstance(e, ast.Tuple): return '(Tuple ' + ' '.join(term(x, env) for x in e.elts) + ')'
    raise Unsupported(ast.unparse(e))
def idx(e):
    if isinstance(e, ast.Constant) and isinstance(e.value, int): return str(e.value)
    if isinstance(e, ast.UnaryOp) and isinstance(e.op, ast.USub) and isinstance(e.operand, ast.Constant): return f'-{e.operand.value}'
    raise Unsupported('index ' + ast.unparse(e))
def arg(e, env):
    if isinstance(e, ast.Name): return env.get('@' + e.id, e.id)
    raise Unsupported('arg ' + ast.unparse(e))
CMP = {ast.Eq:'Eq', ast.NotEq:'Ne', ast.Lt:'Lt', ast.LtE:'Le', ast.Gt:'Gt', ast.GtE:'Ge'}
def is_value_atom(e):
    src = ast.unparse(e)
    return any(k in src for k in ('.any()', 'torch.max', 'torch.min', '.max()', '.min()', 'torch.all', 'torch.sum', 'torch.inf', '.dtype', '.device', 'threshold[', 'input_max', 'input_min', 'torch.is_tensor'))
def cond(e, env):
    if is_value_atom(e):
        VALUE_ATOMS.append(ast.unparse(e)); return f'(Atom "{ast.unparse(e)}")'
    if isinstance(e, ast.BoolOp):
        op = 'And' if isinstance(e.op, ast.And) else 'Or'
        return f'({op} ' + ' '.join(cond(v, env) for v in e.values) + ')'
    if isinstance(e, ast.UnaryOp) and isinstance(e.op, ast.Not): return f'(Not {cond(e.operand, env)})'
    if isinstance(e, ast.Compare):
        if len(e.ops) == 2:  # chained 0 <= x <= 1
            return f'(And {cond(ast.Compare(e.left,[e.ops[0]],[e.comparators[0]]), env)} {cond(ast.Compare(e.comparators[0],[e.ops[1]],[e.comparators[1]]), env)})'
        op, r = e.ops[0], e.comparators[0]
        if isinstance(op, (ast.Is, ast.IsNot)) and isinstance(r, ast.Constant) and r.value is None:
            t = f'(IsNone {arg(e.left, env)})'; return t if isinstance(op, ast.Is) else f'(Not {t})'
        if isinstance(op, (ast.Is, ast.IsNot)) and isinstance(e.left, ast.Call):  # type(x) is not float
            t = f'(TypeIs {arg(e.left.args[0], env)} {ast.unparse(r)})'; return t if isinstance(op, ast.Is) else f'(Not {t})'
        if isinstance(op, (ast.In, ast.NotIn)):
            opts = env.get('#' + r.id) if isinstance(r, ast.Name) else ast.unparse(r)
            if opts is None: raise Unsupported('options ' + ast.unparse(r))
            t = f'(OptIn {term(e.left, env)} {opts})'; return t if isinstance(op, ast.In) else f'(Not {t})'
        if type(op) in CMP:
            l = e.left
            if isinstance(r, ast.Constant) and isinstance(r.value, str): return f'({CMP[type(op)]} {term(l, env)} (Str {r.value}))'
            if isinstance(r, ast.Name) and r.id in ('int','list','float','bool'): return f'({CMP[type(op)]} {term(l, env)} (Ty {r.id}))'
            return f'({CMP[type(op)]} {term(l, env)} {term(r, env)})'
    if isinstance(e, ast.Call) and isinstance(e.func, ast.Name) and e.func.id == 'isinstance':
        return f'(IsInstance {arg(e.args[0], env)} {ast.unparse(e.args[1])})'
    if isinstance(e, ast.Name): return f'(BoolPar {e.id})'
    raise Unsupported(ast.unparse(e))
def body(stmts, env, funcs, depth=0):
    out = []
    for s in stmts:
        if isinstance(s, ast.Expr) and isinstance(s.value, ast.Constant): continue
        if isinstance(s, ast.If):
            c = cond(s.test, env)
            thn = body(s.body, dict(env), funcs, depth); els = body(s.orelse, dict(env), funcs, depth)
            # shape rebinding x = x.unsqueeze(0) inside if
            for b in s.body:
                if isinstance(b, ast.Assign) and isinstance(b.value, ast.Call) and isinstance(b.value.func, ast.Attribute) and b.value.func.attr == 'unsqueeze':
                    env['@' + b.targets[0].id] = f'(Unsq0If {c} {b.targets[0].id})'
            out.append(f'(If {c} {thn} {els})'); continue
        if isinstance(s, ast.Raise): out.append('Raise'); continue
        if isinstance(s, ast.Assign) and len(s.targets) == 1 and isinstance(s.targets[0], ast.Name):
            n = s.targets[0].id; v = s.value
            if isinstance(v, (ast.Tuple, ast.List)) and all(isinstance(x, ast.Constant) for x in v.elts): env['#' + n] = ast.unparse(v); continue
            if isinstance(v, ast.Call) and isinstance(v.func, ast.Attribute) and v.func.attr == 'unsqueeze': continue
            if is_value_atom(v) or (isinstance(v, ast.Call) and isinstance(v.func, ast.Name) and v.func.id == 'deepcopy') or (isinstance(v, ast.Subscript)) or isinstance(v, ast.Name) or (isinstance(v, ast.Call) and isinstance(v.func, ast.Attribute) and v.func.attr == 'ne'):
                env[n] = f'(Opaque {n})'; continue
            try: env[n] = term(v, env); continue
            except Unsupported: pass
            raise Unsupported('assign ' + ast.unparse(s))
        if isinstance(s, ast.Expr) and isinstance(s.value, ast.Call) and isinstance(s.value.func, ast.Name) and s.value.func.id in funcs and depth < 3:
            callee = funcs[s.value.func.id]
            params = [a.arg for a in callee.args.args]
            env2 = {}
            for p_, a_ in zip(params, s.value.args):
                if isinstance(a_, ast.Name): env2['@' + p_] = env.get('@' + a_.id, a_.id)
            out.append(f'(Call {s.value.func.id} {body(callee.body, env2, funcs, depth+1)})'); continue
        raise Unsupported(type(s).__name__ + ': ' + ast.unparse(s)[:80])
    return '[' + ' '.join(out) + ']'
funcs = {}
trees = {}
for f in files:
    trees[f] = ast.parse(open(f).read())
    for n in ast.walk(trees[f]):
        if isinstance(n, ast.FunctionDef) and 'check' in n.name: funcs[n.name] = n
ok = bad = 0
for name, fn in sorted(funcs.items()):
    try:
        t = body(fn.body, {}, funcs); ok += 1
        if '-v' in sys.argv: print(name, '=>', t)
    except Unsupported as e:
        bad += 1; print('UNSUPPORTED', name, ':', e)
print(f'translated {ok}, unsupported {bad}, distinct value atoms {len(set(VALUE_ATOMS))}')
for a in sorted(set(VALUE_ATOMS)): print('   atom:', a)
