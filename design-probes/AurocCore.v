(* DESIGN PROBE (not framework code): feasibility of the central C05 lemma chain.
   Integer weights; the real development uses Qc and [ring] instead of [lia]/[nia].
   sample = (score, (pos weight, neg weight)). *)
From Coq Require Import ZArith List Bool Lia Sorted.
Import ListNotations.
Open Scope Z_scope.

Definition sample := (Z * (Z * Z))%type.
Definition sc (x : sample) := fst x.
Definition pw (x : sample) := fst (snd x).
Definition nw (x : sample) := snd (snd x).

(* running sums at the end of every run of equal scores: what
   cumsum(...)[mask] computes in _binary_auroc_compute_jit *)
Fixpoint collapse (aP aN : Z) (l : list sample) : list (Z * Z) :=
  match l with
  | [] => []
  | x :: r =>
      match r with
      | [] => [(aP + pw x, aN + nw x)]
      | y :: _ => if sc x =? sc y then collapse (aP + pw x) (aN + nw x) r
                  else (aP + pw x, aN + nw x) :: collapse (aP + pw x) (aN + nw x) r
      end
  end.

(* 2 * trapz(tp, fp) over a list of (tp, fp) points *)
Fixpoint trapz2 (pts : list (Z * Z)) : Z :=
  match pts with
  | a :: ((b :: _) as r) => (snd b - snd a) * (fst a + fst b) + trapz2 r
  | _ => 0
  end.

Definition area2 (l : list sample) := trapz2 ((0, 0) :: collapse 0 0 l).

(* groups of equal adjacent scores: (score, P_g, N_g) *)
Fixpoint groups (l : list sample) : list (Z * (Z * Z)) :=
  match l with
  | [] => []
  | x :: r =>
      match groups r with
      | (s, (P, N)) :: gs => if sc x =? s then (s, (P + pw x, N + nw x)) :: gs
                             else (sc x, (pw x, nw x)) :: (s, (P, N)) :: gs
      | [] => [(sc x, (pw x, nw x))]
      end
  end.

Fixpoint scan (aP aN : Z) (gs : list (Z * (Z * Z))) : list (Z * Z) :=
  match gs with
  | [] => []
  | (_, (P, N)) :: r => (aP + P, aN + N) :: scan (aP + P) (aN + N) r
  end.

Lemma groups_head_score x r : exists P N gs, groups (x :: r) = (sc x, (P, N)) :: gs.
Proof.
  simpl. destruct (groups r) as [|[s [P N]] gs]; [eauto|].
  destruct (Z.eqb_spec (sc x) s); subst; eauto.
Qed.

Lemma groups_cons x r : groups (x :: r) =
  match groups r with
  | (s, (P, N)) :: gs => if sc x =? s then (s, (P + pw x, N + nw x)) :: gs
                         else (sc x, (pw x, nw x)) :: (s, (P, N)) :: gs
  | [] => [(sc x, (pw x, nw x))]
  end.
Proof. reflexivity. Qed.
Lemma collapse_cons2 aP aN x y r : collapse aP aN (x :: y :: r) =
  if sc x =? sc y then collapse (aP + pw x) (aN + nw x) (y :: r)
  else (aP + pw x, aN + nw x) :: collapse (aP + pw x) (aN + nw x) (y :: r).
Proof. reflexivity. Qed.

Lemma collapse_scan : forall l aP aN, collapse aP aN l = scan aP aN (groups l).
Proof.
  induction l as [|x r IH]; intros aP aN; [reflexivity|].
  destruct r as [|y r'].
  - reflexivity.
  - rewrite collapse_cons2, (groups_cons x (y :: r')).
    destruct (groups_head_score y r') as (P & N & gs & Hg).
    rewrite !IH, Hg.
    destruct (Z.eqb_spec (sc x) (sc y)) as [E|E].
    + cbn [scan]. f_equal; [f_equal; lia|]. f_equal; lia.
    + cbn [scan]. reflexivity.
Qed.

(* closed form of the trapezoid over prefix sums *)
Fixpoint G (aP : Z) (gs : list (Z * (Z * Z))) : Z :=
  match gs with
  | [] => 0
  | (_, (P, N)) :: r => N * (2 * aP + P) + G (aP + P) r
  end.

Lemma trapz2_cons2 a b r : trapz2 (a :: b :: r) = (snd b - snd a) * (fst a + fst b) + trapz2 (b :: r).
Proof. reflexivity. Qed.
Lemma trapz2_scan : forall gs aP aN, trapz2 ((aP, aN) :: scan aP aN gs) = G aP gs.
Proof.
  induction gs as [|[s [P N]] r IH]; intros aP aN; [reflexivity|].
  cbn [scan G]. rewrite trapz2_cons2, IH. cbn [fst snd]. ring.
Qed.

(* pairwise statistic: 2*[s_b < s_a] + [s_b = s_a], weighted *)
Definition kern (a b : sample) : Z :=
  pw a * nw b * (if sc b <? sc a then 2 else if sc b =? sc a then 1 else 0).
Definition sumZ {A} (f : A -> Z) (l : list A) := fold_right (fun x acc => f x + acc) 0 l.
Definition U2 (l : list sample) : Z := sumZ (fun a => sumZ (kern a) l) l.

Definition Ntot (l : list sample) := sumZ nw l.
Definition Neq (t : Z) (l : list sample) := sumZ (fun b => if sc b =? t then nw b else 0) l.
Definition Peq (t : Z) (l : list sample) := sumZ (fun b => if sc b =? t then pw b else 0) l.

Definition desc (l : list sample) := StronglySorted (fun a b => sc b <= sc a) l.

Lemma sumZ_cons {A} (f : A -> Z) x l : sumZ f (x :: l) = f x + sumZ f l.
Proof. reflexivity. Qed.
Lemma sumZ_add {A} (f g : A -> Z) l : sumZ (fun x => f x + g x) l = sumZ f l + sumZ g l.
Proof. induction l; simpl; lia. Qed.
Lemma sumZ_ext_in {A} (f g : A -> Z) l : (forall x, In x l -> f x = g x) -> sumZ f l = sumZ g l.
Proof. induction l; simpl; intros H; [reflexivity|]. rewrite H, IHl; auto. Qed.
Lemma sumZ_scale {A} (c : Z) (f : A -> Z) l : sumZ (fun x => c * f x) l = c * sumZ f l.
Proof. induction l; simpl; lia. Qed.

(* U2 unfolds one element at the front of a descending list *)
Lemma U2_cons x r : Forall (fun b => sc b <= sc x) r ->
  U2 (x :: r) = U2 r + pw x * (2 * Ntot r - Neq (sc x) r) + nw x * Peq (sc x) r + pw x * nw x.
Proof.
  intros Hle. unfold U2. rewrite !sumZ_cons.
  assert (Hxx : kern x x = pw x * nw x).
  { unfold kern. rewrite Z.ltb_irrefl, Z.eqb_refl. ring. }
  assert (Hxr : sumZ (kern x) r = pw x * (2 * Ntot r - Neq (sc x) r)).
  { unfold Ntot, Neq. clear Hxx. induction r as [|b r IH]; [simpl; ring|].
    inversion Hle as [|? ? Hb Hr]; subst. rewrite !sumZ_cons, IH by assumption.
    unfold kern. destruct (Z.ltb_spec (sc b) (sc x)); destruct (Z.eqb_spec (sc b) (sc x)); try lia; ring. }
  assert (Hrx : sumZ (fun a => sumZ (kern a) (x :: r)) r
                = nw x * Peq (sc x) r + sumZ (fun a => sumZ (kern a) r) r).
  { erewrite sumZ_ext_in with (g := fun a => kern a x + sumZ (kern a) r) by (intros; apply sumZ_cons).
    rewrite sumZ_add. f_equal. unfold Peq. clear Hxx Hxr.
    induction r as [|a r IH]; [simpl; ring|].
    inversion Hle as [|? ? Ha Hr]; subst. rewrite !sumZ_cons, IH by assumption.
    unfold kern. destruct (Z.ltb_spec (sc x) (sc a)); destruct (Z.eqb_spec (sc x) (sc a));
      destruct (Z.eqb_spec (sc a) (sc x)); try lia; ring. }
  rewrite Hxx, Hxr, Hrx. ring.
Qed.

(* ---- facts about descending lists and their head group ---- *)
Lemma eq_gt_zero t r : Forall (fun b => sc b < t) r -> Peq t r = 0 /\ Neq t r = 0.
Proof.
  unfold Peq, Neq. induction r as [|b r IH]; intros H; [split; reflexivity|].
  inversion H as [|? ? Hb Hr]; subst. rewrite !sumZ_cons.
  destruct (IH Hr) as [-> ->]. destruct (Z.eqb_spec (sc b) t); [lia|]. split; ring.
Qed.

Lemma desc_head_max x r : desc (x :: r) -> Forall (fun b => sc b <= sc x) r.
Proof. intros H; inversion H; assumption. Qed.

Lemma groups_nil_inv r : groups r = [] -> r = [].
Proof. destruct r as [|y r']; [reflexivity|]. destruct (groups_head_score y r') as (?&?&?&E). congruence. Qed.

Lemma groups_head_inv r s P N gs : groups r = (s, (P, N)) :: gs -> exists y r', r = y :: r' /\ s = sc y.
Proof.
  destruct r as [|y r']; [discriminate|]. destruct (groups_head_score y r') as (?&?&?&E).
  intros H. rewrite E in H. inversion H; subst. eauto.
Qed.

Lemma eq_head_group : forall r, desc r ->
  match groups r with
  | (s, (P, N)) :: _ => Peq s r = P /\ Neq s r = N
  | [] => True
  end.
Proof.
  induction r as [|x r IH]; intros Hd; [exact I|].
  pose proof (desc_head_max _ _ Hd) as Hmax.
  inversion Hd as [|? ? Hd' _]; subst. specialize (IH Hd').
  rewrite groups_cons. unfold Peq, Neq in *. 
  destruct (groups r) as [|[s [P N]] gs] eqn:Hg.
  - apply groups_nil_inv in Hg; subst r. rewrite !sumZ_cons. cbn [sumZ fold_right].
    rewrite Z.eqb_refl. split; ring.
  - destruct (Z.eqb_spec (sc x) s) as [E|E].
    + rewrite !sumZ_cons. destruct IH as [-> ->]. destruct (Z.eqb_spec (sc x) s); [|lia]. split; ring.
    + rewrite !sumZ_cons, Z.eqb_refl.
      destruct (groups_head_inv _ _ _ _ _ Hg) as (y & r' & -> & ->).
      assert (Hlt : Forall (fun b => sc b < sc x) (y :: r')).
      { pose proof (desc_head_max _ _ Hd') as Hy. inversion Hmax as [|? ? Hyx _]; subst.
        constructor; [lia|]. eapply Forall_impl; [|exact Hy]. cbn beta. intros; lia. }
      destruct (eq_gt_zero _ _ Hlt) as [H1 H2]. unfold Peq, Neq in H1, H2. rewrite H1, H2. split; ring.
Qed.

Definition Nsum (gs : list (Z * (Z * Z))) := sumZ (fun g => snd (snd g)) gs.

Lemma Ntot_groups r : Ntot r = Nsum (groups r).
Proof.
  unfold Ntot, Nsum. induction r as [|x r IH]; [reflexivity|].
  rewrite groups_cons, sumZ_cons, IH. destruct (groups r) as [|[s [P N]] gs]; [cbn; ring|].
  destruct (sc x =? s); rewrite !sumZ_cons; cbn [fst snd]; try rewrite sumZ_cons; cbn [fst snd]; ring.
Qed.

Lemma G_shift : forall gs a p, G (a + p) gs = G a gs + 2 * p * Nsum gs.
Proof.
  unfold Nsum. induction gs as [|[s [P N]] r IH]; intros a p; [cbn; ring|].
  cbn [G]. rewrite sumZ_cons. cbn [fst snd].
  replace (a + p + P) with ((a + P) + p) by ring. rewrite IH. ring.
Qed.

Theorem U2_groups : forall l, desc l -> U2 l = G 0 (groups l).
Proof.
  induction l as [|x r IH]; intros Hd; [reflexivity|].
  pose proof (desc_head_max _ _ Hd) as Hmax.
  assert (Hd' : desc r) by (inversion Hd; assumption).
  rewrite (U2_cons x r Hmax), (IH Hd'), groups_cons, Ntot_groups.
  pose proof (eq_head_group r Hd') as Hh.
  destruct (groups r) as [|[s [P N]] gs] eqn:Hg.
  - apply groups_nil_inv in Hg; subst r. cbn. ring.
  - destruct Hh as [HP HN].
    destruct (Z.eqb_spec (sc x) s) as [E|E].
    + subst s. rewrite HP, HN. unfold Nsum. rewrite sumZ_cons. cbn [G fst snd].
      replace (0 + (P + pw x)) with ((0 + P) + pw x) by ring. rewrite (G_shift gs (0 + P) (pw x)). unfold Nsum. ring.
    + destruct (groups_head_inv _ _ _ _ _ Hg) as (y & r' & -> & ->).
      assert (Hlt : Forall (fun b => sc b < sc x) (y :: r')).
      { pose proof (desc_head_max _ _ Hd') as Hy. inversion Hmax as [|? ? Hyx _]; subst.
        constructor; [lia|]. eapply Forall_impl; [|exact Hy]. cbn beta. intros; lia. }
      destruct (eq_gt_zero _ _ Hlt) as [-> ->].
      change (G 0 ((sc x, (pw x, nw x)) :: (sc y, (P, N)) :: gs))
        with (nw x * (2 * 0 + pw x) + G (0 + pw x) ((sc y, (P, N)) :: gs)).
      rewrite (G_shift ((sc y, (P, N)) :: gs) 0 (pw x)). ring.
Qed.

(* the code's pipeline on a descending-sorted list equals the pairwise statistic *)
Theorem area2_pairwise : forall l, desc l -> area2 l = U2 l.
Proof.
  intros l Hd. unfold area2. rewrite collapse_scan, trapz2_scan. symmetry. apply U2_groups, Hd.
Qed.
Print Assumptions area2_pairwise.
