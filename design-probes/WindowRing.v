(* DESIGN PROBE (not framework code): C13 -- an update-granular ring buffer with cursor
   next_inserted and counter total_updates reports exactly the sum over the last N updates. *)
From Coq Require Import ZArith List Lia.
Import ListNotations.
Open Scope Z_scope.

Definition sumZ (l : list Z) := fold_right Z.add 0 l.
Lemma sumZ_app a b : sumZ (a ++ b) = sumZ a + sumZ b.
Proof. unfold sumZ. induction a; cbn; lia. Qed.

Fixpoint set_nth (i : nat) (x : Z) (l : list Z) : list Z :=
  match l, i with
  | [], _ => []
  | _ :: r, O => x :: r
  | y :: r, S i' => y :: set_nth i' x r
  end.

Record win := { buf : list Z; cursor : nat; total : nat }.
Definition init (N : nat) : win := {| buf := repeat 0 N; cursor := 0; total := 0 |}.
Definition upd (N : nat) (w : win) (x : Z) : win :=
  {| buf := set_nth (cursor w) x (buf w);
     cursor := Nat.modulo (S (cursor w)) N;
     total := S (total w) |}.
(* compute(): whole buffer once total >= N, else the filled prefix [:cursor] *)
Definition window_sum (N : nat) (w : win) : Z :=
  if Nat.leb N (total w) then sumZ (buf w) else sumZ (firstn (cursor w) (buf w)).
Definition lastn (n : nat) (l : list Z) := skipn (length l - n) l.

Lemma set_nth_app_skipn : forall (cur P : list Z) x,
  (length cur < length P)%nat ->
  set_nth (length cur) x (cur ++ skipn (length cur) P) = cur ++ x :: skipn (S (length cur)) P.
Proof.
  induction cur as [|c cur IH]; intros P x Hl.
  - destruct P; cbn in *; [lia|reflexivity].
  - destruct P as [|p P]; cbn in Hl; [lia|]. cbn [length app skipn set_nth]. f_equal. apply IH. lia.
Qed.

(* representation invariant: history = older ++ prev ++ cur *)
Definition Inv (N : nat) (h : list Z) (w : win) : Prop :=
  exists older prev cur,
    h = older ++ prev ++ cur /\ length cur = cursor w /\ (cursor w < N)%nat /\ total w = length h /\
    ((length prev = N /\ buf w = cur ++ skipn (length cur) prev) \/
     (prev = [] /\ older = [] /\ buf w = cur ++ skipn (length cur) (repeat 0 N))).

Lemma inv_init N : (0 < N)%nat -> Inv N [] (init N).
Proof. intros HN. exists [], [], []. cbn. repeat split; try lia. right. repeat split. Qed.

Lemma inv_upd N h w x : (0 < N)%nat -> Inv N h w -> Inv N (h ++ [x]) (upd N w x).
Proof.
  intros HN (older & prev & cur & Hh & Hc & HcN & Ht & Hb).
  assert (Hlen : total (upd N w x) = length (h ++ [x])) by (cbn; rewrite app_length; cbn; lia).
  destruct (Nat.eq_dec (S (cursor w)) N) as [Hwrap|Hno].
  - (* the chunk completes: it becomes [prev], cursor wraps to 0 *)
    exists (older ++ prev), (cur ++ [x]), [].
    cbn [cursor upd]. rewrite Hwrap, Nat.mod_same by lia.
    split; [|split; [|split; [|split]]].
    + rewrite Hh, !app_nil_r, <- !app_assoc. reflexivity.
    + reflexivity.
    + lia.
    + exact Hlen.
    + left. split; [rewrite app_length; cbn; lia|]. cbn [buf upd app length skipn]. rewrite <- Hc.
      destruct Hb as [[Hp ->]|(-> & -> & ->)].
      * rewrite set_nth_app_skipn by lia. rewrite skipn_all2 by lia. reflexivity.
      * rewrite set_nth_app_skipn by (rewrite repeat_length; lia).
        rewrite skipn_all2 by (rewrite repeat_length; lia). reflexivity.
  - exists older, prev, (cur ++ [x]).
    cbn [cursor upd]. rewrite Nat.mod_small by lia.
    split; [|split; [|split; [|split]]].
    + rewrite Hh, <- !app_assoc. reflexivity.
    + rewrite app_length; cbn; lia.
    + lia.
    + exact Hlen.
    + cbn [buf upd]. rewrite <- Hc.
      destruct Hb as [[Hp ->]|(-> & -> & ->)]; [left; split; [exact Hp|]|right; repeat split];
        rewrite set_nth_app_skipn by (rewrite ?repeat_length; lia);
        rewrite app_length, <- app_assoc; cbn [length app]; rewrite Nat.add_1_r; reflexivity.
Qed.

Lemma inv_window N h w : (0 < N)%nat -> Inv N h w -> window_sum N w = sumZ (lastn N h).
Proof.
  intros HN (older & prev & cur & Hh & Hc & HcN & Ht & Hb). unfold window_sum, lastn. rewrite Ht.
  destruct Hb as [[Hp Hb]|(-> & -> & Hb)].
  - assert (Hge : (N <= length h)%nat) by (rewrite Hh, !app_length; lia).
    apply Nat.leb_le in Hge. rewrite Hge, Hb.
    (* last N of older ++ prev ++ cur = skipn |cur| prev ++ cur *)
    rewrite Hh, !app_length.
    replace (length older + (length prev + length cur) - N)%nat with (length older + length cur)%nat by lia.
    rewrite skipn_app. rewrite (skipn_all2 (n := length older + length cur) older) by lia. cbn [app].
    replace (length older + length cur - length older)%nat with (length cur) by lia.
    rewrite skipn_app. replace (length cur - length prev)%nat with 0%nat by lia. cbn [skipn].
    rewrite !sumZ_app. lia.
  - cbn [app] in Hh. subst h.
    assert (Hlt : Nat.leb N (length cur) = false) by (apply Nat.leb_gt; lia). rewrite Hlt, Hb, <- Hc.
    rewrite firstn_app, firstn_all, Nat.sub_diag. cbn [firstn]. rewrite app_nil_r.
    replace (length cur - N)%nat with 0%nat by lia. reflexivity.
Qed.

Theorem window_refines_queue N (us : list Z) : (0 < N)%nat ->
  window_sum N (fold_left (upd N) us (init N)) = sumZ (lastn N us).
Proof.
  intros HN. apply inv_window; [exact HN|].
  assert (H : forall us h w, Inv N h w -> Inv N (h ++ us) (fold_left (upd N) us w)).
  { induction us0 as [|x us0 IH]; intros h w Hi; cbn [fold_left]; [rewrite app_nil_r; exact Hi|].
    replace (h ++ x :: us0) with ((h ++ [x]) ++ us0) by (rewrite <- app_assoc; reflexivity).
    apply IH, inv_upd; assumption. }
  exact (H us [] (init N) (inv_init N HN)).
Qed.
Print Assumptions window_refines_queue.
