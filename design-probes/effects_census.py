#!/usr/bin/env python3
"""DESIGN PROBE (not framework code): rough prototype of the effect-skeleton extraction, run
over the pinned tree to see which classes the alias check (C1, C1', C2), the compute-purity
check and the commit-discipline check would flag, i.e. whether the planned abstraction is
free of false positives on the current code."""
import ast, glob, sys, collections
ROOT = '/repo/torcheval/metrics'
files = sorted(glob.glob(ROOT + '/*/*.py'))
VIEW_METHODS = {'to','detach','squeeze','unsqueeze','reshape','view','flatten','t','transpose','contiguous',
                'float','double','long','int','type','expand','permute','T','real'}
def base_self_attr(n):
    while isinstance(n, ast.Subscript): n = n.value
    if isinstance(n, ast.Attribute) and isinstance(n.value, ast.Name) and n.value.id == 'self': return n.attr
    return None
class Meth:
    def __init__(self, cls, fn, params, src_vars):
        self.cls, self.fn, self.params, self.src_vars = cls, fn, params, src_vars
        self.env = {}  # local -> provenance set
        self.stmts = []  # (kind, field, prov)
    def prov(self, e):
        """provenance of expression: set of ('fresh',), ('imm',), ('self',f), ('src',f), ('arg',name)"""
        if isinstance(e, ast.Constant): return {('imm',)}
        if isinstance(e, ast.Name):
            if e.id in self.env: return set(self.env[e.id])
            if e.id in self.params: return {('arg', e.id)}
            return {('fresh',)}
        if isinstance(e, ast.Attribute):
            if isinstance(e.value, ast.Name) and e.value.id == 'self':
                return {('imm',)} if self.kinds.get(e.attr) == 'num' or e.attr not in self.kinds else {('self', e.attr)}
            if isinstance(e.value, ast.Name) and e.value.id in self.src_vars:
                return {('imm',)} if self.kinds.get(e.attr) == 'num' else {('src', e.attr)}
            if e.attr in VIEW_METHODS: return self.prov(e.value)
            return {('fresh',)}
        if isinstance(e, ast.Subscript):
            return self.prov(e.value)   # views / list elements alias their container
        if isinstance(e, ast.Call):
            f = e.func
            if isinstance(f, ast.Attribute) and f.attr in VIEW_METHODS: return self.prov(f.value)
            return {('fresh',)}
        if isinstance(e, (ast.Tuple, ast.List)):
            s = set()
            for x in e.elts: s |= self.prov(x)
            return s or {('fresh',)}
        if isinstance(e, ast.ListComp):
            return {('fresh',)} if not isinstance(e.elt, (ast.Name, ast.Attribute, ast.Subscript)) else self.prov_comp(e)
        if isinstance(e, ast.IfExp): return self.prov(e.body) | self.prov(e.orelse)
        return {('fresh',)}
    def prov_comp(self, e):
        # [m.f[i] for m in metrics] etc.
        saved = set(self.src_vars)
        for g in e.generators:
            if isinstance(g.iter, ast.Name) and g.iter.id in ('metrics','fads') and isinstance(g.target, ast.Name):
                self.src_vars.add(g.target.id)
        p = self.prov(e.elt); self.src_vars = saved; return p
ENTRY = ('update','compute','merge_state','_prepare_for_merge_state','normalized')
def field_kinds(cdef, bases_kinds):
    kinds = dict(bases_kinds)
    for m in cdef.body:
        if isinstance(m, ast.FunctionDef) and m.name == '__init__':
            for s in ast.walk(m):
                if isinstance(s, ast.Call) and isinstance(s.func, ast.Attribute) and s.func.attr in ('_add_state','_add_state_and_return') and len(s.args) + len(s.keywords) >= 2:
                    name = s.args[0].value if isinstance(s.args[0], ast.Constant) else None
                    d = s.args[1] if len(s.args) > 1 else [k.value for k in s.keywords if k.arg == 'default'][0]
                    if isinstance(d, ast.Constant) or (isinstance(d, ast.Name) and d.id in ('dim','max_num_updates','max_num_samples')): k = 'num'
                    elif isinstance(d, (ast.List, ast.ListComp)): k = 'list'
                    else: k = 'tensor'
                    if name: kinds[name] = k
                if isinstance(s, ast.Assign) and isinstance(s.value, ast.Constant) and isinstance(s.value.value, (int, float)) and not isinstance(s.value.value, bool):
                    for t in s.targets:
                        a = base_self_attr(t)
                        if a: kinds.setdefault(a, 'num')
    return kinds
def analyse_class(cdef, helpers, kinds):
    out = {}
    for m in cdef.body:
        if not isinstance(m, ast.FunctionDef) or m.name not in ENTRY: continue
        params = {a.arg for a in m.args.args + m.args.kwonlyargs} - {'self'}
        src_vars = set()
        M = Meth(cdef.name, m.name, params, src_vars); M.kinds = kinds
        walk_body(M, m.body, helpers)
        out[m.name] = M
    return out
def walk_body(M, body, helpers, depth=0):
    for s in body:
        if isinstance(s, ast.For):
            if isinstance(s.iter, ast.Name) and s.iter.id in ('metrics','fads') and isinstance(s.target, ast.Name):
                M.src_vars.add(s.target.id)
            walk_body(M, s.body, helpers, depth); continue
        if isinstance(s, ast.If):
            walk_body(M, s.body, helpers, depth); walk_body(M, s.orelse, helpers, depth); continue
        if isinstance(s, ast.With): walk_body(M, s.body, helpers, depth); continue
        if isinstance(s, ast.Assign):
            p = M.prov(s.value)
            for t in s.targets:
                ts = t.elts if isinstance(t, ast.Tuple) else [t]
                for x in ts:
                    f = base_self_attr(x)
                    if f is not None:
                        if M.kinds.get(f) == 'num': M.stmts.append(('bind', f, {('imm',)}, s.lineno))
                        elif isinstance(x, ast.Subscript):
                            if M.kinds.get(f) == 'list': M.stmts.append(('bind', f, p, s.lineno))
                            else: M.stmts.append(('inplace', f, set(), s.lineno))
                        else: M.stmts.append(('bind', f, p, s.lineno))
                    elif isinstance(x, ast.Name): M.env[x.id] = M.env.get(x.id, set()) | (p if not isinstance(t, ast.Tuple) else {('fresh',)})
                    elif isinstance(x, ast.Subscript) and isinstance(x.value, ast.Name):
                        M.stmts.append(('inplace_local', x.value.id, M.prov(x.value), s.lineno))
            continue
        if isinstance(s, ast.AugAssign):
            f = base_self_attr(s.target)
            if f is not None:
                if M.kinds.get(f) == 'num': M.stmts.append(('bind', f, {('imm',)}, s.lineno))
                else: M.stmts.append(('inplace', f, M.prov(s.value), s.lineno))
            elif isinstance(s.target, ast.Name): M.stmts.append(('inplace_local', s.target.id, M.prov(s.target), s.lineno))
            elif isinstance(s.target, ast.Subscript): M.stmts.append(('inplace_local', ast.unparse(s.target.value), M.prov(s.target.value), s.lineno))
            continue
        if isinstance(s, ast.Expr) and isinstance(s.value, ast.Call) and isinstance(s.value.func, ast.Attribute):
            c = s.value; f = base_self_attr(c.func.value)
            if f is not None and c.func.attr in ('append','extend'):
                M.stmts.append(('append', f, M.prov(c.args[0]), s.lineno)); continue
            if f is not None and c.func.attr.endswith('_'):
                M.stmts.append(('inplace', f, M.prov(c.args[0]) if c.args else set(), s.lineno)); continue
            if isinstance(c.func.value, ast.Name) and c.func.value.id == 'self' and c.func.attr in helpers and depth < 2:
                h = helpers[c.func.attr]
                hp = [a.arg for a in h.args.args][1:]
                saved_env = dict(M.env)
                for name, arg in zip(hp, c.args): M.env[name] = M.prov(arg)
                walk_body(M, h.body, helpers, depth + 1)
                M.env = saved_env; continue
# ---- run
verdicts = []
ALLK = {}
for f in files:
    tree = ast.parse(open(f).read())
    for c in tree.body:
        if not isinstance(c, ast.ClassDef): continue
        helpers = {m.name: m for m in c.body if isinstance(m, ast.FunctionDef)}
        bk = {}
        for b in c.bases:
            if isinstance(b, ast.Name) and b.id in ALLK: bk.update(ALLK[b.id])
        kinds = field_kinds(c, bk); ALLK[c.name] = kinds
        meths = analyse_class(c, helpers, kinds)
        allst = [(mn,) + st for mn, M in meths.items() for st in M.stmts]
        IP = {f_ for (_, k, f_, p, ln) in allst if k == 'inplace'}
        problems = []
        for (mn, k, f_, p, ln) in allst:
            if k in ('bind', 'append'):
                for q in p:
                    if f_ in IP and q[0] in ('src', 'arg'): problems.append(f'C1 {mn}:{ln} self.{f_} <- {q}')
                    if f_ in IP and q[0] == 'self' and q[1] not in IP: problems.append(f'C1 {mn}:{ln} self.{f_} <- {q} (not IP)')
                    if f_ not in IP and q[0] == 'self' and q[1] in IP and k == 'bind': problems.append(f"C1' {mn}:{ln} self.{f_} <- {q}")
                    if q[0] == 'src' and q[1] in IP: problems.append(f'C2 {mn}:{ln} self.{f_} <- {q}')
            if k == 'inplace_local':
                for q in p:
                    if q[0] in ('src', 'arg') and not (q[0]=='arg' and q[1] in ('n',)): problems.append(f'LOCAL-INPLACE on alias {mn}:{ln} {f_} <- {q}')
                    if q[0] == 'self': problems.append(f'LOCAL-INPLACE on self alias {mn}:{ln} {f_} <- {q}')
        if 'compute' in meths:
            for (k, f_, p, ln) in meths['compute'].stmts:
                if k in ('bind', 'append', 'inplace') and f_ in meths['compute'].kinds: problems.append(f'COMPUTE-WRITES compute:{ln} self.{f_}')
        verdicts.append((c.name, sorted(IP), problems))
for name, IP, problems in verdicts:
    print(f'{name:40s} IP={IP}')
    for p in sorted(set(problems)): print('     !!', p)
