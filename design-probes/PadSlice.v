(* DESIGN PROBE (not framework code): C15 -- F.pad to the per-dimension maximum followed by
   slicing back to the original sizes is the identity, for any number of dimensions and
   including zero extents (the shape is carried separately from the nested data). *)
From Coq Require Import ZArith List Arith Lia.
Import ListNotations.

Inductive nd := Sc (z : Z) | Arr (l : list nd).

Fixpoint nd_ind' (P : nd -> Prop) (HS : forall z, P (Sc z))
  (HA : forall l, Forall P l -> P (Arr l)) (x : nd) : P x :=
  match x with
  | Sc z => HS z
  | Arr l => HA l ((fix go (l : list nd) : Forall P l :=
                      match l with [] => Forall_nil _ | y :: r => Forall_cons _ (nd_ind' P HS HA y) (go r) end) l)
  end.

Fixpoint wf (s : list nat) (x : nd) : Prop :=
  match s, x with
  | [], Sc _ => True
  | k :: s', Arr l => length l = k /\ (fix all (l : list nd) : Prop := match l with [] => True | y :: r => wf s' y /\ all r end) l
  | _, _ => False
  end.
Fixpoint zeros (s : list nat) : nd :=
  match s with [] => Sc 0%Z | k :: s' => Arr (repeat (zeros s') k) end.
Fixpoint pad (m : list nat) (x : nd) : nd :=
  match m, x with
  | k :: m', Arr l => Arr (map (pad m') l ++ repeat (zeros m') (k - length l))
  | _, _ => x
  end.
Fixpoint slice (s : list nat) (x : nd) : nd :=
  match s, x with
  | k :: s', Arr l => Arr (map (slice s') (firstn k l))
  | _, _ => x
  end.
Fixpoint le_shape (s m : list nat) : Prop :=
  match s, m with [], [] => True | a :: s', b :: m' => a <= b /\ le_shape s' m' | _, _ => False end.

Lemma wf_all s' l : (fix all (l : list nd) : Prop := match l with [] => True | y :: r => wf s' y /\ all r end) l
  <-> Forall (wf s') l.
Proof. induction l as [|y r IH]; split; intros H; try constructor; try tauto; inversion H; subst; tauto. Qed.

Theorem pad_slice_roundtrip : forall x s m, wf s x -> le_shape s m -> slice s (pad m x) = x.
Proof.
  induction x as [z|l IH] using nd_ind'; intros s m Hwf Hle.
  - destruct s; [|destruct Hwf]. destruct m; [reflexivity|destruct Hle].
  - destruct s as [|k s']; [destruct Hwf|]. destruct m as [|km m']; [destruct Hle|].
    cbn [wf] in Hwf. destruct Hwf as [Hlen Hall]. apply wf_all in Hall. destruct Hle as [Hk Hle'].
    cbn [pad slice]. f_equal.
    rewrite firstn_app, map_length, firstn_all2 by (rewrite map_length; lia).
    replace (k - length l) with 0 by lia. cbn [firstn]. rewrite app_nil_r, map_map.
    clear Hlen Hk. induction l as [|y r IHr]; [reflexivity|].
    inversion IH as [|? ? Hy Hr]; subst. inversion Hall as [|? ? Hwy Hwr]; subst.
    cbn [map]. rewrite (Hy s' m' Hwy Hle'), (IHr Hr Hwr). reflexivity.
Qed.

(* zero extents are preserved: a (0,3) tensor padded to (4,5) and sliced back is (0,3) *)
Example zero_extent : slice [0; 3] (pad [4; 5] (Arr [])) = Arr [] /\ wf [0; 3] (Arr []).
Proof. split; [reflexivity|cbn; auto]. Qed.
Print Assumptions pad_slice_roundtrip.
