(* DESIGN PROBE (not framework code): C06 item 1 -- the searchsorted / histc / suffix-sum
   pipeline of binned_precision_recall_curve._update equals per-threshold counting. *)
From Coq Require Import ZArith List Bool Lia Sorted.
Import ListNotations.
Open Scope Z_scope.

Definition sample := (Z * bool)%type.            (* (score on the grid, label) *)

(* torch.searchsorted(T, s, right=True) on a sorted T: number of thresholds <= s *)
Definition ss_right (T : list Z) (s : Z) : nat := length (filter (fun t => t <=? s) T).
(* bucket index of a sample: -1 .. |T|-1, then (index, label) packed as 2*index + label *)
Definition code (T : list Z) (x : sample) : Z :=
  2 * (Z.of_nat (ss_right T (fst x)) - 1) + (if snd x then 1 else 0).
Definition countZ (c : Z) (l : list Z) : Z := Z.of_nat (length (filter (Z.eqb c) l)).
(* torch.histc(codes, bins = nb, min = 0, max = nb): unit bins, out-of-range values ignored *)
Definition histc (nb : nat) (codes : list Z) : list Z := map (fun k => countZ (Z.of_nat k) codes) (seq 0 nb).
(* hist.reshape(n, 2).T : row 0 = even entries (label 0), row 1 = odd entries (label 1) *)
Definition row (b : nat) (n : nat) (h : list Z) : list Z := map (fun i => nth (2 * i + b) h 0) (seq 0 n).
(* flip . cumsum . flip *)
Fixpoint suffix_sum (l : list Z) : list Z :=
  match l with [] => [] | x :: r => (x + match suffix_sum r with [] => 0 | a :: _ => a end) :: suffix_sum r end.

Definition num_tp (T : list Z) (xs : list sample) : list Z :=
  suffix_sum (row 1 (length T) (histc (2 * length T) (map (code T) xs))).
Definition num_fp (T : list Z) (xs : list sample) : list Z :=
  suffix_sum (row 0 (length T) (histc (2 * length T) (map (code T) xs))).

(* specification: count the samples scored at or above the threshold *)
Definition cnt (P : sample -> bool) (xs : list sample) : Z := Z.of_nat (length (filter P xs)).
Definition tp_spec (t : Z) := cnt (fun x => (t <=? fst x) && snd x).
Definition fp_spec (t : Z) := cnt (fun x => (t <=? fst x) && negb (snd x)).

(* ---- sorted thresholds: bucket index >= i  <->  T_i <= s ---- *)
Definition asc (T : list Z) := StronglySorted Z.le T.

Lemma ss_right_ge : forall T s i, asc T -> (i < length T)%nat ->
  (i < ss_right T s)%nat <-> nth i T 0 <= s.
Proof.
  unfold ss_right. induction T as [|t T IH]; intros s i Hs Hi; [cbn in Hi; lia|].
  inversion Hs as [|? ? Hs' Hall]; subst. cbn [filter nth].
  destruct (Z.leb_spec t s) as [Hle|Hgt].
  - cbn [length]. destruct i as [|i]; [split; intros; lia|].
    cbn in Hi. rewrite <- (IH s i Hs') by lia. lia.
  - (* t > s : nothing later is <= s either *)
    assert (Hnone : filter (fun t0 => t0 <=? s) T = []).
    { clear -Hall Hgt. induction T as [|u T IHT]; [reflexivity|]. inversion Hall; subst. cbn.
      destruct (Z.leb_spec u s); [lia|]. auto. }
    rewrite Hnone. cbn [length]. split; [lia|]. intros Hn.
    destruct i as [|i]; [lia|]. cbn in Hi.
    assert (In (nth i T 0) T) by (apply nth_In; lia).
    rewrite Forall_forall in Hall. specialize (Hall _ H). lia.
Qed.

Lemma ss_right_le_len T s : (ss_right T s <= length T)%nat.
Proof. unfold ss_right. induction T; cbn; [lia|]. destruct (_ <=? _); cbn; lia. Qed.

(* ---- histogram entries are counts of samples by (bucket, label) ---- *)
Lemma nth_map_seq {A} (f : nat -> A) d : forall n s k, (k < n)%nat -> nth k (map f (seq s n)) d = f (s + k)%nat.
Proof.
  induction n as [|n IH]; intros s k Hk; [lia|]. destruct k as [|k]; cbn [seq map nth].
  - f_equal; lia.
  - rewrite IH by lia. f_equal; lia.
Qed.
Lemma nth_histc nb codes k : (k < nb)%nat -> nth k (histc nb codes) 0 = countZ (Z.of_nat k) codes.
Proof. intros Hk. unfold histc. rewrite nth_map_seq by lia. reflexivity. Qed.

Lemma count_code T xs (i : nat) (b : bool) :
  countZ (Z.of_nat (2 * i + (if b then 1 else 0))) (map (code T) xs)
  = cnt (fun x => Nat.eqb (ss_right T (fst x)) (S i) && Bool.eqb (snd x) b) xs.
Proof.
  unfold countZ, cnt. f_equal. induction xs as [|x xs IH]; [reflexivity|]. cbn [map filter].
  assert (E : Z.eqb (Z.of_nat (2 * i + (if b then 1 else 0))) (code T x)
              = Nat.eqb (ss_right T (fst x)) (S i) && Bool.eqb (snd x) b).
  { unfold code. destruct (Nat.eqb_spec (ss_right T (fst x)) (S i)); destruct (snd x), b; cbn [Bool.eqb andb]; cbv iota;
      try (apply Z.eqb_eq; lia); apply Z.eqb_neq; lia. }
  rewrite E. destruct (_ && _); cbn [length]; rewrite IH; reflexivity.
Qed.

(* ---- suffix sums of per-bucket counts are counts of "bucket >= i" ---- *)
Lemma cnt_split P Q xs : (forall x, P x && Q x = false) ->
  cnt (fun x => P x || Q x) xs = cnt P xs + cnt Q xs.
Proof.
  intros Hd. unfold cnt. induction xs as [|x xs IH]; [reflexivity|]. cbn [filter].
  specialize (Hd x). destruct (P x), (Q x); cbn [orb andb] in *; try discriminate; cbn [length]; rewrite ?Nat2Z.inj_succ; lia.
Qed.
Lemma cnt_ext P Q xs : (forall x, P x = Q x) -> cnt P xs = cnt Q xs.
Proof. intros H. unfold cnt. induction xs as [|x xs IH]; [reflexivity|]. cbn. rewrite H. destruct (Q x); cbn; lia. Qed.

Lemma cnt_false P xs : (forall x, P x = false) -> cnt P xs = 0.
Proof. intros H. unfold cnt. induction xs as [|x xs IH]; [reflexivity|]. cbn [filter]. rewrite H. exact IH. Qed.

Lemma suffix_sum_hd : forall l, match suffix_sum l with [] => 0 | a :: _ => a end = fold_right Z.add 0 l.
Proof. induction l as [|x l IH]; cbn; [reflexivity|]. rewrite IH. reflexivity. Qed.
Lemma nth_suffix_sum : forall l i, nth i (suffix_sum l) 0 = fold_right Z.add 0 (skipn i l).
Proof.
  induction l as [|x l IH]; intros i; [destruct i; reflexivity|].
  destruct i as [|i]; cbn [suffix_sum nth skipn]; [rewrite suffix_sum_hd; reflexivity|apply IH].
Qed.

Lemma sum_buckets T xs b : forall n i, (i + n <= length T)%nat ->
  fold_right Z.add 0 (map (fun j => cnt (fun x => Nat.eqb (ss_right T (fst x)) (S j) && Bool.eqb (snd x) b) xs) (seq i n))
  = cnt (fun x => Nat.ltb i (ss_right T (fst x)) && Nat.leb (ss_right T (fst x)) (i + n) && Bool.eqb (snd x) b) xs.
Proof.
  induction n as [|n IH]; intros i Hn; cbn [seq map fold_right].
  - symmetry. apply cnt_false. intros x.
    destruct (Nat.ltb_spec i (ss_right T (fst x))); destruct (Nat.leb_spec (ss_right T (fst x)) (i + 0)); cbn [andb]; try reflexivity; lia.
  - rewrite (IH (S i)) by lia. rewrite <- cnt_split.
    + apply cnt_ext. intros x.
      destruct (Nat.eqb_spec (ss_right T (fst x)) (S i)); destruct (Nat.ltb_spec (S i) (ss_right T (fst x)));
        destruct (Nat.ltb_spec i (ss_right T (fst x))); destruct (Nat.leb_spec (ss_right T (fst x)) (S i + n));
        destruct (Nat.leb_spec (ss_right T (fst x)) (i + S n)); destruct (Bool.eqb (snd x) b); cbn; try reflexivity; lia.
    + intros x. destruct (Nat.eqb_spec (ss_right T (fst x)) (S i)); destruct (Nat.ltb_spec (S i) (ss_right T (fst x))); cbn; try reflexivity; try lia;
      destruct (Bool.eqb _ _); cbn; try reflexivity; lia.
Qed.

Lemma skipn_map_seq {A} (f : nat -> A) n i : (i <= n)%nat -> skipn i (map f (seq 0 n)) = map f (seq i (n - i)).
Proof.
  intros Hi. replace n with (i + (n - i))%nat at 1 by lia.
  rewrite seq_app, map_app, skipn_app, map_length, seq_length, Nat.sub_diag.
  cbn [skipn]. rewrite skipn_all2 by (rewrite map_length, seq_length; lia). reflexivity.
Qed.

Theorem binned_counts_spec T xs i (b : bool) : asc T -> (i < length T)%nat ->
  nth i (suffix_sum (row (if b then 1 else 0) (length T) (histc (2 * length T) (map (code T) xs)))) 0
  = cnt (fun x => (nth i T 0 <=? fst x) && Bool.eqb (snd x) b) xs.
Proof.
  intros Hs Hi. rewrite nth_suffix_sum. unfold row. rewrite skipn_map_seq by lia.
  erewrite map_ext_in.
  2:{ intros j Hj. apply in_seq in Hj. rewrite nth_histc by (destruct b; lia). apply count_code. }
  rewrite sum_buckets by lia. apply cnt_ext. intros x.
  pose proof (ss_right_le_len T (fst x)). pose proof (ss_right_ge T (fst x) i Hs Hi) as Hge.
  destruct (Nat.ltb_spec i (ss_right T (fst x))); destruct (Nat.leb_spec (ss_right T (fst x)) (i + (length T - i)));
    destruct (Z.leb_spec (nth i T 0) (fst x)); cbn; try reflexivity; lia.
Qed.
Print Assumptions binned_counts_spec.
