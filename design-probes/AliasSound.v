(* DESIGN PROBE (not framework code): C11 -- soundness of the flow-insensitive alias check
   over effect skeletons.  A class passes the check iff
     C1  a field that is ever mutated in place is only ever (re)bound to fresh storage,
         to an immutable, or to another in-place field of the same object;
     C1' a field that is never mutated in place is never bound to an in-place field;
     C2  no field is ever bound to a source metric's in-place field.
   Theorem: under the check, in any pool of objects of that class and for any sequence of
   statements executed by any objects with any sources/arguments, a step by object t writes
   the heap only at locations that no other object and no caller argument can reach. *)
From Coq Require Import List Arith Bool Lia.
Import ListNotations.

Definition loc := nat.
Definition fld := nat.
Inductive rhs := Fresh | Imm | SelfAlias (g : fld) | SrcAlias (g : fld) | ArgAlias.
Inductive stmt := Bind (f : fld) (r : rhs) | Append (f : fld) (r : rhs) | InPlace (f : fld).

Lemma rhs_eq_dec (a b : rhs) : {a = b} + {a <> b}. Proof. decide equality; apply Nat.eq_dec. Qed.
Lemma stmt_eq_dec (a b : stmt) : {a = b} + {a <> b}. Proof. decide equality; try apply Nat.eq_dec; apply rhs_eq_dec. Qed.
Definition obj := fld -> list loc.
Definition pool := nat -> obj.

Section Class.
Variable Prog : list stmt.              (* every statement of every method of the class *)
Definition IP (f : fld) : Prop := In (InPlace f) Prog.
Definition binds (f : fld) (r : rhs) : Prop := In (Bind f r) Prog \/ In (Append f r) Prog.
Definition C1 := forall f r, binds f r -> IP f -> r = Fresh \/ r = Imm \/ exists g, r = SelfAlias g /\ IP g.
Definition C1' := forall f g, binds f (SelfAlias g) -> IP g -> IP f.
Definition C2 := forall f g, binds f (SrcAlias g) -> ~ IP g.
Hypothesis (H1 : C1) (H1' : C1') (H2 : C2).
Lemma classic_IP f : IP f \/ ~ IP f.
Proof. unfold IP. destruct (in_dec stmt_eq_dec (InPlace f) Prog); auto. Qed.

(* machine state *)
Record state := { objs : pool; ext : list loc; next : loc }.   (* locations >= next are unused *)
Definition writable (o : obj) (l : loc) : Prop := exists f, IP f /\ In l (o f).
Definition reach (o : obj) (l : loc) : Prop := exists f, In l (o f).

Definition Inv (s : state) : Prop :=
  (forall i j l, i <> j -> writable (objs s i) l -> ~ reach (objs s j) l) /\
  (forall i l, writable (objs s i) l -> ~ In l (ext s)) /\
  (forall i f l, ~ IP f -> In l (objs s i f) -> ~ writable (objs s i) l) /\
  (forall i l, reach (objs s i) l -> l < next s) /\ (forall l, In l (ext s) -> l < next s).

Definition setf (o : obj) (f : fld) (v : list loc) : obj := fun g => if Nat.eqb g f then v else o g.
Definition seto (p : pool) (t : nat) (o : obj) : pool := fun i => if Nat.eqb i t then o else p i.

(* locations denoted by a right-hand side, for target t, source sidx <> t, argument a *)
Definition rlocs (s : state) (t sidx : nat) (a : loc) (r : rhs) : list loc :=
  match r with
  | Fresh => [next s] | Imm => [] | SelfAlias g => objs s t g | SrcAlias g => objs s sidx g | ArgAlias => [a]
  end.

(* one step: returns the new state and the set of heap locations written *)
Definition step (s : state) (t sidx : nat) (a : loc) (st : stmt) : state * list loc :=
  let bump r := match r with Fresh => S (next s) | _ => next s end in
  let ext' r := match r with ArgAlias => a :: ext s | _ => ext s end in
  match st with
  | Bind f r => ({| objs := seto (objs s) t (setf (objs s t) f (rlocs s t sidx a r)); ext := ext' r; next := bump r |}, [])
  | Append f r => ({| objs := seto (objs s) t (setf (objs s t) f (objs s t f ++ rlocs s t sidx a r)); ext := ext' r; next := bump r |}, [])
  | InPlace f => (s, objs s t f)
  end.

Lemma setf_same o f v : setf o f v f = v. Proof. unfold setf. rewrite Nat.eqb_refl. reflexivity. Qed.
Lemma setf_other o f v g : g <> f -> setf o f v g = o g.
Proof. intros H. unfold setf. apply Nat.eqb_neq in H. rewrite H. reflexivity. Qed.
Lemma seto_same p t o : seto p t o t = o. Proof. unfold seto. rewrite Nat.eqb_refl. reflexivity. Qed.
Lemma seto_other p t o i : i <> t -> seto p t o i = p i.
Proof. intros H. unfold seto. apply Nat.eqb_neq in H. rewrite H. reflexivity. Qed.

(* the key safety fact: in-place writes hit only locations private to the writer *)
Theorem inplace_is_private s t sidx a f : Inv s -> In (InPlace f) Prog ->
  forall l, In l (snd (step s t sidx a (InPlace f))) ->
    (forall j, j <> t -> ~ reach (objs s j) l) /\ ~ In l (ext s).
Proof.
  intros (Hsep & Hext & _) Hin l Hl. cbn in Hl.
  assert (Hw : writable (objs s t) l) by (exists f; split; assumption).
  split; [intros j Hj; apply (Hsep t j l); auto|apply (Hext t l Hw)].
Qed.

(* generic update of a field of object t with locations [v] *)
Lemma inv_update s t f v ext' next' :
  Inv s -> next s <= next' -> (forall l, In l ext' -> In l (ext s) \/ (l < next' /\ ~ (exists i, writable (objs s i) l) /\ (IP f -> ~ In l v))) ->
  (forall l, In l (ext s) -> In l ext') ->
  (forall l, In l v -> l < next') ->
  (* new contents are harmless: *)
  (IP f -> forall l, In l v -> (forall j, j <> t -> ~ reach (objs s j) l) /\ ~ In l (ext s) /\
                               (forall g, ~ IP g -> g <> f -> ~ In l (objs s t g))) ->
  (~ IP f -> forall l, In l v -> forall i, ~ writable (objs s i) l) ->
  Inv {| objs := seto (objs s) t (setf (objs s t) f v); ext := ext'; next := next' |}.
Proof.
  intros (Hsep & Hext & HJ & Hlt & Hxlt) Hnext Hext' Hmono Hv HIPv HnIPv.
  set (o' := setf (objs s t) f v).
  assert (Hw' : forall l, writable o' l -> writable (objs s t) l \/ (IP f /\ In l v)).
  { intros l (g & Hg & Hl). destruct (Nat.eq_dec g f) as [->|Hne].
    - unfold o' in Hl. rewrite setf_same in Hl. right; auto.
    - unfold o' in Hl. rewrite setf_other in Hl by assumption. left. exists g; auto. }
  assert (Hr' : forall l, reach o' l -> reach (objs s t) l \/ In l v).
  { intros l (g & Hl). destruct (Nat.eq_dec g f) as [->|Hne].
    - unfold o' in Hl. rewrite setf_same in Hl. right; auto.
    - unfold o' in Hl. rewrite setf_other in Hl by assumption. left. exists g; auto. }
  unfold Inv; cbn [objs ext next]. repeat split.
  - (* separation *)
    intros i j l Hij Hwi Hrj.
    destruct (Nat.eq_dec i t) as [->|Hit].
    + rewrite seto_same in Hwi. rewrite seto_other in Hrj by auto.
      destruct (Hw' l Hwi) as [Hw|[Hf Hlv]]; [apply (Hsep t j l); auto|].
      destruct (HIPv Hf l Hlv) as (Hn & _). apply (Hn j); auto.
    + rewrite seto_other in Hwi by auto.
      destruct (Nat.eq_dec j t) as [->|Hjt].
      * rewrite seto_same in Hrj. destruct (Hr' l Hrj) as [Hr|Hlv]; [apply (Hsep i t l); auto|].
        destruct (classic_IP f) as [Hf|Hf].
        -- destruct (HIPv Hf l Hlv) as (Hn & _). apply (Hn i Hit). destruct Hwi as (g & _ & Hg). exists g; exact Hg.
        -- apply (HnIPv Hf l Hlv i Hwi).
      * rewrite seto_other in Hrj by auto. apply (Hsep i j l); auto.
  - (* ext *)
    intros i l Hwi Hle.
    destruct (Hext' l Hle) as [Hold|(Hlt' & Hnw & Hnv)].
    + destruct (Nat.eq_dec i t) as [->|Hit].
      * rewrite seto_same in Hwi. destruct (Hw' l Hwi) as [Hw|[Hf Hlv]]; [apply (Hext t l); auto|].
        destruct (HIPv Hf l Hlv) as (_ & Hn & _). auto.
      * rewrite seto_other in Hwi by auto. apply (Hext i l); auto.
    + destruct (Nat.eq_dec i t) as [->|Hit].
      * rewrite seto_same in Hwi. destruct (Hw' l Hwi) as [Hw|[Hf Hlv]]; [apply Hnw; exists t; auto|].
        apply (Hnv Hf Hlv).
      * rewrite seto_other in Hwi by auto. apply Hnw; exists i; auto.
  - (* J *)
    intros i g l Hg Hl Hw.
    destruct (Nat.eq_dec i t) as [->|Hit].
    + rewrite seto_same in Hl, Hw.
      destruct (Nat.eq_dec g f) as [->|Hgf].
      * unfold o' in Hl. rewrite setf_same in Hl.
        destruct (Hw' l Hw) as [Hw0|[Hf _]]; [|contradiction]. apply (HnIPv Hg l Hl t Hw0).
      * unfold o' in Hl. rewrite setf_other in Hl by assumption.
        destruct (Hw' l Hw) as [Hw0|[Hf Hlv]]; [apply (HJ t g l); auto|].
        destruct (HIPv Hf l Hlv) as (_ & _ & Hn). apply (Hn g); auto.
    + rewrite seto_other in Hl, Hw by auto. apply (HJ i g l); auto.
  - intros i l Hr. destruct (Nat.eq_dec i t) as [->|Hit].
    + rewrite seto_same in Hr. destruct (Hr' l Hr) as [H|H]; [specialize (Hlt t l H); lia|auto].
    + rewrite seto_other in Hr by auto. specialize (Hlt i l Hr). lia.
  - intros l Hl. destruct (Hext' l Hl) as [H|(H & _)]; [specialize (Hxlt l H); lia|exact H].
Qed.

(* every statement of a checked class preserves the invariant *)
Theorem step_preserves_inv s t sidx a st :
  Inv s -> In st Prog -> sidx <> t -> a < next s -> (forall i, ~ writable (objs s i) a) ->
  Inv (fst (step s t sidx a st)).
Proof.
  intros HI Hin Hst Ha Hanw. pose proof HI as (Hsep & Hext & HJ & Hlt & Hxlt).
  assert (Hgen : forall f r (app : bool), binds f r ->
     Inv {| objs := seto (objs s) t (setf (objs s t) f ((if app then objs s t f else []) ++ rlocs s t sidx a r));
            ext := match r with ArgAlias => a :: ext s | _ => ext s end;
            next := match r with Fresh => S (next s) | _ => next s end |}).
  { intros f r app Hb.
    apply inv_update; try assumption.
    - destruct r; lia.
    - (* ext' *) intros l Hl. destruct r; try (left; exact Hl).
      destruct Hl as [<-|Hl]; [|left; exact Hl]. right. split; [lia|]. split; [intros (i & Hw); apply (Hanw i Hw)|].
      intros Hf. destruct (H1 f ArgAlias Hb Hf) as [E|[E|(g & E & _)]]; discriminate.
    - intros l Hl. destruct r; try exact Hl. right; exact Hl.
    - (* new contents are allocated *) intros l Hl. apply in_app_or in Hl as [Hl|Hl].
      + destruct app; [|contradiction]. assert (l < next s) by (apply (Hlt t l); exists f; exact Hl). destruct r; lia.
      + destruct r; cbn in Hl.
        * destruct Hl as [<-|[]]. lia.
        * contradiction.
        * apply (Hlt t l). exists g; exact Hl.
        * assert (l < next s) by (apply (Hlt sidx l); exists g; exact Hl). lia.
        * destruct Hl as [<-|[]]. lia.
    - (* f in-place: contents are private *)
      intros Hf l Hl. apply in_app_or in Hl as [Hl|Hl].
      + destruct app; [|contradiction].
        assert (Hw : writable (objs s t) l) by (exists f; auto).
        split; [intros j Hj; apply (Hsep t j l); auto|]. split; [apply (Hext t l Hw)|].
        intros g Hg _ Hlg. apply (HJ t g l Hg Hlg Hw).
      + destruct (H1 f r Hb Hf) as [->|[->|(g & -> & Hg)]]; cbn in Hl.
        * destruct Hl as [<-|[]]. split; [intros j _ (g & Hr); assert (next s < next s) by (apply (Hlt j); exists g; exact Hr); lia|].
          split; [intros Hx; specialize (Hxlt _ Hx); lia|].
          intros g _ _ Hr. assert (next s < next s) by (apply (Hlt t); exists g; exact Hr). lia.
        * contradiction.
        * assert (Hw : writable (objs s t) l) by (exists g; auto).
          split; [intros j Hj; apply (Hsep t j l); auto|]. split; [apply (Hext t l Hw)|].
          intros g' Hg' _ Hlg. apply (HJ t g' l Hg' Hlg Hw).
    - (* f not in-place: nothing writable flows into it *)
      intros Hf l Hl i Hw. apply in_app_or in Hl as [Hl|Hl].
      + destruct app; [|contradiction].
        destruct (Nat.eq_dec i t) as [->|Hit]; [apply (HJ t f l Hf Hl Hw)|].
        apply (Hsep i t l Hit Hw). exists f; exact Hl.
      + destruct r; cbn in Hl.
        * destruct Hl as [<-|[]]. destruct Hw as (g & _ & Hg).
          assert (next s < next s) by (apply (Hlt i); exists g; exact Hg). lia.
        * contradiction.
        * (* SelfAlias g, f not IP => g not IP *)
          assert (Hg : ~ IP g) by (intros Hg; apply Hf, (H1' f g Hb Hg)).
          destruct (Nat.eq_dec i t) as [->|Hit]; [apply (HJ t g l Hg Hl Hw)|].
          apply (Hsep i t l Hit Hw). exists g; exact Hl.
        * (* SrcAlias g: g not IP by C2 *)
          pose proof (H2 f g Hb) as Hg.
          destruct (Nat.eq_dec i sidx) as [->|His]; [apply (HJ sidx g l Hg Hl Hw)|].
          apply (Hsep i sidx l His Hw). exists g; exact Hl.
        * destruct Hl as [<-|[]]. apply (Hanw i Hw). }
  destruct st as [f r|f r|f]; cbn [step fst].
  - apply (Hgen f r false). left; exact Hin.
  - apply (Hgen f r true). right; exact Hin.
  - exact HI.
Qed.
End Class.
Print Assumptions step_preserves_inv.
