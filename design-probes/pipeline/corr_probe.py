#!/usr/bin/env python3
"""DESIGN PROBE: differential run -- real binary_auroc vs extracted Coq model, exact rationals."""
import random, subprocess, time, sys, logging, warnings
from fractions import Fraction
import torch
logging.disable(logging.CRITICAL); warnings.simplefilter('ignore')
from torcheval.metrics.functional import binary_auroc
rng = random.Random(int(sys.argv[1]) if len(sys.argv) > 1 else 0)
cases = []
for i in range(400):
    n = rng.choice([1, 2, 3, 5, 8, 13, 40]); g = rng.choice([1, 2, 4, 16])
    s = [rng.randint(0, g) for _ in range(n)]; y = [rng.randint(0, 1) for _ in range(n)]
    if rng.random() < .1: y = [1] * n
    w = [rng.choice([(1, 4), (1, 2), (1, 1), (2, 1), (3, 1)]) for _ in range(n)]
    cases.append((s, y, w, g))
big_n = 5000
cases.append(([rng.randint(0, 64) for _ in range(big_n)], [rng.randint(0, 1) for _ in range(big_n)], [(1, 1)] * big_n, 64))
lines = []
for (s, y, w, g) in cases:
    lines.append('algo ' + ' '.join(f'{a} {b} {c} {d}' for a, b, (c, d) in zip(s, y, w)))
t = time.time()
out = subprocess.run(['./model_run'], input='\n'.join(lines) + '\n', capture_output=True, text=True).stdout.split()
t_model = time.time() - t
bad = 0
for (s, y, w, g), o in zip(cases, out):
    m = Fraction(o)
    impl = binary_auroc(torch.tensor([a / g for a in s], dtype=torch.float64), torch.tensor(y),
                        weight=torch.tensor([c / d for c, d in w], dtype=torch.float64)).item()
    if abs(Fraction(impl) - m) > Fraction(1, 2**40) * max(1, abs(m)): bad += 1; print('MISMATCH', s, y, w, impl, float(m))
# spec vs algo on the small cases through the model
spec = subprocess.run(['./model_run'], input='\n'.join(l.replace('algo', 'spec', 1) for l in lines[:-1]) + '\n', capture_output=True, text=True).stdout.split()
bad_spec = sum(1 for a, b in zip(out, spec) if Fraction(a) != Fraction(b))
print(f'{len(cases)} cases, mismatches impl/model {bad}, algo/spec {bad_spec}, model time {t_model:.2f}s (incl. one {big_n}-sample case)')
