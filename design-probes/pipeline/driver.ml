(* DESIGN PROBE: reads one case per line:  n  then n triples "score label wnum wden"; prints num/den *)
open Model
let rec z_of_int n = if n = 0 then Z0 else if n > 0 then Zpos (pos_of_int n) else Zneg (pos_of_int (-n))
and pos_of_int n = if n = 1 then XH else if n land 1 = 0 then XO (pos_of_int (n lsr 1)) else XI (pos_of_int (n lsr 1))
let rec int_of_pos = function XH -> 1 | XO p -> 2 * int_of_pos p | XI p -> 2 * int_of_pos p + 1
let rec big_of_pos = function XH -> "1" | p -> string_of_int (int_of_pos p)   (* probe: values fit in 63 bits *)
let string_of_z = function Z0 -> "0" | Zpos p -> big_of_pos p | Zneg p -> "-" ^ big_of_pos p
let () =
  try while true do
    let line = input_line stdin in
    let toks = List.filter (fun s -> s <> "") (String.split_on_char ' ' line) in
    match toks with
    | which :: rest ->
      let rec go = function
        | s :: l :: wn :: wd :: tl -> (z_of_int (int_of_string s), (l = "1", mkq (z_of_int (int_of_string wn)) (pos_of_int (int_of_string wd)))) :: go tl
        | _ -> [] in
      let xs = go rest in
      let q = if which = "spec" then auroc_spec xs else auroc xs in
      Printf.printf "%s/%s\n" (string_of_z (num q)) (big_of_pos (den q))
    | [] -> ()
  done with End_of_file -> ()
