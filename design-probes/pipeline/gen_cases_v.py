import random, sys
rng = random.Random(7)
out = ['Require Import AurocModel. From Coq Require Import ZArith List QArith Qcanon. Import ListNotations.',
       'Definition cases : list (list sample) := [']
rows = []
for i in range(150):
    n = rng.choice([1, 2, 3, 5, 8, 13, 40]); g = rng.choice([1, 2, 4, 16])
    row = []
    for _ in range(n):
        s = rng.randint(0, g); y = rng.randint(0, 1); c, d = rng.choice([(1, 4), (1, 2), (1, 1), (2, 1), (3, 1)])
        row.append(f'({s}%Z, ({"true" if y else "false"}, mkq {c}%Z {d}%positive))')
    rows.append('[' + '; '.join(row) + ']')
out.append(';\n'.join(rows) + '].')
out.append('Definition res := map (fun l => let q := auroc l in (AurocModel.num q, AurocModel.den q)) cases.')
out.append('Time Eval vm_compute in res.')
out.append('Time Eval vm_compute in forallb (fun l => if Qc_eq_dec (auroc l) (auroc_spec l) then true else false) cases.')
open('cases.v', 'w').write('\n'.join(out) + '\n')
