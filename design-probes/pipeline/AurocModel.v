(* DESIGN PROBE (not framework code): end-to-end pipeline dry run -- an executable AUROC
   model over Qc, extracted with ExtrOcamlBasic only, driven by a tiny s-expression reader,
   and the same cases evaluated inside Coq by vm_compute. *)
From Coq Require Import ZArith List Bool QArith Qcanon Sorting.Mergesort Orders.
Import ListNotations.

Definition sample := (Z * (bool * Qc))%type.     (* score on a grid, label, weight *)
Module DescOrder <: TotalLeBool.
  Definition t := sample.
  Definition leb (a b : t) := Z.leb (fst b) (fst a).
  Theorem leb_total : forall a b, leb a b = true \/ leb b a = true.
  Proof. intros a b; unfold leb; destruct (Z.leb_spec (fst b) (fst a)); destruct (Z.leb_spec (fst a) (fst b)); auto; exfalso; eapply Z.lt_irrefl, Z.lt_trans; eauto. Qed.
End DescOrder.
Module S := Sort DescOrder.
Open Scope Qc_scope.
Definition pw (x : sample) : Qc := if fst (snd x) then snd (snd x) else 0.
Definition nw (x : sample) : Qc := if fst (snd x) then 0 else snd (snd x).
Fixpoint collapse (aP aN : Qc) (l : list sample) : list (Qc * Qc) :=
  match l with
  | [] => []
  | x :: r => match r with
              | [] => [(aP + pw x, aN + nw x)]
              | y :: _ => if Z.eqb (fst x) (fst y) then collapse (aP + pw x) (aN + nw x) r
                          else (aP + pw x, aN + nw x) :: collapse (aP + pw x) (aN + nw x) r
              end
  end.
Fixpoint trapz2 (pts : list (Qc * Qc)) : Qc :=
  match pts with a :: ((b :: _) as r) => (snd b - snd a) * (fst a + fst b) + trapz2 r | _ => 0 end.
Definition half : Qc := Q2Qc (1 # 2).
Definition auroc (l : list sample) : Qc :=
  let pts := (0, 0) :: collapse 0 0 (S.sort l) in
  let last := List.last pts (0, 0) in
  let factor := fst last * snd last in
  if Qc_eq_dec factor 0 then half else trapz2 pts / ((1 + 1) * factor).
(* pairwise specification, used by the harness as the oracle of the property-directed search *)
Definition auroc_spec (l : list sample) : Qc :=
  let Wp := fold_right (fun x a => pw x + a) 0 l in
  let Wn := fold_right (fun x a => nw x + a) 0 l in
  if Qc_eq_dec (Wp * Wn) 0 then half else
  fold_right (fun a acc => fold_right (fun b acc' =>
      pw a * nw b * (if Z.ltb (fst b) (fst a) then 1 else if Z.eqb (fst b) (fst a) then half else 0) + acc') acc l) 0 l
  / (Wp * Wn).
Definition mkq (n : Z) (d : positive) : Qc := Q2Qc (Qmake n d).
Definition num (q : Qc) : Z := Qnum (this q).
Definition den (q : Qc) : positive := Qden (this q).

Require Extraction ExtrOcamlBasic.
Extraction "model.ml" auroc auroc_spec mkq num den.
