(* DESIGN PROBE (not framework code): C16 -- torch's flattened
     dst.masked_scatter_(shifted_mask, src[mask])
   on 2-D tensors is row-local whenever every row has as many true entries in shifted_mask
   as in mask, so the multi-task AUROC kernel equals the row-wise map of the 1-D kernel. *)
From Coq Require Import ZArith List Bool Arith Lia.
Import ListNotations.

Fixpoint select {A} (m : list bool) (l : list A) : list A :=
  match m, l with b :: m', x :: l' => if b then x :: select m' l' else select m' l' | _, _ => [] end.
Definition count_true (m : list bool) := length (filter (fun b => b) m).

(* one row of masked_scatter_: consume [src] left to right at the true positions; returns the
   new row and the unconsumed rest of the source *)
Fixpoint scatter_row {A} (d : list A) (m : list bool) (src : list A) : list A * list A :=
  match d, m with
  | x :: d', b :: m' =>
      if b then match src with
                | s :: src' => let (r, rest) := scatter_row d' m' src' in (s :: r, rest)
                | [] => let (r, rest) := scatter_row d' m' [] in (x :: r, rest)   (* torch would raise *)
                end
      else let (r, rest) := scatter_row d' m' src in (x :: r, rest)
  | _, _ => (d, src)
  end.
(* torch flattens row-major: rows are processed in order, threading the source *)
Fixpoint scatter2 {A} (D : list (list A)) (M : list (list bool)) (src : list A) : list (list A) :=
  match D, M with
  | d :: D', m :: M' => let (r, rest) := scatter_row d m src in r :: scatter2 D' M' rest
  | _, _ => D
  end.
(* x[mask] on a 2-D tensor: row-major concatenation of the per-row selections *)
Fixpoint select2 {A} (M : list (list bool)) (X : list (list A)) : list A :=
  match M, X with m :: M', x :: X' => select m x ++ select2 M' X' | _, _ => [] end.

Lemma select_length {A} : forall m (x : list A), length m = length x -> length (select m x) = count_true m.
Proof.
  unfold count_true. induction m as [|b m IH]; intros [|a x] H; cbn in *; try lia.
  destruct b; cbn; rewrite IH; lia.
Qed.

(* a row consumes exactly count_true(mask) elements from the front of the source *)
Lemma scatter_row_app {A} : forall (d : list A) m src rest,
  length d = length m -> length src = count_true m ->
  scatter_row d m (src ++ rest) = (fst (scatter_row d m src), rest).
Proof.
  unfold count_true. induction d as [|x d IH]; intros [|b m] src rest Hl Hs; cbn in *; try lia.
  - destruct src; cbn in *; [reflexivity|lia].
  - destruct b; cbn [filter length] in Hs.
    + destruct src as [|s src]; cbn in Hs; [lia|]. cbn [app].
      rewrite (IH m src rest) by lia. destruct (scatter_row d m src). reflexivity.
    + rewrite (IH m src rest) by lia. destruct (scatter_row d m src). reflexivity.
Qed.

Fixpoint map3 {A} (f : list A -> list bool -> list A -> list A) (D : list (list A)) (M : list (list bool)) (S : list (list A)) :=
  match D, M, S with d :: D', m :: M', s :: S' => f d m s :: map3 f D' M' S' | _, _, _ => [] end.

Theorem masked_scatter_rowlocal {A} : forall (D X : list (list A)) (M M' : list (list bool)),
  length D = length X -> length M = length X -> length M' = length X ->
  Forall2 (fun d m' => length d = length m') D M' ->
  Forall2 (fun m x => length m = length x) M X ->
  Forall2 (fun m m' => count_true m = count_true m') M M' ->
  scatter2 D M' (select2 M X)
  = map3 (fun d m' sel => fst (scatter_row d m' sel)) D M' (map (fun mx => select (fst mx) (snd mx)) (combine M X)).
Proof.
  induction D as [|d D IH]; intros X M M' HD HM HM' Hdm Hmx Hcnt.
  - destruct X; cbn in *; [|lia]. destruct M; cbn in *; [|lia]. destruct M'; cbn in *; [reflexivity|lia].
  - destruct X as [|x X]; cbn in HD; [lia|]. destruct M as [|m M]; cbn in HM; [lia|].
    destruct M' as [|m' M']; cbn in HM'; [lia|].
    inversion Hdm; subst. inversion Hmx; subst. inversion Hcnt; subst.
    cbn [select2 scatter2 combine map map3 fst snd].
    rewrite scatter_row_app by (try assumption; rewrite select_length by assumption; assumption).
    f_equal. apply IH; auto; lia.
Qed.

(* right-aligned mask of d trues in a row of n: zeros on the left, the selection on the right *)
Lemma scatter_right_aligned : forall (k : nat) (sel : list Z) (z : list Z),
  length z = (k + length sel)%nat ->
  fst (scatter_row z (repeat false k ++ repeat true (length sel)) sel) = firstn k z ++ sel.
Proof.
  induction k as [|k IH]; intros sel z Hz.
  - cbn [repeat app firstn]. revert z Hz. induction sel as [|s sel IHs]; intros z Hz; cbn in *.
    + destruct z; [reflexivity|cbn in Hz; lia].
    + destruct z as [|x z]; cbn in Hz; [lia|]. cbn. specialize (IHs z ltac:(lia)).
      destruct (scatter_row z (repeat true (length sel)) sel). cbn in *. congruence.
  - destruct z as [|x z]; cbn in Hz; [lia|]. cbn [repeat app scatter_row firstn].
    specialize (IH sel z ltac:(lia)). destruct (scatter_row z _ sel). cbn in *. congruence.
Qed.
Print Assumptions masked_scatter_rowlocal.
