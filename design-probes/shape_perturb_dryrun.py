#!/usr/bin/env python3
"""DESIGN PROBE (not framework code): dry run of the C18 perturbation enumeration on the real
functionals: perturb ONE tensor argument of a valid base call and report every call that still
returns a value (candidate broadcast / truncation), to size the contract work."""
import torch, itertools, warnings, logging, sys
logging.disable(logging.CRITICAL); warnings.simplefilter('ignore')
from torcheval.metrics import functional as F
from torcheval.metrics.functional.statistical.wasserstein import wasserstein_1d
from torcheval.metrics.functional.image.psnr import peak_signal_noise_ratio
from torcheval.metrics.functional.frechet import gaussian_frechet_distance
torch.manual_seed(0)
N, C, T = 4, 3, 2
def r(*s): return torch.rand(*s)
def lab(*s): return torch.randint(0, 2, s)
def cls(n, c=C): return torch.randint(0, c, (n,))
BASE = {
 'binary_accuracy': (F.binary_accuracy, dict(input=r(N), target=lab(N)), {}),
 'multiclass_accuracy_lbl': (F.multiclass_accuracy, dict(input=cls(N), target=cls(N)), {}),
 'multiclass_accuracy_logit': (F.multiclass_accuracy, dict(input=r(N, C), target=cls(N)), dict(num_classes=C, average='macro')),
 'multiclass_accuracy_k2': (F.multiclass_accuracy, dict(input=r(N, C), target=cls(N)), dict(k=2)),
 'multilabel_accuracy': (F.multilabel_accuracy, dict(input=r(N, C), target=lab(N, C)), {}),
 'topk_multilabel_accuracy': (F.topk_multilabel_accuracy, dict(input=r(N, C), target=lab(N, C)), dict(k=2)),
 'binary_precision': (F.binary_precision, dict(input=r(N), target=lab(N)), {}),
 'multiclass_precision': (F.multiclass_precision, dict(input=r(N, C), target=cls(N)), dict(num_classes=C, average='macro')),
 'binary_recall': (F.binary_recall, dict(input=r(N), target=lab(N)), {}),
 'multiclass_recall': (F.multiclass_recall, dict(input=r(N, C), target=cls(N)), dict(num_classes=C, average='macro')),
 'binary_f1_score': (F.binary_f1_score, dict(input=r(N), target=lab(N)), {}),
 'multiclass_f1_score': (F.multiclass_f1_score, dict(input=r(N, C), target=cls(N)), dict(num_classes=C, average='macro')),
 'binary_confusion_matrix': (F.binary_confusion_matrix, dict(input=r(N), target=lab(N)), {}),
 'multiclass_confusion_matrix': (F.multiclass_confusion_matrix, dict(input=r(N, C), target=cls(N)), dict(num_classes=C)),
 'binary_auroc': (F.binary_auroc, dict(input=r(N), target=lab(N), weight=r(N)), {}),
 'binary_auroc_T': (F.binary_auroc, dict(input=r(T, N), target=lab(T, N), weight=r(T, N)), dict(num_tasks=T)),
 'multiclass_auroc': (F.multiclass_auroc, dict(input=r(N, C), target=cls(N)), dict(num_classes=C)),
 'binary_auprc': (F.binary_auprc, dict(input=r(N), target=lab(N)), {}),
 'binary_auprc_T': (F.binary_auprc, dict(input=r(T, N), target=lab(T, N)), dict(num_tasks=T)),
 'multiclass_auprc': (F.multiclass_auprc, dict(input=r(N, C), target=cls(N)), dict(num_classes=C)),
 'multilabel_auprc': (F.multilabel_auprc, dict(input=r(N, C), target=lab(N, C)), dict(num_labels=C)),
 'binary_precision_recall_curve': (F.binary_precision_recall_curve, dict(input=r(N), target=lab(N)), {}),
 'multiclass_precision_recall_curve': (F.multiclass_precision_recall_curve, dict(input=r(N, C), target=cls(N)), dict(num_classes=C)),
 'multilabel_precision_recall_curve': (F.multilabel_precision_recall_curve, dict(input=r(N, C), target=lab(N, C)), dict(num_labels=C)),
 'binary_recall_at_fixed_precision': (F.binary_recall_at_fixed_precision, dict(input=r(N), target=lab(N)), dict(min_precision=0.5)),
 'multilabel_recall_at_fixed_precision': (F.multilabel_recall_at_fixed_precision, dict(input=r(N, C), target=lab(N, C)), dict(num_labels=C, min_precision=0.5)),
 'binary_binned_auroc': (F.binary_binned_auroc, dict(input=r(N), target=lab(N)), dict(threshold=5)),
 'binary_binned_auroc_T': (F.binary_binned_auroc, dict(input=r(T, N), target=lab(T, N)), dict(num_tasks=T, threshold=5)),
 'multiclass_binned_auroc': (F.multiclass_binned_auroc, dict(input=r(N, C), target=cls(N)), dict(num_classes=C, threshold=5)),
 'binary_binned_auprc': (F.binary_binned_auprc, dict(input=r(N), target=lab(N)), dict(threshold=5)),
 'binary_binned_auprc_T': (F.binary_binned_auprc, dict(input=r(T, N), target=lab(T, N)), dict(num_tasks=T, threshold=5)),
 'multiclass_binned_auprc': (F.multiclass_binned_auprc, dict(input=r(N, C), target=cls(N)), dict(num_classes=C, threshold=5)),
 'multilabel_binned_auprc': (F.multilabel_binned_auprc, dict(input=r(N, C), target=lab(N, C)), dict(num_labels=C, threshold=5)),
 'binary_binned_precision_recall_curve': (F.binary_binned_precision_recall_curve, dict(input=r(N), target=lab(N)), dict(threshold=5)),
 'multiclass_binned_precision_recall_curve': (F.multiclass_binned_precision_recall_curve, dict(input=r(N, C), target=cls(N)), dict(num_classes=C, threshold=5)),
 'multiclass_binned_precision_recall_curve_mem': (F.multiclass_binned_precision_recall_curve, dict(input=r(N, C), target=cls(N)), dict(num_classes=C, threshold=5, optimization='memory')),
 'multilabel_binned_precision_recall_curve': (F.multilabel_binned_precision_recall_curve, dict(input=r(N, C), target=lab(N, C)), dict(num_labels=C, threshold=5)),
 'multilabel_binned_precision_recall_curve_mem': (F.multilabel_binned_precision_recall_curve, dict(input=r(N, C), target=lab(N, C)), dict(num_labels=C, threshold=5, optimization='memory')),
 'binary_normalized_entropy': (F.binary_normalized_entropy, dict(input=r(N), target=lab(N).float(), weight=r(N)), {}),
 'binary_normalized_entropy_T': (F.binary_normalized_entropy, dict(input=r(T, N), target=lab(T, N).float(), weight=r(T, N)), dict(num_tasks=T)),
 'mean': (F.mean, dict(input=r(N), weight=r(N)), {}),
 'sum': (F.sum, dict(input=r(N), weight=r(N)), {}),
 'auc': (F.auc, dict(x=r(N), y=r(N)), {}),
 'auc_T': (F.auc, dict(x=r(T, N), y=r(T, N)), {}),
 'mean_squared_error': (F.mean_squared_error, dict(input=r(N), target=r(N), sample_weight=r(N)), {}),
 'mean_squared_error_2d': (F.mean_squared_error, dict(input=r(N, C), target=r(N, C), sample_weight=r(N)), {}),
 'r2_score': (F.r2_score, dict(input=r(N), target=r(N)), {}),
 'r2_score_2d': (F.r2_score, dict(input=r(N, C), target=r(N, C)), {}),
 'click_through_rate': (F.click_through_rate, dict(input=lab(N).float(), weights=r(N)), {}),
 'click_through_rate_T': (F.click_through_rate, dict(input=lab(T, N).float(), weights=r(T, N)), dict(num_tasks=T)),
 'weighted_calibration': (F.weighted_calibration, dict(input=r(N), target=lab(N).float(), weight=r(N)), {}),
 'weighted_calibration_T': (F.weighted_calibration, dict(input=r(T, N), target=lab(T, N).float(), weight=r(T, N)), dict(num_tasks=T)),
 'hit_rate': (F.hit_rate, dict(input=r(N, C), target=cls(N)), dict(k=2)),
 'reciprocal_rank': (F.reciprocal_rank, dict(input=r(N, C), target=cls(N)), dict(k=2)),
 'retrieval_precision': (F.retrieval_precision, dict(input=r(N), target=lab(N)), dict(k=2)),
 'retrieval_precision_T': (F.retrieval_precision, dict(input=r(T, N), target=lab(T, N)), dict(k=2, num_tasks=T)),
 'retrieval_recall': (F.retrieval_recall, dict(input=r(N), target=lab(N)), dict(k=2)),
 'frequency_at_k': (F.frequency_at_k, dict(input=r(N)), dict(k=0.5)),
 'num_collisions': (F.num_collisions, dict(input=cls(N)), {}),
 'perplexity': (F.perplexity, dict(input=r(2, N, C), target=torch.randint(0, C, (2, N))), {}),
 'wasserstein_1d': (wasserstein_1d, dict(x=r(N), y=r(N + 1), x_weights=r(N) + .1, y_weights=r(N + 1) + .1), {}),
 'psnr': (peak_signal_noise_ratio, dict(input=r(2, 3, N, N), target=r(2, 3, N, N)), {}),
 'frechet': (gaussian_frechet_distance, dict(mu_x=r(C), cov_x=torch.eye(C), mu_y=r(C), cov_y=torch.eye(C)), {}),
}
def perturbations(t):
    shp = list(t.shape); out = []
    def mk(new):
        n = 1
        for d in new: n *= d
        base = t.flatten()
        if base.numel() == 0: base = torch.zeros(1, dtype=t.dtype)
        reps = (n + base.numel() - 1) // base.numel() if n else 0
        data = base.repeat(max(reps, 1))[:n]
        return data.reshape(new)
    if shp: out.append(('drop_last', mk(shp[:-1])))
    if shp: out.append(('drop_first', mk(shp[1:])))
    out.append(('lead1', mk([1] + shp))); out.append(('trail1', mk(shp + [1])))
    for i, d in enumerate(shp):
        for tag, nd in (('to1', 1), ('minus1', d - 1), ('plus1', d + 1), ('to0', 0)):
            if nd != d and nd >= 0:
                new = shp[:]; new[i] = nd; out.append((f'dim{i}{tag}', mk(new)))
    return out
suspicious = 0; total = 0
for name, (fn, targs, kw) in BASE.items():
    try: fn(**targs, **kw)
    except Exception as e: print('BASE CALL FAILS', name, type(e).__name__, str(e)[:80]); continue
    for a, t in targs.items():
        for tag, pt in perturbations(t):
            total += 1
            args = dict(targs); args[a] = pt
            try:
                res = fn(**args, **kw)
            except Exception as e:
                continue
            suspicious += 1
            print(f'RETURNS  {name:42s} {a:14s} {tag:10s} {tuple(t.shape)} -> {tuple(pt.shape)}')
print(f'{total} perturbed calls, {suspicious} returned a value')
