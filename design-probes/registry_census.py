#!/usr/bin/env python3
"""DESIGN PROBE (not framework code): registered states vs attributes written outside __init__,
and a rough commit-discipline scan (first state write vs later calls) per entry method."""
import ast, glob
ROOT='/repo/torcheval/metrics'
def self_attr(n):
    while isinstance(n, ast.Subscript): n = n.value
    if isinstance(n, ast.Attribute) and isinstance(n.value, ast.Name) and n.value.id=='self': return n.attr
REG={}
for f in sorted(glob.glob(ROOT+'/*/*.py')):
    tree=ast.parse(open(f).read())
    for c in tree.body:
        if not isinstance(c, ast.ClassDef): continue
        reg=set()
        for b in c.bases:
            if isinstance(b, ast.Name) and b.id in REG: reg|=REG[b.id]
        written=set(); order_issues=[]
        helpers={m.name:m for m in c.body if isinstance(m, ast.FunctionDef)}
        for m in c.body:
            if not isinstance(m, ast.FunctionDef): continue
            if m.name=='__init__':
                for s in ast.walk(m):
                    if isinstance(s, ast.Call) and isinstance(s.func, ast.Attribute) and s.func.attr.startswith('_add_state') and s.args and isinstance(s.args[0], ast.Constant):
                        reg.add(s.args[0].value)
                continue
            if m.name in ('to','with_vggish') or m.name.startswith('_FID') : continue
            for s in ast.walk(m):
                tg=[]
                if isinstance(s, ast.Assign): tg=[x for t in s.targets for x in (t.elts if isinstance(t, ast.Tuple) else [t])]
                if isinstance(s, ast.AugAssign): tg=[s.target]
                for t in tg:
                    a=self_attr(t)
                    if a: written.add(a)
                if isinstance(s, ast.Expr) and isinstance(s.value, ast.Call) and isinstance(s.value.func, ast.Attribute):
                    a=self_attr(s.value.func.value)
                    if a and (s.value.func.attr in ('append','extend') or s.value.func.attr.endswith('_')): written.add(a)
            # commit discipline: linearise statements of update in source order; flag a Call-containing non-write stmt after a write
            if m.name=='update':
                dirty=None
                def scan(body, inloop):
                    global dirty
                def walk(body, inloop, state):
                    for s in body:
                        if isinstance(s,(ast.If,)):
                            walk(s.body,inloop,state); walk(s.orelse,inloop,state); continue
                        if isinstance(s,(ast.For,ast.With)):
                            loop=isinstance(s,ast.For)
                            walk(s.body,inloop or loop,state)
                            if loop and state['dirty_in_loop']: 
                                # second iteration: calls at loop head after writes
                                walk(s.body,True,state)
                            continue
                        is_write=False
                        if isinstance(s,(ast.Assign,ast.AugAssign)):
                            tgs=s.targets if isinstance(s,ast.Assign) else [s.target]
                            is_write=any(self_attr(x) for t in tgs for x in (t.elts if isinstance(t,ast.Tuple) else [t]))
                        if isinstance(s,ast.Expr) and isinstance(s.value,ast.Call) and isinstance(s.value.func,ast.Attribute):
                            a=self_attr(s.value.func.value)
                            if a and (s.value.func.attr in('append','extend') or s.value.func.attr.endswith('_')): is_write=True
                            if isinstance(s.value.func.value,ast.Name) and s.value.func.value.id=='self' and s.value.func.attr in helpers:
                                walk(helpers[s.value.func.attr].body,inloop,state); continue
                        rhs_calls=[n for n in ast.walk(s) if isinstance(n,ast.Call) and not (isinstance(n.func,ast.Attribute) and n.func.attr in ('to','detach','append','extend','copy_','size'))]
                        if state['dirty'] and rhs_calls and not isinstance(s,ast.Return):
                            state['issues'].append(f"{m.name}:{s.lineno} call after state write: {ast.unparse(s)[:70]}")
                        if is_write:
                            state['dirty']=True
                            if inloop: state['dirty_in_loop']=True
                st={'dirty':False,'dirty_in_loop':False,'issues':[]}
                walk(m.body,False,st); order_issues=st['issues']
        REG[c.name]=reg
        extra=sorted(written-reg)
        if extra or order_issues:
            print(f'{c.name:36s} unregistered-but-written={extra}')
            for i in sorted(set(order_issues)): print('      ..',i)
