(* DESIGN PROBE (not framework code): the generic merge-tree theorem behind C01 / C12 / C03.
   A metric is abstracted into a monoid through [alpha]/[beta]; the theorem is proved once. *)
From Coq Require Import List Permutation Lia.
Import ListNotations.

Record Metric := {
  cfg : Type; st : Type; batch : Type; out : Type;
  init : cfg -> st;
  valid : cfg -> batch -> Prop;
  upd : cfg -> st -> batch -> st;
  mrg : cfg -> st -> list st -> st;
  cmp : cfg -> st -> out }.

Record Alg (M : Metric) := {
  A : Type; e : A; op : A -> A -> A;
  op_assoc : forall x y z, op x (op y z) = op (op x y) z;
  op_e_l : forall x, op e x = x;
  op_e_r : forall x, op x e = x;
  alpha : cfg M -> st M -> A;
  beta : cfg M -> batch M -> A;
  gamma : cfg M -> A -> out M;
  reach : cfg M -> st M -> Prop;
  reach_init : forall c, reach c (init M c);
  alpha_init : forall c, alpha c (init M c) = e;
  upd_hom : forall c s b, reach c s -> valid M c b ->
      alpha c (upd M c s b) = op (alpha c s) (beta c b) /\ reach c (upd M c s b);
  mrg_hom : forall c s ms, reach c s -> Forall (reach c) ms ->
      alpha c (mrg M c s ms) = fold_left op (map (alpha c) ms) (alpha c s) /\ reach c (mrg M c s ms);
  cmp_fac : forall c s, reach c s -> cmp M c s = gamma c (alpha c s) }.

Section Generic.
Variable M : Metric.
Variable L : Alg M.
Variable c : cfg M.
Notation "x ** y" := (op M L x y) (at level 40, left associativity).

Inductive mtree := Shard (bs : list (batch M)) | Merge (t : mtree) (others : list mtree) (post : list (batch M)).

Fixpoint run (t : mtree) : st M :=
  match t with
  | Shard bs => fold_left (upd M c) bs (init M c)
  | Merge t os post => fold_left (upd M c) post (mrg M c (run t) (map run os))
  end.
Fixpoint stream (t : mtree) : list (batch M) :=
  match t with
  | Shard bs => bs
  | Merge t os post => stream t ++ flat_map stream os ++ post
  end.

Definition prod (l : list (A M L)) := fold_left (op M L) l (e M L).

Lemma fold_op_acc : forall l a, fold_left (op M L) l a = a ** prod l.
Proof.
  unfold prod. induction l as [|x l IH]; intros a; cbn.
  - symmetry; apply op_e_r.
  - rewrite IH, (IH (e M L ** x)), op_e_l, op_assoc. reflexivity.
Qed.
Lemma prod_app l1 l2 : prod (l1 ++ l2) = prod l1 ** prod l2.
Proof. unfold prod at 1. rewrite fold_left_app, fold_op_acc. reflexivity. Qed.

Lemma prod_cons x l : prod (x :: l) = x ** prod l.
Proof. change (x :: l) with ([x] ++ l). rewrite prod_app. unfold prod at 1. cbn. rewrite op_e_l. reflexivity. Qed.

Lemma updates_hom : forall bs s, reach M L c s -> Forall (valid M c) bs ->
  alpha M L c (fold_left (upd M c) bs s) = alpha M L c s ** prod (map (beta M L c) bs)
  /\ reach M L c (fold_left (upd M c) bs s).
Proof.
  induction bs as [|b bs IH]; intros s Hr Hv; cbn [fold_left map].
  - split; [symmetry; apply op_e_r|assumption].
  - inversion Hv as [|? ? Hb Hbs]; subst.
    destruct (upd_hom M L c s b Hr Hb) as [Ha Hr'].
    destruct (IH _ Hr' Hbs) as [IH1 IH2]. split; [|assumption].
    rewrite IH1, Ha, prod_cons, op_assoc. reflexivity.
Qed.

(* nested induction principle for mtree *)
Fixpoint mtree_ind' (P : mtree -> Prop)
  (HS : forall bs, P (Shard bs))
  (HM : forall t os post, P t -> Forall P os -> P (Merge t os post)) (t : mtree) : P t :=
  match t with
  | Shard bs => HS bs
  | Merge t os post =>
      HM t os post (mtree_ind' P HS HM t)
        ((fix go (l : list mtree) : Forall P l :=
            match l with [] => Forall_nil _ | x :: r => Forall_cons _ (mtree_ind' P HS HM x) (go r) end) os)
  end.

Theorem merge_tree_sound : forall t, Forall (valid M c) (stream t) ->
  alpha M L c (run t) = prod (map (beta M L c) (stream t)) /\ reach M L c (run t).
Proof.
  induction t as [bs|t os post IHt IHos] using mtree_ind'; intros Hv; cbn [run stream] in *.
  - destruct (updates_hom bs _ (reach_init M L c) Hv) as [H1 H2]. split; [|assumption].
    rewrite H1, alpha_init, op_e_l. reflexivity.
  - apply Forall_app in Hv as [Hvt Hv']. apply Forall_app in Hv' as [Hvo Hvp].
    destruct (IHt Hvt) as [IHa IHr].
    assert (Hos : Forall (reach M L c) (map run os) /\
                  prod (map (alpha M L c) (map run os)) = prod (map (beta M L c) (flat_map stream os))).
    { clear -IHos Hvo. induction os as [|o os IH]; [split; [constructor|reflexivity]|].
      cbn [map flat_map] in *.
      inversion IHos as [|? ? Ho Hos']; subst. apply Forall_app in Hvo as [Hv1 Hv2].
      destruct (Ho Hv1) as [Ha Hr]. destruct (IH Hos' Hv2) as [IHf IHp]. split; [constructor; assumption|].
      rewrite map_app, prod_app, <- IHp, <- Ha, prod_cons. reflexivity. }
    destruct Hos as [Hro Hpo].
    destruct (mrg_hom M L c _ _ IHr Hro) as [Hm Hmr].
    destruct (updates_hom post _ Hmr Hvp) as [Hu Hur]. split; [|assumption].
    rewrite Hu, Hm, fold_op_acc, IHa, Hpo, !map_app, !prod_app, op_assoc. reflexivity.
Qed.

Corollary merge_tree_compute : forall t, Forall (valid M c) (stream t) ->
  cmp M c (run t) = gamma M L c (prod (map (beta M L c) (stream t))).
Proof. intros t Hv. destruct (merge_tree_sound t Hv) as [Ha Hr]. rewrite (cmp_fac M L c _ Hr), Ha. reflexivity. Qed.

(* commutative case: the result depends only on the multiset of batches *)
Hypothesis op_comm : forall x y, x ** y = y ** x.
Lemma prod_perm : forall l l', Permutation l l' -> prod l = prod l'.
Proof.
  induction 1 as [| x l l' _ IH | x y l | l1 l2 l3 _ IH1 _ IH2].
  - reflexivity.
  - change (x :: l) with ([x] ++ l). change (x :: l') with ([x] ++ l'). rewrite !prod_app, IH. reflexivity.
  - change (y :: x :: l) with ([y] ++ [x] ++ l). change (x :: y :: l) with ([x] ++ [y] ++ l).
    rewrite !prod_app, !op_assoc, (op_comm (prod [y])). reflexivity.
  - congruence.
Qed.
Corollary merge_tree_any_sharding : forall t t',
  Forall (valid M c) (stream t) -> Forall (valid M c) (stream t') ->
  Permutation (stream t) (stream t') -> cmp M c (run t) = cmp M c (run t').
Proof.
  intros t t' Hv Hv' Hp. rewrite !merge_tree_compute by assumption. f_equal.
  apply prod_perm, Permutation_map, Hp.
Qed.
End Generic.
Print Assumptions merge_tree_any_sharding.
