(* DESIGN PROBE (not framework code): C08 -- the row-by-row DP of _edit_distance equals the
   Levenshtein prefix recurrence.  Prefixes are represented by their reversals so that the
   recurrence D(i,j) is structural. *)
From Coq Require Import List Arith Lia.
Import ListNotations.

Section ED.
Variable tok : Type.
Variable teq : tok -> tok -> bool.

(* D on reversed prefixes, exactly the code's recurrence:
   equal last tokens -> diagonal; otherwise 1 + min(up, left, diagonal) *)
Fixpoint lev (ra rb : list tok) {struct ra} : nat :=
  match ra with
  | [] => length rb
  | x :: ra' =>
      (fix inner (rb : list tok) : nat :=
         match rb with
         | [] => length ra
         | y :: rb' => if teq x y then lev ra' rb'
                       else S (Nat.min (lev ra' rb) (Nat.min (inner rb') (lev ra' rb')))
         end) rb
  end.

Lemma lev_nil_r ra : lev ra [] = length ra.
Proof. destruct ra; reflexivity. Qed.
Lemma lev_cons x ra y rb : lev (x :: ra) (y :: rb) =
  if teq x y then lev ra rb else S (Nat.min (lev ra (y :: rb)) (Nat.min (lev (x :: ra) rb) (lev ra rb))).
Proof. reflexivity. Qed.

(* the code: dp row for prefix a[:i], as a list indexed by j = 0..|b| *)
(* next_row x prev b : given prev = row i-1, build row i for token x.
   [left] is dp[i][j-1], [diag] is dp[i-1][j-1]; prev' iterates dp[i-1][j..] *)
Fixpoint fill (x : tok) (left diag : nat) (prev' : list nat) (b : list tok) : list nat :=
  match b, prev' with
  | y :: b', up :: prev'' =>
      let v := if teq x y then diag else S (Nat.min up (Nat.min left diag)) in
      v :: fill x v up prev'' b'
  | _, _ => []
  end.
Definition next_row (x : tok) (prev : list nat) (b : list tok) : list nat :=
  match prev with
  | d0 :: prev' => S d0 :: fill x (S d0) d0 prev' b
  | [] => []
  end.
Definition row0 (b : list tok) : list nat := seq 0 (S (length b)).
Definition edit_distance (a b : list tok) : nat :=
  last (fold_left (fun row x => next_row x row b) a (row0 b)) 0.

(* specification row: D(ra, every prefix of b) *)
(* prefixes of b as reversed lists, shortest first: revprefs [] b = [[]; [b0]; [b1;b0]; ...] *)
Fixpoint revprefs (acc : list tok) (b : list tok) : list (list tok) :=
  acc :: match b with [] => [] | y :: b' => revprefs (y :: acc) b' end.
Definition spec_row (ra : list tok) (b : list tok) : list nat := map (lev ra) (revprefs [] b).

Definition tailprefs (acc : list tok) (b : list tok) : list (list tok) :=
  match b with [] => [] | y :: b' => revprefs (y :: acc) b' end.
Lemma revprefs_unfold acc b : revprefs acc b = acc :: tailprefs acc b.
Proof. destruct b; reflexivity. Qed.

Lemma fill_spec x ra : forall b acc,
  fill x (lev (x :: ra) acc) (lev ra acc) (map (lev ra) (tailprefs acc b)) b
  = map (lev (x :: ra)) (tailprefs acc b).
Proof.
  induction b as [|y b IH]; intros acc; [reflexivity|].
  unfold tailprefs. rewrite (revprefs_unfold (y :: acc) b). cbn [map fill].
  rewrite <- lev_cons. f_equal. apply IH.
Qed.

Lemma next_row_spec x ra b : next_row x (spec_row ra b) b = spec_row (x :: ra) b.
Proof.
  unfold spec_row, next_row. rewrite (revprefs_unfold [] b). cbn [map].
  rewrite (lev_nil_r ra).
  replace (S (length ra)) with (lev (x :: ra) []) by reflexivity.
  f_equal. rewrite <- (lev_nil_r ra). exact (fill_spec x ra b []).
Qed.

Lemma row0_spec b : row0 b = spec_row [] b.
Proof.
  unfold row0, spec_row. cbn [lev].
  assert (H : forall b acc, seq (length acc) (S (length b)) = map (@length tok) (revprefs acc b)).
  { induction b0 as [|y b0 IH]; intros acc; [reflexivity|]. cbn [revprefs map length seq]. f_equal. apply (IH (y :: acc)). }
  exact (H b []).
Qed.

Lemma rows_spec : forall a ra b, fold_left (fun row x => next_row x row b) a (spec_row ra b) = spec_row (rev a ++ ra) b.
Proof.
  induction a as [|x a IH]; intros ra b; [reflexivity|].
  cbn [fold_left rev]. rewrite next_row_spec, IH, <- app_assoc. reflexivity.
Qed.

Lemma last_revprefs (f : list tok -> nat) : forall b acc, last (map f (revprefs acc b)) 0 = f (rev b ++ acc).
Proof.
  induction b as [|y b IH]; intros acc; [reflexivity|].
  cbn [revprefs map rev]. rewrite <- app_assoc. cbn [app].
  rewrite <- IH. destruct b; reflexivity.
Qed.

Theorem edit_distance_recurrence a b : edit_distance a b = lev (rev a) (rev b).
Proof.
  unfold edit_distance. rewrite row0_spec, rows_spec, app_nil_r. unfold spec_row.
  rewrite last_revprefs, app_nil_r. reflexivity.
Qed.
End ED.
Print Assumptions edit_distance_recurrence.
