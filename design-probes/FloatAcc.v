(* DESIGN PROBE (not framework code): C19 -- integer-valued accumulators with explicit
   round-to-nearest-even to p significand bits, and torch's promotion rule for
   "float_state += int64_count".  Exact below 2^p, saturating above for p = 24. *)
From Coq Require Import ZArith Bool Lia.
Open Scope Z_scope.

(* round a non-negative integer to p significant bits, ties to even *)
Definition rne (p z : Z) : Z :=
  let e := Z.max 0 (Z.log2 z + 1 - p) in
  let q := z / 2 ^ e in
  let r := z mod 2 ^ e in
  let half := 2 ^ (e - 1) in
  if e =? 0 then z
  else if (half <? r) || ((r =? half) && Z.odd q) then (q + 1) * 2 ^ e else q * 2 ^ e.

Inductive kind := F32 | F64 | I64 | PyInt.
Definition acc_add (k : kind) (a d : Z) : Z :=
  match k with
  | F32 => rne 24 (a + rne 24 d)          (* the int64 addend is converted to float32 first *)
  | F64 => rne 53 (a + rne 53 d)
  | I64 => (a + d + 2 ^ 63) mod 2 ^ 64 - 2 ^ 63
  | PyInt => a + d
  end.

Lemma rne_exact p z : 0 < p -> 0 <= z <= 2 ^ p -> rne p z = z.
Proof.
  intros Hp [Hz Hle]. unfold rne.
  destruct (Z.eq_dec z (2 ^ p)) as [->|Hne].
  - rewrite Z.log2_pow2 by lia. replace (Z.max 0 (p + 1 - p)) with 1 by lia. cbn [Z.eqb].
    change (2 ^ 1) with 2. change (2 ^ (1 - 1)) with 1.
    assert (E : 2 ^ p = 2 * 2 ^ (p - 1)) by (rewrite <- Z.pow_succ_r by lia; f_equal; lia).
    rewrite E, Z.mul_comm, Z_mod_mult, Z.div_mul by lia. cbn. lia.
  - assert (Hlog : Z.log2 z < p).
    { destruct (Z.eq_dec z 0) as [->|Hnz]; [cbn; lia|apply Z.log2_lt_pow2; lia]. }
    replace (Z.max 0 (Z.log2 z + 1 - p)) with 0 by lia. reflexivity.
Qed.

Theorem acc_exact_wide k a d : k <> F32 -> 0 <= a -> 0 <= d -> a + d <= 2 ^ 53 -> acc_add k a d = a + d.
Proof.
  intros Hk Ha Hd Hs. destruct k; [congruence| | |reflexivity]; unfold acc_add.
  - rewrite (rne_exact 53 d) by lia. apply rne_exact; lia.
  - assert (2 ^ 53 < 2 ^ 63) by (apply Z.pow_lt_mono_r; lia).
    rewrite Z.mod_small; [lia|]. assert (2 ^ 64 = 2 * 2 ^ 63) by (change 64 with (Z.succ 63); rewrite Z.pow_succ_r; lia). lia.
Qed.

(* the float32 accumulator stops counting at 2^24 *)
Theorem acc_f32_saturates_refuted : exists a d, 0 <= a /\ 0 < d /\ a + d <= 2 ^ 53 /\ acc_add F32 a d <> a + d.
Proof. exists (2 ^ 24), 1. repeat split; try (vm_compute; congruence); vm_compute; discriminate. Qed.

(* agreement with what torch printed in the probe run: 16777216+1, 16777216+3, 16777216+16777217 *)
Example torch_f32_1 : acc_add F32 16777216 1 = 16777216. Proof. reflexivity. Qed.
Example torch_f32_2 : acc_add F32 16777216 3 = 16777220. Proof. reflexivity. Qed.
Example torch_f32_3 : acc_add F32 16777216 16777217 = 33554432. Proof. reflexivity. Qed.
Print Assumptions acc_exact_wide.
