(* DESIGN PROBE (not framework code): the code's "take the diagonal when tokens match"
   recurrence equals the textbook Levenshtein recurrence
   D(i,j) = min(D(i-1,j)+1, D(i,j-1)+1, D(i-1,j-1)+[x<>y]); needs the 1-Lipschitz property. *)
From Coq Require Import List Arith Lia.
Import ListNotations.
Require Import EditDistance.

Section STD.
Variable tok : Type.
Variable teq : tok -> tok -> bool.
Notation lev := (lev tok teq).

Fixpoint lev_std (ra rb : list tok) {struct ra} : nat :=
  match ra with
  | [] => length rb
  | x :: ra' =>
      (fix inner (rb : list tok) : nat :=
         match rb with
         | [] => length ra
         | y :: rb' => Nat.min (S (lev_std ra' rb))
                        (Nat.min (S (inner rb')) (lev_std ra' rb' + if teq x y then 0 else 1))
         end) rb
  end.
Lemma lev_std_cons x ra y rb : lev_std (x :: ra) (y :: rb) =
  Nat.min (S (lev_std ra (y :: rb))) (Nat.min (S (lev_std (x :: ra) rb)) (lev_std ra rb + if teq x y then 0 else 1)).
Proof. reflexivity. Qed.
Lemma lev_std_nil_r ra : lev_std ra [] = length ra.
Proof. destruct ra; reflexivity. Qed.

Lemma lipschitz : forall n ra rb, length ra + length rb <= n -> forall x y,
  lev ra (y :: rb) <= S (lev ra rb) /\ lev (x :: ra) rb <= S (lev ra rb) /\
  lev ra rb <= S (lev ra (y :: rb)) /\ lev ra rb <= S (lev (x :: ra) rb).
Proof.
  induction n as [|n IH]; intros ra rb Hn x y.
  - destruct ra, rb; cbn in Hn; try lia. cbn. destruct (teq x y); lia.
  - destruct ra as [|x' ra'].
    + (* ra = [] *)
      assert (Hnil : forall l, lev [] l = length l) by reflexivity.
      destruct rb as [|y' rb'].
      * cbn. lia.
      * destruct (IH [] rb' ltac:(cbn in *; lia) x y) as (_ & H2 & _ & H4).
        rewrite (lev_cons _ _ x [] y' rb'), !Hnil in *. cbn [length] in *.
        destruct (teq x y'); lia.
    + destruct rb as [|y' rb'].
      * rewrite !lev_nil_r, !lev_cons. cbn [length]. rewrite !lev_nil_r.
        destruct (IH ra' [] ltac:(cbn in *; lia) x y) as (H1 & _ & H3 & _). rewrite lev_nil_r in H1, H3.
        cbn [length]. destruct (teq x' y); lia.
      * cbn [length] in Hn.
        destruct (IH ra' (y' :: rb') ltac:(cbn; lia) x' y) as (A1 & A2 & A3 & A4).
        destruct (IH (x' :: ra') rb' ltac:(cbn; lia) x y') as (B1 & B2 & B3 & B4).
        destruct (IH ra' rb' ltac:(lia) x' y') as (C1 & C2 & C3 & C4).
        destruct (IH ra' rb' ltac:(lia) x' y) as (D1 & _ & D3 & _).
        destruct (IH ra' rb' ltac:(lia) x y') as (_ & E2 & _ & E4).
        repeat split.
        -- rewrite (lev_cons _ _ x' ra' y (y' :: rb')). destruct (teq x' y); lia.
        -- rewrite (lev_cons _ _ x (x' :: ra') y' rb'). destruct (teq x y'); lia.
        -- rewrite (lev_cons _ _ x' ra' y (y' :: rb')). destruct (teq x' y); lia.
        -- rewrite (lev_cons _ _ x (x' :: ra') y' rb'). destruct (teq x y'); lia.
Qed.

Theorem lev_is_textbook : forall ra rb, lev ra rb = lev_std ra rb.
Proof.
  induction ra as [|x ra IHa]; intros rb; [reflexivity|].
  induction rb as [|y rb IHb]; [rewrite lev_nil_r, lev_std_nil_r; reflexivity|].
  rewrite lev_cons, lev_std_cons, <- !IHa, <- IHb.
  destruct (lipschitz _ ra rb (le_n _) x y) as (L1 & L2 & L3 & L4).
  destruct (teq x y); lia.
Qed.
End STD.
Print Assumptions lev_is_textbook.
