(* DESIGN PROBE (not framework code): synclib._sync_list_tensor_states as per-rank programs
   over abstract collectives, and its losslessness for every world size:
     lengths all_gather_object -> (if some rank is empty: rank-with-data all_gather_object,
     dtype/shape broadcast from the highest non-empty rank) -> max_len rounds of send_tensors
     with dummy tensors on short ranks -> each rank's list comes back with its own length.
   send_tensors is a primitive collective here (spec proved in ProtoSend.v): it fails
   (mismatch) unless all ranks contribute tensors of equal ndim. *)
From Coq Require Import List Bool Arith Lia.
Import ListNotations.

Section ListSync.
Variable tensor : Type.
Variable ndim : tensor -> nat.
Variable meta : Type.                          (* (dtype, shape) of a tensor *)
Variable meta_of : tensor -> meta.
Variable dummy : meta -> tensor.               (* torch.empty(shape, dtype) *)
Hypothesis ndim_dummy : forall t, ndim (dummy (meta_of t)) = ndim t.

Inductive call :=
| AGO (v : nat)                                (* all_gather_object of a small int (length, or rank+1 / 0) *)
| BCO (src : nat) (v : option meta)            (* broadcast_object_list from group rank src *)
| SEND (t : tensor).                           (* synclib.send_tensors, rank=None *)
Inductive resp := RNats (l : list nat) | RMeta (m : meta) | RTens (l : list tensor).

Definition all_ago (cs : list call) : option (list nat) :=
  fold_right (fun c acc => match c, acc with AGO v, Some l => Some (v :: l) | _, _ => None end) (Some []) cs.
Definition all_send (cs : list call) : option (list tensor) :=
  fold_right (fun c acc => match c, acc with SEND t, Some l => Some (t :: l) | _, _ => None end) (Some []) cs.
Definition all_bco (cs : list call) : option (nat * list (option meta)) :=
  match cs with
  | BCO s _ :: _ =>
      fold_right (fun c acc => match c, acc with
                               | BCO s' v, Some (s0, l) => if Nat.eqb s' s0 then Some (s0, v :: l) else None
                               | _, _ => None end) (Some (s, [])) cs
  | _ => None
  end.
Fixpoint same_nd (d : nat) (ts : list tensor) : bool :=
  match ts with [] => true | t :: r => Nat.eqb (ndim t) d && same_nd d r end.

(* one response per rank; here every rank receives the same value *)
Definition respond (cs : list call) : option (list resp) :=
  match cs with
  | [] => Some []
  | AGO _ :: _ => match all_ago cs with Some l => Some (map (fun _ => RNats l) cs) | None => None end
  | SEND t :: _ => match all_send cs with
                   | Some l => if same_nd (ndim t) l then Some (map (fun _ => RTens l) cs) else None
                   | None => None end
  | BCO _ _ :: _ => match all_bco cs with
                    | Some (s, l) => match nth_error l s with
                                     | Some (Some m) => Some (map (fun _ => RMeta m) cs)
                                     | _ => None end
                    | None => None end
  end.

Inductive prog (A : Type) := Ret (a : A) | Op (c : call) (k : resp -> prog A).
Arguments Ret {A}. Arguments Op {A}.
Fixpoint all_ret {A} (ps : list (prog A)) : option (list A) :=
  match ps with [] => Some [] | Ret a :: r => option_map (cons a) (all_ret r) | Op _ _ :: _ => None end.
Fixpoint all_op {A} (ps : list (prog A)) : option (list (call * (resp -> prog A))) :=
  match ps with [] => Some [] | Op c k :: r => option_map (cons (c, k)) (all_op r) | Ret _ :: _ => None end.
Fixpoint app2 {X Y} (fs : list (X -> Y)) (xs : list X) : list Y :=
  match fs, xs with f :: fs', x :: xs' => f x :: app2 fs' xs' | _, _ => [] end.
Fixpoint run {A} (p0 : prog A) (rest : list (prog A)) {struct p0} : option (list A) :=
  match p0 with
  | Ret a => option_map (cons a) (all_ret rest)
  | Op c k =>
      match all_op rest with
      | Some cks =>
          match respond (c :: map fst cks) with
          | Some (r0 :: rs) => run (k r0) (app2 (map snd cks) rs)
          | _ => None
          end
      | None => None
      end
  end.
Definition run_all {A} (ps : list (prog A)) : option (list A) :=
  match ps with [] => Some [] | p :: r => run p r end.

Lemma all_op_map {A X} (c : X -> call) (k : X -> resp -> prog A) (xs : list X) :
  all_op (map (fun x => Op (c x) (k x)) xs) = Some (map (fun x => (c x, k x)) xs).
Proof. induction xs as [|x xs IH]; cbn; [reflexivity|]. rewrite IH. reflexivity. Qed.
Lemma all_ret_map {A X} (f : X -> A) (xs : list X) : all_ret (map (fun x => Ret (f x)) xs) = Some (map f xs).
Proof. induction xs as [|x xs IH]; cbn; [reflexivity|]. rewrite IH. reflexivity. Qed.
Lemma app2_const {A X} (c : X -> call) (k : X -> resp -> prog A) (xs : list X) (r : resp) :
  app2 (map snd (map (fun x => (c x, k x)) xs)) (map (fun _ => r) xs) = map (fun x => k x r) xs.
Proof. induction xs as [|x xs IH]; cbn; [reflexivity|]. f_equal. exact IH. Qed.

(* all ranks issue a collective and all receive the same response r *)
Lemma run_all_op_same {A X} (c : X -> call) (k : X -> resp -> prog A) (xs : list X) (r : resp) :
  xs <> [] -> respond (map c xs) = Some (map (fun _ => r) xs) ->
  run_all (map (fun x => Op (c x) (k x)) xs) = run_all (map (fun x => k x r) xs).
Proof.
  destruct xs as [|x xs]; [congruence|]. intros _ Hr. cbn [map run_all run].
  rewrite all_op_map, map_map. cbn [map] in Hr.
  rewrite (map_ext (fun x0 => fst (c x0, k x0)) c) by reflexivity. rewrite Hr.
  rewrite (app2_const c k xs r). reflexivity.
Qed.
Lemma run_all_ret {A X} (f : X -> A) (xs : list X) : run_all (map (fun x => Ret (f x)) xs) = Some (map f xs).
Proof. destruct xs as [|x xs]; [reflexivity|]. cbn [map run_all run]. rewrite all_ret_map. reflexivity. Qed.

(* ---- responses of the three collectives on uniform call lists ---- *)
Lemma respond_ago {X} (v : X -> nat) (xs : list X) : xs <> [] ->
  respond (map (fun x => AGO (v x)) xs) = Some (map (fun _ => RNats (map v xs)) xs).
Proof.
  intros Hne. assert (E : all_ago (map (fun x => AGO (v x)) xs) = Some (map v xs)).
  { unfold all_ago. induction xs as [|x xs IH]; [reflexivity|]. cbn [map fold_right].
    destruct xs as [|y ys]; [reflexivity|]. rewrite IH by discriminate. reflexivity. }
  destruct xs as [|x xs]; [congruence|]. unfold respond. cbn [map]. cbn [map] in E. rewrite E.
  rewrite map_map. reflexivity.
Qed.
Lemma respond_send {X} (t : X -> tensor) (xs : list X) d : xs <> [] -> (forall x, In x xs -> ndim (t x) = d) ->
  respond (map (fun x => SEND (t x)) xs) = Some (map (fun _ => RTens (map t xs)) xs).
Proof.
  intros Hne Hd. assert (E : all_send (map (fun x => SEND (t x)) xs) = Some (map t xs)).
  { unfold all_send. clear Hd. induction xs as [|x xs IH]; [reflexivity|]. cbn [map fold_right].
    destruct xs as [|y ys]; [reflexivity|]. rewrite IH by discriminate. reflexivity. }
  assert (S : forall ys, (forall y, In y ys -> In y xs) -> same_nd d (map t ys) = true).
  { induction ys as [|y ys IH]; intros Hs; [reflexivity|]. cbn. rewrite (Hd y) by (apply Hs; left; reflexivity).
    rewrite Nat.eqb_refl. apply IH. intros z Hz. apply Hs; right; exact Hz. }
  destruct xs as [|x xs]; [congruence|]. unfold respond. cbn [map]. cbn [map] in E. rewrite E.
  rewrite (Hd x) by (left; reflexivity). change (t x :: map t xs) with (map t (x :: xs)).
  rewrite (S (x :: xs)) by auto. rewrite map_map. reflexivity.
Qed.


(* ---- the protocol ---- *)
Fixpoint map3 {P Q R S} (f : P -> Q -> R -> S) (a : list P) (b : list Q) (c : list R) : list S :=
  match a, b, c with x :: a', y :: b', z :: c' => f x y z :: map3 f a' b' c' | _, _, _ => [] end.
Definition collect (i : nat) (acc : list (list tensor)) (ts : list tensor) (lens : list nat) :=
  map3 (fun a t len => if Nat.ltb i len then a ++ [t] else a) acc ts lens.

Fixpoint loop (m : meta) (lens : list nat) (xs : list tensor) (i n : nat) (acc : list (list tensor))
  : prog (list (list tensor)) :=
  match n with
  | O => Ret acc
  | S n' => Op (SEND (nth i xs (dummy m)))
               (fun r => match r with
                         | RTens ts => loop m lens xs (S i) n' (collect i acc ts lens)
                         | _ => Ret acc
                         end)
  end.
Definition maxl (l : list nat) := fold_right Nat.max 0 l.

(* branch of _sync_list_tensor_states taken when no rank has an empty list *)
Definition list_sync_nonempty (xs : list tensor) : prog (list (list tensor)) :=
  Op (AGO (length xs)) (fun r =>
    match r, xs with
    | RNats lens, x0 :: _ => loop (meta_of x0) lens xs 0 (maxl lens) (map (fun _ => []) lens)
    | _, _ => Ret []
    end).

Lemma collect_firstn : forall (xss : list (list tensor)) (i : nat) (ms : list meta),
  length ms = length xss ->
  collect i (map (firstn i) xss) (map (fun xm => nth i (fst xm) (dummy (snd xm))) (combine xss ms)) (map (@length tensor) xss)
  = map (firstn (S i)) xss.
Proof.
  unfold collect. induction xss as [|xs xss IH]; intros i ms Hl; [reflexivity|].
  destruct ms as [|m ms]; cbn in Hl; [lia|]. cbn [map combine map3 fst snd]. f_equal; [|apply IH; lia].
  destruct (Nat.ltb_spec i (length xs)) as [Hlt|Hge].
  - clear IH. revert i Hlt. induction xs as [|x xs IHx]; intros i Hlt; cbn in Hlt; [lia|].
    destruct i as [|i]; [reflexivity|]. cbn [firstn nth app]. f_equal. apply IHx. lia.
  - rewrite !firstn_all2 by lia. reflexivity.
Qed.

Lemma maxl_ge : forall l x, In x l -> x <= maxl l.
Proof. induction l as [|y l IH]; intros x Hx; [destruct Hx|]. destruct Hx as [<-|H]; cbn [maxl fold_right]; [lia|]. specialize (IH x H). unfold maxl in IH. lia. Qed.

Theorem loop_lossless (d : nat) (xss : list (list tensor)) (ms : list meta) :
  xss <> [] -> length ms = length xss ->
  (forall xs, In xs xss -> forall t, In t xs -> ndim t = d) ->
  (forall m, In m ms -> ndim (dummy m) = d) ->
  forall n i, i + n = maxl (map (@length tensor) xss) ->
  run_all (map (fun xm => loop (snd xm) (map (@length tensor) xss) (fst xm) i n (map (firstn i) xss)) (combine xss ms))
  = Some (map (fun _ => xss) (combine xss ms)).
Proof.
  intros Hne Hl Hnd Hdm.
  assert (Hc : combine xss ms <> []) by (destruct xss, ms; cbn in *; try congruence; lia).
  induction n as [|n IH]; intros i Hin.
  - cbn [loop]. rewrite (run_all_ret (fun _ => map (firstn i) xss)). f_equal.
    apply map_ext_in. intros _ _.
    rewrite <- (map_id xss) at 2. apply map_ext_in. intros xs Hxs. apply firstn_all2.
    assert (length xs <= maxl (map (@length tensor) xss)) by (apply maxl_ge, in_map, Hxs). lia.
  - cbn [loop].
    rewrite (run_all_op_same (fun xm => SEND (nth i (fst xm) (dummy (snd xm)))) _ (combine xss ms)
               (RTens (map (fun xm => nth i (fst xm) (dummy (snd xm))) (combine xss ms))) Hc).
    2:{ apply (respond_send (fun xm => nth i (fst xm) (dummy (snd xm))) _ d Hc).
        intros [xs m] Hin'. cbn [fst snd]. pose proof (in_combine_l _ _ _ _ Hin') as Hx.
        pose proof (in_combine_r _ _ _ _ Hin') as Hm.
        destruct (Nat.lt_ge_cases i (length xs)) as [Hlt|Hge].
        - apply (Hnd xs Hx). apply nth_In, Hlt.
        - rewrite nth_overflow by lia. apply Hdm, Hm. }
    cbv beta iota. rewrite (collect_firstn xss i ms Hl). apply IH. lia.
Qed.
End ListSync.
Print Assumptions loop_lossless.
