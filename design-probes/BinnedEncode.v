(* DESIGN PROBE (not framework code): C06 item 2 -- the flattened histogram index used by the
   'memory' optimisation, 2*(C*idx + class) + hit, is a bijection onto [0, 2*T*C) that
   hist.reshape(T, C, 2) decodes, so 'memory' counts the same (idx, class, hit) cells as the
   'vectorized' broadcast comparison. *)
From Coq Require Import ZArith Lia.
Open Scope Z_scope.

Definition enc (C i c b : Z) : Z := 2 * (C * i + c) + b.
(* reshape(T, C, 2): flat position p holds cell (p / (2C), (p / 2) mod C, p mod 2) *)
Lemma decode C i c b : 0 < C -> 0 <= c < C -> 0 <= b < 2 ->
  enc C i c b / (2 * C) = i /\ (enc C i c b / 2) mod C = c /\ enc C i c b mod 2 = b.
Proof.
  unfold enc. intros HC Hc Hb.
  assert (E1 : (2 * (C * i + c) + b) / (2 * C) = i).
  { symmetry. apply (Z.div_unique _ _ i (2 * c + b)); [left; lia|ring]. }
  assert (E2 : (2 * (C * i + c) + b) / 2 = C * i + c).
  { symmetry. apply (Z.div_unique _ _ (C * i + c) b); [left; lia|ring]. }
  repeat split; [exact E1| |].
  - rewrite E2. symmetry. apply (Z.mod_unique _ _ i c); [left; lia|ring].
  - symmetry. apply (Z.mod_unique _ _ (C * i + c) b); [left; lia|ring].
Qed.
Lemma enc_inj C i c b i' c' b' : 0 < C -> 0 <= c < C -> 0 <= c' < C -> 0 <= b < 2 -> 0 <= b' < 2 ->
  enc C i c b = enc C i' c' b' -> i = i' /\ c = c' /\ b = b'.
Proof.
  intros HC Hc Hc' Hb Hb' E.
  destruct (decode C i c b HC Hc Hb) as (D1 & D2 & D3).
  destruct (decode C i' c' b' HC Hc' Hb') as (D1' & D2' & D3').
  rewrite E in D1, D2, D3. repeat split; congruence.
Qed.
Lemma enc_range C T i c b : 0 < C -> 0 <= i < T -> 0 <= c < C -> 0 <= b < 2 -> 0 <= enc C i c b < 2 * T * C.
Proof. unfold enc. intros. nia. Qed.
(* a sample below the first threshold (idx = -1) falls out of the histogram range *)
Lemma enc_below C c b : 0 < C -> 0 <= c < C -> 0 <= b < 2 -> enc C (-1) c b < 0.
Proof. unfold enc. intros. nia. Qed.
Print Assumptions decode.
