(* DESIGN PROBE (not framework code): C05 item 2 -- on a descending list, the running sums
   selected at the end of every run of equal scores (what cumsum(...)[mask] computes in
   _compute_for_each_class) are, for each distinct score d, the total positive / negative
   weight of the samples scored at or above d.  Builds on AurocCore.v. *)
From Coq Require Import ZArith List Bool Lia Sorted.
Import ListNotations.
Require Import AurocCore.
Open Scope Z_scope.

Definition Pge (t : Z) (l : list sample) := sumZ (fun b => if t <=? sc b then pw b else 0) l.
Definition Nge (t : Z) (l : list sample) := sumZ (fun b => if t <=? sc b then nw b else 0) l.

Lemma ge_cons t x r : Pge t (x :: r) = (if t <=? sc x then pw x else 0) + Pge t r
                   /\ Nge t (x :: r) = (if t <=? sc x then nw x else 0) + Nge t r.
Proof. split; reflexivity. Qed.

Lemma ge_lt_zero t r : Forall (fun b => sc b < t) r -> Pge t r = 0 /\ Nge t r = 0.
Proof.
  unfold Pge, Nge. induction r as [|b r IH]; intros H; [split; reflexivity|].
  inversion H as [|? ? Hb Hr]; subst. rewrite !sumZ_cons. destruct (IH Hr) as [-> ->].
  destruct (Z.leb_spec t (sc b)); [lia|]. split; ring.
Qed.

Lemma groups_scores_in : forall r g, In g (groups r) -> exists y, In y r /\ fst g = sc y.
Proof.
  induction r as [|x r IH]; intros g Hg; [destruct Hg|].
  rewrite groups_cons in Hg. destruct (groups r) as [|[s [P N]] gs] eqn:E.
  - destruct Hg as [<-|[]]. exists x. split; [left; reflexivity|reflexivity].
  - destruct (Z.eqb_spec (sc x) s) as [Es|Es].
    + destruct Hg as [<-|Hg].
      * exists x. split; [left; reflexivity|cbn; lia].
      * destruct (IH g (or_intror Hg)) as (y & Hy & Hf). exists y. split; [right; exact Hy|exact Hf].
    + destruct Hg as [<-|Hg].
      * exists x. split; [left; reflexivity|reflexivity].
      * destruct (IH g Hg) as (y & Hy & Hf). exists y. split; [right; exact Hy|exact Hf].
Qed.

Theorem scan_is_count_ge : forall l aP aN, desc l ->
  scan aP aN (groups l) = map (fun g => (aP + Pge (fst g) l, aN + Nge (fst g) l)) (groups l).
Proof.
  induction l as [|x r IH]; intros aP aN Hd; [reflexivity|].
  pose proof (desc_head_max _ _ Hd) as Hmax.
  assert (Hd' : desc r) by (inversion Hd; assumption).
  (* every group score of r is <= sc x *)
  assert (Hle : forall g, In g (groups r) -> fst g <= sc x).
  { intros g Hg. destruct (groups_scores_in r g Hg) as (y & Hy & ->). rewrite Forall_forall in Hmax. apply Hmax, Hy. }
  assert (Htail : forall gs, (forall g, In g gs -> In g (groups r)) ->
            map (fun g => (aP + pw x + Pge (fst g) r, aN + nw x + Nge (fst g) r)) gs
            = map (fun g => (aP + Pge (fst g) (x :: r), aN + Nge (fst g) (x :: r))) gs).
  { intros gs Hsub. apply map_ext_in. intros g Hg. destruct (ge_cons (fst g) x r) as [-> ->].
    specialize (Hle g (Hsub g Hg)). destruct (Z.leb_spec (fst g) (sc x)); [|lia]. f_equal; ring. }
  rewrite groups_cons. specialize (IH (aP + pw x) (aN + nw x) Hd').
  pose proof (eq_head_group r Hd') as Hh.
  destruct (groups r) as [|[s [P N]] gs] eqn:Hg.
  - apply groups_nil_inv in Hg; subst r. cbn [scan map fst]. destruct (ge_cons (sc x) x []) as [-> ->].
    rewrite Z.leb_refl. cbn. f_equal. f_equal; ring.
  - destruct Hh as [HP HN].
    destruct (groups_head_inv _ _ _ _ _ Hg) as (y & r' & Hr & Hs). 
    destruct (Z.eqb_spec (sc x) s) as [E|E].
    + (* x joins the head group of r *)
      cbn [scan] in IH |- *. cbn [map fst] in IH |- *. inversion IH as [[H1 H2 H3]].
      replace (aP + (P + pw x)) with (aP + pw x + P) by ring.
      replace (aN + (N + nw x)) with (aN + nw x + N) by ring.
      rewrite H3. rewrite (Htail gs) by (intros g Hgi; right; exact Hgi).
      f_equal. destruct (ge_cons s x r) as [-> ->]. destruct (Z.leb_spec s (sc x)); [|lia].
      (* Pge s r = Peq s r = P because nothing in r exceeds s *)
      assert (Hge : Pge s r = P /\ Nge s r = N).
      { rewrite <- HP, <- HN. unfold Pge, Nge, Peq, Neq. split; apply sumZ_ext_in; intros b Hb;
          rewrite Forall_forall in Hmax; specialize (Hmax b Hb);
          destruct (Z.leb_spec s (sc b)); destruct (Z.eqb_spec (sc b) s); try reflexivity; lia. }
      destruct Hge as [-> ->]. f_equal; ring.
    + (* x opens a new group: everything in r scores strictly less *)
      change (scan aP aN ((sc x, (pw x, nw x)) :: (s, (P, N)) :: gs))
        with ((aP + pw x, aN + nw x) :: scan (aP + pw x) (aN + nw x) ((s, (P, N)) :: gs)).
      rewrite IH. cbn [map fst].
      assert (Hlt : Forall (fun b => sc b < sc x) r).
      { subst r. pose proof (desc_head_max _ _ Hd') as Hy. inversion Hmax as [|? ? Hyx _]; subst.
        constructor; [lia|]. eapply Forall_impl; [|exact Hy]. cbn beta. intros; lia. }
      destruct (ge_lt_zero _ _ Hlt) as [Z1 Z2].
      destruct (ge_cons (sc x) x r) as [-> ->]. rewrite Z.leb_refl, Z1, Z2.
      f_equal; [f_equal; ring|].
      change ((aP + pw x + Pge s r, aN + nw x + Nge s r) :: map (fun g => (aP + pw x + Pge (fst g) r, aN + nw x + Nge (fst g) r)) gs)
        with (map (fun g => (aP + pw x + Pge (fst g) r, aN + nw x + Nge (fst g) r)) ((s, (P, N)) :: gs)).
      rewrite (Htail ((s, (P, N)) :: gs)) by (intros g Hgi; exact Hgi). reflexivity.
Qed.

(* the curve has exactly one point per distinct score, with the counting semantics *)
Corollary prc_points_spec : forall l, desc l ->
  collapse 0 0 l = map (fun g => (Pge (fst g) l, Nge (fst g) l)) (groups l).
Proof. intros l Hd. rewrite collapse_scan, scan_is_count_ge by exact Hd. reflexivity. Qed.
Print Assumptions prc_points_spec.
