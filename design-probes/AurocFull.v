(* DESIGN PROBE (not framework code): from the torch pipeline of _binary_auroc_compute_jit
   (sort, diff-mask, cumsum, masked select, right-aligned zero padding, trapezoid) on ANY
   input order to the pairwise statistic.  Builds on AurocCore.v. *)
From Coq Require Import ZArith List Bool Lia Sorted Permutation.
Import ListNotations.
Require Import AurocCore.
Open Scope Z_scope.

(* torch-level primitives *)
Fixpoint cumsum (acc : Z) (l : list Z) : list Z :=
  match l with [] => [] | x :: r => (acc + x) :: cumsum (acc + x) r end.
(* F.pad(threshold.diff() != 0, [0,1], value=1): true at the last element of every run *)
Fixpoint mask (l : list Z) : list bool :=
  match l with
  | [] => []
  | x :: r => match r with [] => [true] | y :: _ => negb (x =? y) :: mask r end
  end.
Fixpoint select {A} (m : list bool) (l : list A) : list A :=
  match m, l with b :: m', x :: l' => if b then x :: select m' l' else select m' l' | _, _ => [] end.
Definition leftpad (n : nat) (l : list Z) : list Z := repeat 0 (n - length l) ++ l.
Fixpoint zip (a b : list Z) : list (Z * Z) :=
  match a, b with x :: a', y :: b' => (x, y) :: zip a' b' | _, _ => [] end.

Definition torch_points (l : list sample) : list (Z * Z) :=
  let m := mask (map sc l) in
  let n := length l in
  zip (leftpad n (select m (cumsum 0 (map pw l)))) (leftpad n (select m (cumsum 0 (map nw l)))).

Lemma mask_cons2 x y r : mask (x :: y :: r) = negb (x =? y) :: mask (y :: r).
Proof. reflexivity. Qed.

Lemma cumsum_cons acc x r : cumsum acc (x :: r) = (acc + x) :: cumsum (acc + x) r.
Proof. reflexivity. Qed.
Lemma select_cons {A} b m (x : A) l : select (b :: m) (x :: l) = if b then x :: select m l else select m l.
Proof. reflexivity. Qed.

Lemma select_collapse : forall l aP aN,
  zip (select (mask (map sc l)) (cumsum aP (map pw l))) (select (mask (map sc l)) (cumsum aN (map nw l)))
  = collapse aP aN l.
Proof.
  induction l as [|x r IH]; intros aP aN; [reflexivity|].
  destruct r as [|y r'].
  - reflexivity.
  - specialize (IH (aP + pw x) (aN + nw x)). cbn [map] in *.
    rewrite mask_cons2, collapse_cons2, (cumsum_cons aP), (cumsum_cons aN), !select_cons.
    destruct (sc x =? sc y); cbn [negb zip]; rewrite IH; reflexivity.
Qed.

(* zero padding on the left only adds zero-area segments *)
Lemma trapz2_zeros : forall k pts, trapz2 (repeat (0, 0) k ++ (0, 0) :: pts) = trapz2 ((0, 0) :: pts).
Proof.
  induction k as [|k IH]; intros pts; [reflexivity|].
  cbn [repeat app]. destruct k as [|k'].
  - cbn [repeat app]. rewrite trapz2_cons2. cbn [fst snd]. lia.
  - cbn [repeat app] in *. rewrite trapz2_cons2. cbn [fst snd]. rewrite IH. lia.
Qed.

Lemma zip_app : forall a1 b1 a2 b2, length a1 = length b1 -> zip (a1 ++ a2) (b1 ++ b2) = zip a1 b1 ++ zip a2 b2.
Proof.
  induction a1 as [|x a1 IH]; intros [|y b1] a2 b2 H; cbn in *; try lia; [reflexivity|]. f_equal. apply IH. lia.
Qed.
Lemma zip_repeat0 k : zip (repeat 0 k) (repeat 0 k) = repeat (0, 0) k.
Proof. induction k; cbn; congruence. Qed.
Lemma zip_length_l : forall a b, length a = length b -> length (zip a b) = length a.
Proof. induction a as [|x a IH]; intros [|y b] H; cbn in *; try lia. rewrite IH; lia. Qed.
Lemma select_length {A B} : forall m (a : list A) (b : list B), length a = length b ->
  length (select m a) = length (select m b).
Proof.
  induction m as [|c m IH]; intros [|x a] [|y b] H; cbn in *; try lia. destruct c; cbn; rewrite (IH a b); lia.
Qed.
Lemma cumsum_length : forall l acc, length (cumsum acc l) = length l.
Proof. induction l; intros; cbn; [reflexivity|]. rewrite IHl. reflexivity. Qed.

(* binary labels: every sample carries positive weight or negative weight, not both *)
Definition one_sided (l : list sample) := Forall (fun x => pw x * nw x = 0) l.

Lemma collapse_length_le : forall l aP aN, (length (collapse aP aN l) <= length l)%nat.
Proof.
  induction l as [|x r IH]; intros; [cbn; lia|]. destruct r as [|y r'].
  - cbn. lia.
  - rewrite collapse_cons2. destruct (sc x =? sc y); cbn [length]; specialize (IH (aP + pw x) (aN + nw x)); cbn [length] in *; lia.
Qed.

(* when nothing is padded (all scores distinct) the first segment from (0,0) has zero area *)
Lemma collapse_full_first : forall l aP aN, l <> [] -> length (collapse aP aN l) = length l ->
  exists x r, l = x :: r /\ exists pts, collapse aP aN l = (aP + pw x, aN + nw x) :: pts.
Proof.
  intros [|x r] aP aN Hne Hlen; [congruence|]. exists x, r. split; [reflexivity|].
  destruct r as [|y r']; [eexists; reflexivity|].
  rewrite collapse_cons2 in *. destruct (sc x =? sc y); [|eexists; reflexivity].
  pose proof (collapse_length_le (y :: r') (aP + pw x) (aN + nw x)). cbn [length] in *. lia.
Qed.

Theorem torch_area : forall l, one_sided l ->
  trapz2 (torch_points l) = area2 l.
Proof.
  intros l Hos. unfold torch_points, area2, leftpad.
  set (m := mask (map sc l)).
  set (cp := select m (cumsum 0 (map pw l))). set (cn := select m (cumsum 0 (map nw l))).
  assert (Hlen : length cp = length cn).
  { unfold cp, cn. apply select_length. rewrite !cumsum_length, !map_length. reflexivity. }
  assert (Hz : zip cp cn = collapse 0 0 l) by apply select_collapse.
  rewrite Hlen, zip_app, zip_repeat0, Hz by (rewrite !repeat_length; reflexivity).
  assert (Hcl : length (collapse 0 0 l) = length cn) by (rewrite <- Hz, zip_length_l; auto).
  destruct (Nat.eq_dec (length l - length cn) 0) as [E|E].
  - (* no padding *)
    rewrite E. cbn [repeat app].
    destruct l as [|x0 r0]; [reflexivity|].
    pose proof (collapse_length_le (x0 :: r0) 0 0) as Hle.
    destruct (collapse_full_first (x0 :: r0) 0 0 ltac:(discriminate) ltac:(lia)) as (x & r & Hl & pts & Hc).
    inversion Hl; subst x r. rewrite Hc, trapz2_cons2. cbn [fst snd].
    inversion Hos as [|? ? Hx _]; subst. nia.
  - destruct (length l - length cn)%nat as [|k] eqn:Ek; [congruence|].
    replace (repeat (0, 0) (S k)) with (repeat (0, 0) k ++ [(0, 0)]).
    2:{ clear. induction k; cbn; [reflexivity|]. f_equal. exact IHk. }
    rewrite <- app_assoc. cbn [app]. apply trapz2_zeros.
Qed.

(* permutation invariance of the pairwise statistic *)
Lemma sumZ_perm {A} (f : A -> Z) l l' : Permutation l l' -> sumZ f l = sumZ f l'.
Proof. unfold sumZ. induction 1; cbn in *; lia. Qed.
Lemma U2_perm l l' : Permutation l l' -> U2 l = U2 l'.
Proof.
  intros H. unfold U2. rewrite (sumZ_perm _ _ _ H). apply sumZ_ext_in. intros a _. apply sumZ_perm, H.
Qed.

(* the final statement: any admissible descending sort of the input *)
Theorem auroc_numerator_pairwise : forall l l',
  Permutation l l' -> desc l' -> one_sided l ->
  trapz2 (torch_points l') = U2 l.
Proof.
  intros l l' Hp Hd Hos.
  assert (Hos' : one_sided l').
  { unfold one_sided in *. rewrite Forall_forall in *. intros x Hx. apply Hos. eapply Permutation_in; [symmetry; exact Hp|exact Hx]. }
  rewrite torch_area by exact Hos'. rewrite area2_pairwise by exact Hd. symmetry. apply U2_perm, Hp.
Qed.
Print Assumptions auroc_numerator_pairwise.
