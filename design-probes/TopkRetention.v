(* DESIGN PROBE (not framework code): C08 / C12 -- incremental top-k retention of
   RetrievalPrecision.update_single_query loses nothing the final top-k needs:
     topk k (topk k A ++ B) = topk k (A ++ B)      for pairwise distinct scores
   (ties are excluded by the property itself: torch.topk's tie order is unspecified).
   Route: merge view.  Scores are integers on a grid; labels ride along with the score. *)
From Coq Require Import ZArith List Bool Lia Sorted Permutation Sorting.Mergesort Orders.
Import ListNotations.
Open Scope Z_scope.

Module DescZ <: TotalLeBool.
  Definition t := Z.
  Definition leb (a b : Z) := Z.leb b a.
  Theorem leb_total : forall a b, leb a b = true \/ leb b a = true.
  Proof. intros a b; unfold leb; destruct (Z.leb_spec b a); destruct (Z.leb_spec a b); auto; lia. Qed.
End DescZ.
Module S := Sort DescZ.

Definition topk (k : nat) (l : list Z) : list Z := firstn k (S.sort l).
Definition sdesc (l : list Z) := StronglySorted (fun a b => b < a) l.    (* strictly descending *)
Definition wdesc (l : list Z) := StronglySorted (fun a b => is_true (DescZ.leb a b)) l.

Lemma leb_trans : Transitive (fun x y => is_true (DescZ.leb x y)).
Proof. intros a b c. unfold DescZ.leb, is_true. rewrite !Z.leb_le. lia. Qed.

Lemma wdesc_nodup_sdesc l : wdesc l -> NoDup l -> sdesc l.
Proof.
  unfold wdesc, sdesc. induction 1 as [|a r Hr IH Ha]; intros Hnd; [constructor|].
  inversion Hnd as [|? ? Hnin Hnd']; subst. constructor; [apply IH, Hnd'|].
  rewrite Forall_forall in *. intros b Hb. specialize (Ha b Hb).
  unfold DescZ.leb, is_true in Ha. rewrite Z.leb_le in Ha. assert (b <> a) by (intros ->; auto). lia.
Qed.
Lemma sort_sdesc l : NoDup l -> sdesc (S.sort l).
Proof.
  intros Hnd. apply wdesc_nodup_sdesc; [apply (S.StronglySorted_sort l leb_trans)|].
  eapply Permutation_NoDup; [apply S.Permuted_sort|exact Hnd].
Qed.
Lemma merge_sdesc a b : sdesc a -> sdesc b -> NoDup (a ++ b) -> sdesc (S.merge a b).
Proof.
  intros Ha Hb Hnd. apply wdesc_nodup_sdesc.
  - apply Sorted_StronglySorted; [exact leb_trans|]. apply Sorted_LocallySorted_iff.
    apply S.Sorted_merge; apply Sorted_LocallySorted_iff; apply StronglySorted_Sorted.
    + eapply StronglySorted_ind with (P := wdesc); [constructor| |exact Ha].
      intros x l _ IH Hall. constructor; [exact IH|]. rewrite Forall_forall in *. intros y Hy. specialize (Hall y Hy).
      unfold DescZ.leb, is_true. rewrite Z.leb_le. lia.
    + eapply StronglySorted_ind with (P := wdesc); [constructor| |exact Hb].
      intros x l _ IH Hall. constructor; [exact IH|]. rewrite Forall_forall in *. intros y Hy. specialize (Hall y Hy).
      unfold DescZ.leb, is_true. rewrite Z.leb_le. lia.
  - eapply Permutation_NoDup; [apply S.Permuted_merge|exact Hnd].
Qed.

(* two strictly descending lists with the same elements are equal *)
Lemma sdesc_ext : forall s1 s2, sdesc s1 -> sdesc s2 -> (forall x, In x s1 <-> In x s2) -> s1 = s2.
Proof.
  induction s1 as [|a s1 IH]; intros s2 H1 H2 He.
  - destruct s2 as [|b s2]; [reflexivity|]. exfalso. apply (He b). left; reflexivity.
  - destruct s2 as [|b s2]; [exfalso; apply (He a); left; reflexivity|].
    inversion H1 as [|? ? H1' A1]; inversion H2 as [|? ? H2' A2]; subst. rewrite Forall_forall in A1, A2.
    assert (a = b).
    { destruct (proj1 (He a) (or_introl eq_refl)) as [->|Ha]; [reflexivity|].
      destruct (proj2 (He b) (or_introl eq_refl)) as [->|Hb]; [reflexivity|].
      specialize (A1 b Hb). specialize (A2 a Ha). lia. }
    subst b. f_equal. apply IH; try assumption. intros x. split; intros Hx.
    + destruct (proj1 (He x) (or_intror Hx)) as [->|H]; [specialize (A1 _ Hx); lia|exact H].
    + destruct (proj2 (He x) (or_intror Hx)) as [->|H]; [specialize (A2 _ Hx); lia|exact H].
Qed.
Lemma sdesc_perm_eq s1 s2 : sdesc s1 -> sdesc s2 -> Permutation s1 s2 -> s1 = s2.
Proof.
  intros H1 H2 Hp. apply sdesc_ext; try assumption. intros x. split; intros Hx;
    [eapply Permutation_in; [exact Hp|exact Hx] | eapply Permutation_in; [symmetry; exact Hp|exact Hx]].
Qed.

(* ---- the structural fact about merge: the first k outputs only look at the first k of a ---- *)
Lemma merge_cons2 x a y b : S.merge (x :: a) (y :: b) =
  if DescZ.leb x y then x :: S.merge a (y :: b) else y :: S.merge (x :: a) b.
Proof. reflexivity. Qed.
Lemma merge_nil_r a : S.merge a [] = a. Proof. destruct a; reflexivity. Qed.
Lemma merge_nil_l b : S.merge [] b = b. Proof. destruct b; reflexivity. Qed.

Lemma firstn_merge_l : forall k a b, firstn k (S.merge a b) = firstn k (S.merge (firstn k a) b).
Proof.
  induction k as [|k IHk]; intros a b; [reflexivity|].
  revert a. induction b as [|y b IHb]; intros a.
  - rewrite !merge_nil_r. rewrite firstn_firstn, Nat.min_id. reflexivity.
  - induction a as [|x a IHa]; [reflexivity|].
    rewrite firstn_cons, !merge_cons2. destruct (DescZ.leb x y).
    + rewrite !firstn_cons. f_equal. apply IHk.
    + rewrite !firstn_cons. f_equal.
      (* both sides: first k of a merge whose left list starts with x *)
      rewrite (IHk (x :: a) b), (IHk (x :: firstn k a) b). f_equal. f_equal.
      destruct k as [|k']; [reflexivity|]. rewrite !firstn_cons. f_equal.
      rewrite firstn_firstn. f_equal. lia.
Qed.

Lemma in_firstn {A} : forall (l : list A) k x, In x (firstn k l) -> In x l.
Proof. intros l k x H. rewrite <- (firstn_skipn k l). apply in_or_app. left; exact H. Qed.
Lemma firstn_sdesc : forall s k, sdesc s -> sdesc (firstn k s).
Proof.
  induction s as [|h t IH]; intros k Hs; [rewrite firstn_nil; constructor|].
  destruct k; [constructor|]. inversion Hs as [|? ? Hs' Hall]; subst. cbn. constructor; [apply IH, Hs'|].
  rewrite Forall_forall in *. intros x Hx. apply Hall. eapply in_firstn. exact Hx.
Qed.
Lemma nodup_app_l {A} (a b : list A) : NoDup (a ++ b) -> NoDup a.
Proof. induction a as [|x a IH]; intros H; [constructor|]. cbn in H. inversion H; subst. constructor; [intros Hx; apply H2, in_or_app; left; exact Hx|apply IH; assumption]. Qed.
Lemma nodup_app_r {A} (a b : list A) : NoDup (a ++ b) -> NoDup b.
Proof. induction a as [|x a IH]; intros H; [exact H|]. cbn in H. inversion H; subst. apply IH; assumption. Qed.
Lemma nodup_firstn_app {A} (a b : list A) k : NoDup (a ++ b) -> NoDup (firstn k a ++ b).
Proof.
  revert k. induction a as [|x a IH]; intros k H; [rewrite firstn_nil; exact H|].
  destruct k; [cbn; eapply nodup_app_r; exact H|]. cbn in *. inversion H; subst. constructor; [|apply IH; assumption].
  intros Hx. apply H2. apply in_app_or in Hx as [Hx|Hx]; apply in_or_app; [left; eapply in_firstn; exact Hx|right; exact Hx].
Qed.

Theorem topk_retention A B k : NoDup (A ++ B) -> topk k (topk k A ++ B) = topk k (A ++ B).
Proof.
  intros Hnd. unfold topk.
  pose proof (nodup_app_l _ _ Hnd) as HndA. pose proof (nodup_app_r _ _ Hnd) as HndB.
  pose proof (sort_sdesc A HndA) as HsA. pose proof (sort_sdesc B HndB) as HsB.
  assert (HndS : NoDup (S.sort A ++ S.sort B)).
  { eapply Permutation_NoDup; [|exact Hnd]. apply Permutation_app; apply S.Permuted_sort. }
  (* sort (A ++ B) = merge (sort A) (sort B) *)
  assert (E1 : S.sort (A ++ B) = S.merge (S.sort A) (S.sort B)).
  { apply sdesc_perm_eq; [apply sort_sdesc, Hnd|apply merge_sdesc; assumption|].
    rewrite <- S.Permuted_sort. rewrite <- S.Permuted_merge. apply Permutation_app; apply S.Permuted_sort. }
  (* sort (firstn k (sort A) ++ B) = merge (firstn k (sort A)) (sort B) *)
  set (A' := firstn k (S.sort A)).
  assert (HndA' : NoDup (A' ++ S.sort B)) by (apply nodup_firstn_app, HndS).
  assert (Hnd1 : NoDup (A' ++ B)).
  { eapply Permutation_NoDup; [|exact HndA']. apply Permutation_app; [reflexivity|symmetry; apply S.Permuted_sort]. }
  assert (E2 : S.sort (A' ++ B) = S.merge A' (S.sort B)).
  { apply sdesc_perm_eq; [apply sort_sdesc, Hnd1|apply merge_sdesc; [apply firstn_sdesc, HsA|exact HsB|exact HndA']|].
    rewrite <- S.Permuted_sort. rewrite <- S.Permuted_merge. apply Permutation_app; [reflexivity|apply S.Permuted_sort]. }
  rewrite E1, E2. unfold A'. symmetry. apply firstn_merge_l.
Qed.
Print Assumptions topk_retention.
