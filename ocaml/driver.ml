(* Trusted glue: reads "<id> <model> <val>" per line, prints "<id> <val>".
   val syntax:  12 | -3 | 3/4 | #t | #f | ( v ... ) | [tag v ...]
   Big integers go through Zarith <-> extracted Coq Z. *)
module ZA = Z
module OS = String
type ostring = string
open Model

let rec pos_of_zt (n : ZA.t) : positive =
  if ZA.equal n ZA.one then XH
  else if ZA.is_even n then XO (pos_of_zt (ZA.shift_right n 1))
  else XI (pos_of_zt (ZA.shift_right n 1))
let z_of_zt (n : ZA.t) : z =
  if ZA.sign n = 0 then Z0 else if ZA.sign n > 0 then Zpos (pos_of_zt n) else Zneg (pos_of_zt (ZA.neg n))
let rec zt_of_pos = function
  | XH -> ZA.one | XO p -> ZA.shift_left (zt_of_pos p) 1 | XI p -> ZA.succ (ZA.shift_left (zt_of_pos p) 1)
let zt_of_z = function Z0 -> ZA.zero | Zpos p -> zt_of_pos p | Zneg p -> ZA.neg (zt_of_pos p)

let coq_string (s : ostring) : string =
  let rec go i = if i >= OS.length s then EmptyString else
    let c = Char.code s.[i] in
    let b k = (c lsr k) land 1 = 1 in
    String (Ascii (b 0, b 1, b 2, b 3, b 4, b 5, b 6, b 7), go (i + 1)) in go 0
let ocaml_string (s : string) : ostring =
  let buf = Buffer.create 16 in
  let rec go = function
    | EmptyString -> ()
    | String (Ascii (b0,b1,b2,b3,b4,b5,b6,b7), r) ->
      let v x k = if x then 1 lsl k else 0 in
      Buffer.add_char buf (Char.chr (v b0 0 + v b1 1 + v b2 2 + v b3 3 + v b4 4 + v b5 5 + v b6 6 + v b7 7)); go r in
  go s; Buffer.contents buf

(* tokenizer *)
let tokens (s : ostring) : ostring list =
  let n = OS.length s in
  let out = ref [] in
  let i = ref 0 in
  while !i < n do
    let c = s.[!i] in
    if c = ' ' || c = '\t' || c = '\r' then incr i
    else if c = '(' || c = ')' || c = '[' || c = ']' then (out := OS.make 1 c :: !out; incr i)
    else begin
      let j = ref !i in
      while !j < n && not (List.mem s.[!j] [' '; '\t'; '('; ')'; '['; ']'; '\r']) do incr j done;
      out := OS.sub s !i (!j - !i) :: !out; i := !j
    end
  done; List.rev !out

exception Parse of ostring
let rec parse (ts : ostring list) : val0 * ostring list =
  match ts with
  | [] -> raise (Parse "eof")
  | "(" :: r -> let (l, r') = parse_list r ")" in (VL l, r')
  | "[" :: tag :: r -> let (l, r') = parse_list r "]" in (VT (coq_string tag, l), r')
  | "#t" :: r -> (VB true, r)
  | "#f" :: r -> (VB false, r)
  | t :: r ->
    (match OS.index_opt t '/' with
     | Some k -> let a = ZA.of_string (OS.sub t 0 k) and b = ZA.of_string (OS.sub t (k + 1) (OS.length t - k - 1)) in
       (VQ (z_of_zt a, pos_of_zt b), r)
     | None -> (VZ (z_of_zt (ZA.of_string t)), r))
and parse_list ts close =
  match ts with
  | [] -> raise (Parse "unclosed")
  | t :: r when t = close -> ([], r)
  | _ -> let (v, r) = parse ts in let (l, r') = parse_list r close in (v :: l, r')

let rec print buf (v : val0) =
  match v with
  | VZ z -> Buffer.add_string buf (ZA.to_string (zt_of_z z))
  | VQ (n, d) -> Buffer.add_string buf (ZA.to_string (zt_of_z n)); Buffer.add_char buf '/'; Buffer.add_string buf (ZA.to_string (zt_of_pos d))
  | VB b -> Buffer.add_string buf (if b then "#t" else "#f")
  | VL l -> Buffer.add_char buf '('; List.iteri (fun i x -> if i > 0 then Buffer.add_char buf ' '; print buf x) l; Buffer.add_char buf ')'
  | VT (t, l) -> Buffer.add_char buf '['; Buffer.add_string buf (ocaml_string t); List.iter (fun x -> Buffer.add_char buf ' '; print buf x) l; Buffer.add_char buf ']'

let () =
  try while true do
    let line = input_line stdin in
    match tokens line with
    | id :: name :: rest ->
      let buf = Buffer.create 256 in
      (try
        let (v, _) = parse rest in
        print buf (dispatch (coq_string name) v)
      with Parse m -> Buffer.add_string buf ("[parse-error]")
         | Stack_overflow -> Buffer.add_string buf ("[stack-overflow]"));
      print_string id; print_char ' '; print_endline (Buffer.contents buf)
    | _ -> ()
  done with End_of_file -> ()
