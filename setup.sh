#!/bin/bash
# Build the framework from files on disk only (offline): regenerate the translated Coq files from
# /repo, build the whole Coq development (.vo) and the extracted OCaml model.
set -e
cd "$(dirname "$0")"
export VERIF_REPO=${VERIF_REPO:-/repo}
export PYTHONPATH=$VERIF_REPO:$(pwd) PYTHONHASHSEED=0 TORCHEVAL_VERIF=1 OMP_NUM_THREADS=1
/venv/bin/python -m vlib.setup
