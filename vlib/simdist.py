"""In-process CHECKING TRANSPORT for torch.distributed (DESIGN 2.2, T-trace).

`torch.distributed` is monkey-patched from outside the repo with a thread + condition-variable
implementation of the five collectives synclib uses.  Every rank is a thread; a collective is a
rendezvous of all members of the group (groups are keyed by their tuple of global ranks).  The
transport
  * records, per rank, the sequence of collectives with kind, root, shape and dtype (the TRACE),
  * compares the descriptors of all members at every rendezvous and raises `CollectiveMismatch`
    on every member instead of hanging when they differ,
  * raises `CollectiveMismatch` on the waiting members when a peer has already returned / raised
    (the real transports would hang or abort there),
  * reproduces torch's rank-local argument validation (gather_list on dst only, global rank not
    part of the group) -- roots are GLOBAL ranks, exactly as in torch.distributed.
Nothing inside /repo is touched; `Sim.__exit__` restores the original functions.
"""
from __future__ import annotations
import copy
import threading
import time
import torch
import torch.distributed as dist


class CollectiveMismatch(RuntimeError):
    pass


class SimGroup:
    """A process group: the ordered list of global ranks of its members."""

    def __init__(self, ranks):
        self.ranks = list(ranks)

    def __repr__(self):
        return f"SimGroup({self.ranks})"


def dtype_name(dt) -> str:
    return str(dt).replace("torch.", "")


class World:
    def __init__(self, n, delays=None, timeout=20.0):
        self.n = n
        self.tls = threading.local()
        self.cv = threading.Condition()
        self.WORLD = SimGroup(range(n))
        self.groups = {}                       # key -> {'gen', 'slots', 'results'}
        self.trace = {r: [] for r in range(n)}
        self.finished = [False] * n
        self.delays = delays or {}
        self.timeout = timeout

    def rank(self):
        return self.tls.rank

    def finish(self, r):
        with self.cv:
            self.finished[r] = True
            self.cv.notify_all()

    def rendezvous(self, group, desc, payload, local_error=None):
        """All members of [group] exchange (desc, payload).  Returns the payloads in group order.
        Descriptor mismatch, or a peer that has already left => CollectiveMismatch on every waiting
        member.  `local_error`: an exception torch would raise on this rank before communicating;
        it is raised here after the round is decided (peers get CollectiveMismatch: they would hang)."""
        g = group or self.WORLD
        me = self.rank()
        self.trace[me].append(desc)
        d = self.delays.get(me)
        if d:
            time.sleep(d * (1 + len(self.trace[me]) % 3))
        key = tuple(g.ranks)
        n = len(g.ranks)
        with self.cv:
            st = self.groups.setdefault(key, {"gen": 0, "slots": {}, "results": {}})
            my_gen = st["gen"]
            st["slots"][me] = (desc, payload, local_error)
            if len(st["slots"]) == n:
                st["results"][my_gen] = [dict(st["slots"]), n]
                st["slots"] = {}
                st["gen"] += 1
                self.cv.notify_all()
            else:
                t_end = time.time() + self.timeout
                while st["gen"] == my_gen:
                    if any(self.finished[m] for m in g.ranks if m not in st["slots"]):
                        break
                    left = t_end - time.time()
                    if left <= 0:
                        break
                    self.cv.wait(min(left, 0.5))
                if st["gen"] == my_gen:
                    raise CollectiveMismatch(f"rank {me}: peers never arrived at {desc}")
            res = st["results"][my_gen]
            slots = res[0]
            res[1] -= 1
            if res[1] == 0:
                del st["results"][my_gen]
        descs = {repr(slots[r][0]) for r in g.ranks}
        if len(descs) != 1:
            raise CollectiveMismatch(f"rank {me}: {sorted(descs)}")
        errs = [slots[r][2] for r in g.ranks]
        if local_error is not None:
            raise local_error
        if any(e is not None for e in errs):
            raise CollectiveMismatch(f"rank {me}: a peer raised before communicating at {desc}")
        return [slots[r][1] for r in g.ranks]


_PATCHED = ["is_available", "is_initialized", "get_world_size", "get_rank", "get_backend", "get_global_rank",
            "get_group_rank", "all_gather",
            "gather", "all_gather_object", "gather_object", "broadcast_object_list"]


class Sim:
    """Context manager: installs the transport for a world of n ranks."""

    def __init__(self, n, delays=None, timeout=20.0):
        self.world = World(n, delays, timeout)

    def __enter__(self):
        W = self.world
        self.saved = {k: getattr(dist, k) for k in _PATCHED}

        def G(group):
            return group if group is not None else W.WORLD

        def grp_rank(group):
            g = G(group)
            return g.ranks.index(W.rank()) if W.rank() in g.ranks else -1

        def not_in_group(root, g):
            return ValueError(f"Global rank {root} is not part of group {g}")

        def out_list_error(group, root, lst):
            """torch: _canonicalize_group_rank + _validate_output_list_for_rank (rank-local)"""
            g = G(group)
            if root not in g.ranks:
                return not_in_group(root, g)
            if W.rank() == root:
                if not lst:
                    return ValueError("Argument ``gather_list`` must be specified on destination rank.")
            elif lst:
                return ValueError("Argument ``gather_list`` must NOT be specified on non-destination ranks.")
            return None

        def all_gather(tensor_list, tensor, group=None, async_op=False):
            res = W.rendezvous(group, ("all_gather", tuple(tensor.shape), dtype_name(tensor.dtype)),
                               tensor.detach().clone())
            for i, t in enumerate(res):
                tensor_list[i] = t.clone()

        def gather(tensor, gather_list=None, dst=None, group=None, async_op=False, group_dst=None):
            dst = 0 if dst is None else dst
            err = out_list_error(group, dst, gather_list)
            res = W.rendezvous(group, ("gather", dst, tuple(tensor.shape), dtype_name(tensor.dtype)),
                               tensor.detach().clone(), err)
            if W.rank() == dst:
                for i, t in enumerate(res):
                    gather_list[i] = t.clone()

        def all_gather_object(object_list, obj, group=None):
            res = W.rendezvous(group, ("all_gather_object",), copy.deepcopy(obj))
            for i, o in enumerate(res):
                object_list[i] = copy.deepcopy(o)

        def gather_object(obj, object_gather_list=None, dst=None, group=None, group_dst=None):
            dst = 0 if dst is None else dst
            err = out_list_error(group, dst, object_gather_list)
            res = W.rendezvous(group, ("gather_object", dst), copy.deepcopy(obj), err)
            if W.rank() == dst:
                for i, o in enumerate(res):
                    object_gather_list[i] = copy.deepcopy(o)

        def broadcast_object_list(object_list, src=None, group=None, device=None, group_src=None):
            src = 0 if src is None else src
            g = G(group)
            err = None if src in g.ranks else not_in_group(src, g)
            res = W.rendezvous(group, ("broadcast_object_list", src, len(object_list)),
                               copy.deepcopy(list(object_list)), err)
            val = res[g.ranks.index(src)]
            for i in range(len(object_list)):
                object_list[i] = copy.deepcopy(val[i])

        dist.is_available = lambda: True
        dist.is_initialized = lambda: True
        dist.get_world_size = lambda group=None: (len(G(group).ranks) if W.rank() in G(group).ranks else -1)
        dist.get_rank = lambda group=None: grp_rank(group)
        dist.get_backend = lambda group=None: "gloo"

        def get_global_rank(group, group_rank):
            g = G(group)
            if not 0 <= group_rank < len(g.ranks):
                raise ValueError(f"Group rank {group_rank} is not part of group {g}")
            return g.ranks[group_rank]

        def get_group_rank(group, global_rank):
            g = G(group)
            if global_rank not in g.ranks:
                raise not_in_group(global_rank, g)
            return g.ranks.index(global_rank)
        dist.get_global_rank, dist.get_group_rank = get_global_rank, get_group_rank
        dist.all_gather, dist.gather = all_gather, gather
        dist.all_gather_object, dist.gather_object = all_gather_object, gather_object
        dist.broadcast_object_list = broadcast_object_list
        self.saved_world = dist.group.WORLD
        dist.group.WORLD = W.WORLD
        return self

    def __exit__(self, *a):
        for k, v in self.saved.items():
            setattr(dist, k, v)
        dist.group.WORLD = self.saved_world
        return False

    def run(self, fn, ranks=None, join=60.0):
        """Run fn(rank) on every rank (or on the listed ranks) as threads.
        Returns ({rank: ('ok', value) | ('exc', type name, message)}, {rank: trace})."""
        W = self.world
        out = {}
        ranks = list(range(W.n)) if ranks is None else list(ranks)
        for r in range(W.n):
            if r not in ranks:
                W.finished[r] = True

        def target(r):
            W.tls.rank = r
            try:
                out[r] = ("ok", fn(r))
            except CollectiveMismatch as e:
                out[r] = ("mismatch", str(e)[:200])
            except BaseException as e:  # noqa
                out[r] = ("exc", type(e).__name__, str(e)[:200])
            finally:
                W.finish(r)

        ts = [threading.Thread(target=target, args=(r,), daemon=True) for r in ranks]
        for t in ts:
            t.start()
        for t in ts:
            t.join(join)
        for r in ranks:
            out.setdefault(r, ("mismatch", "thread did not finish (hang)"))
        return out, {r: list(W.trace[r]) for r in ranks}


def run_world(n, fn, ranks=None, delays=None):
    with Sim(n, delays) as s:
        return s.run(fn, ranks)
