"""Python mirror of the Gallina checkers of coq/Models/Effects.v (alias / compute purity / commit
order / registry), used ONLY (a) by tools/tr_effects.py to decide which known-finding excuses are
still live on the current tree and (b) by the check parts to localise a failing table obligation
(class / method / field / source line).  The verdicts that count are the Coq theorems over
coq/Generated/*.v; a disagreement between this mirror and the Coq checkers makes one of the two
table theorems of the affected property fail (see DESIGN C11 and tools/tr_effects.py).

Skeletons are nested tuples:
  ('Bind', f, r) ('Append', f, r) ('BindElem', f, r) ('InPlace', f) ('Clobber', r)
  ('MayRaise', label) ('If', a, b) ('Loop', b) ('Seq', a, b) ('Skip',)
with r in ('Fresh',) ('Imm',) ('SelfAlias', g) ('SrcAlias', g) ('ArgAlias',).
"""
from __future__ import annotations

WRITES = ("Bind", "Append", "BindElem", "InPlace", "Clobber")


def atoms(sk):
    """Flattened list of effect atoms (BindElem is an Append for the may-point-to heap)."""
    if sk is None:
        return []
    t = sk[0]
    if t in ("Bind", "Append", "InPlace", "Clobber"):
        return [sk]
    if t == "BindElem":
        return [("Append", sk[1], sk[2])]
    if t in ("MayRaise", "Skip"):
        return []
    if t in ("If", "Seq"):
        return atoms(sk[1]) + atoms(sk[2])
    if t == "Loop":
        return atoms(sk[1])
    raise ValueError(sk)


def inst(sk, f):
    """Instantiate a base-class skeleton ("$f", "$default", "$out") for registered field f."""
    def fld(g):
        return {"$f": f, "$default": "default:" + f, "$out": "out:" + f}.get(g, g)

    def rhs(r):
        return (r[0], fld(r[1])) if len(r) == 2 else r
    t = sk[0]
    if t in ("Bind", "Append", "BindElem"):
        return (t, fld(sk[1]), rhs(sk[2]))
    if t == "InPlace":
        return (t, fld(sk[1]))
    if t == "Clobber":
        return (t, rhs(sk[1]))
    if t in ("If", "Seq"):
        return (t, inst(sk[1], f), inst(sk[2], f))
    if t == "Loop":
        return (t, inst(sk[1], f))
    return sk


def class_atoms(cls: dict, base: dict) -> list:
    """All atoms of all translated methods of a class + the base-class methods instantiated for
    every registered field (cls = entry of the translator report; base = report['base'])."""
    out = []
    for m, sk in cls["methods"].items():
        out += atoms(sk)
    for f, k in cls["registered"]:
        for m, per_kind in base.items():
            sk = per_kind.get(k)
            if sk is not None:
                out += atoms(inst(sk, f))
    return out


def ip_fields(P) -> set:
    return {a[1] for a in P if a[0] == "InPlace"}


def bind_ok(ip: set, f, r) -> bool:
    t = r[0]
    if t in ("Fresh", "Imm"):
        return True
    if t == "SelfAlias":
        return (f in ip) == (r[1] in ip)          # C1 / C1'
    if t == "SrcAlias":
        return f not in ip and r[1] not in ip     # C1 / C2
    if t == "ArgAlias":
        return f not in ip                        # C1
    raise ValueError(r)


def atom_ok(ip: set, a) -> bool:
    if a[0] in ("Bind", "Append"):
        return bind_ok(ip, a[1], a[2])
    if a[0] == "InPlace":
        return True
    return False                                  # Clobber


def alias_offences(P) -> list:
    ip = ip_fields(P)
    seen, out = set(), []
    for a in P:
        if not atom_ok(ip, a) and a not in seen:
            seen.add(a)
            out.append(a)
    return out


def atom_field(a):
    return a[1] if a[0] != "Clobber" else None


def purity_offences(sk, registered: set) -> list:
    """compute() must contain no in-place write at all and no (re)binding of a registered field."""
    out = []
    for a in atoms(sk):
        if a[0] in ("InPlace", "Clobber") or a[1] in registered:
            if a not in out:
                out.append(a)
    return out


# ---- commit order (CommitOrder.v): abstract run over Clean(False)/Dirty(True) ----------------

def erase(sk, discharged: set):
    t = sk[0]
    if t in WRITES:
        return ("Write",)
    if t == "MayRaise":
        return ("Skip",) if sk[1] in discharged else ("MayRaise",)
    if t in ("If", "Seq"):
        return (t, erase(sk[1], discharged), erase(sk[2], discharged))
    if t == "Loop":
        return (t, erase(sk[1], discharged))
    return ("Skip",)


def ex(s, d: bool) -> bool:
    t = s[0]
    if t == "Write":
        return True
    if t in ("MayRaise", "Skip"):
        return d
    if t == "Seq":
        return ex(s[2], ex(s[1], d))
    if t == "If":
        return ex(s[1], d) or ex(s[2], d)
    if t == "Loop":
        return ex(s[1], ex(s[1], d)) or ex(s[1], d) or d
    raise ValueError(s)


def ok(s, d: bool) -> bool:
    t = s[0]
    if t in ("Write", "Skip"):
        return True
    if t == "MayRaise":
        return not d
    if t == "Seq":
        return ok(s[1], d) and ok(s[2], ex(s[1], d))
    if t == "If":
        return ok(s[1], d) and ok(s[2], d)
    if t == "Loop":
        return ok(s[1], d) and ok(s[1], ex(s[1], d))
    raise ValueError(s)


def commit_ok(sk, discharged=()) -> bool:
    return ok(erase(sk, set(discharged)), False)


def dirty_raises(sk, discharged=()) -> list:
    """Labels of the MayRaise sites that the abstract run meets in state Dirty (localisation)."""
    found = []
    D = set(discharged)

    def go(s, d):
        t = s[0]
        if t in WRITES:
            return True
        if t == "MayRaise":
            if d and s[1] not in D and s[1] not in found:
                found.append(s[1])
            return d
        if t == "Skip":
            return d
        if t == "Seq":
            return go(s[2], go(s[1], d))
        if t == "If":
            a = go(s[1], d)
            b = go(s[2], d)
            return a or b
        if t == "Loop":
            d1 = go(s[1], d)
            d2 = go(s[1], d1)
            return d2 or d1 or d
        raise ValueError(s)
    go(sk, False)
    return found


def registry_offences(cls: dict, derived=()) -> list:
    reg = {f for f, _ in cls["registered"]} | set(derived)
    return [w for w in cls["written"] if w not in reg]
