"""C05 -- AUROC, AUPRC, PR curves, recall@precision equal their definitions incl. ties.

Streams: history correspondence (state level) and functional correspondence (impl vs algo vs
spec) for the ten curve classes on tie-swept random inputs, and an exhaustive stream over all
score vectors on a 3-value grid x all label vectors (n <= 5 quick, <= 6 thorough)."""
import itertools
from fractions import Fraction
from .. import core, streams
from ..compare import close
from ..model import run_model, T
from ..families import curves as C

LEVEL_NOTE = ("algo = spec theorems over exact rationals (scores on an integer grid, weights Qc); torch sort / cumsum / "
              "masked_scatter_ / trapz semantics assumed as modelled and tied by correspondence on tie-heavy inputs; "
              "float32 rounding of the final divisions absorbed by tolerance; use_fbgemm=False only")

ENTS = C.ENTRIES


def exhaustive(ctx):
    """All score vectors over a 3-value grid x all label vectors: the four binary functionals,
    implementation vs algo model vs spec model."""
    s = ctx.stream("exhaustive-3-grid (impl vs algo vs spec)")
    s.exhaustive = True
    nmax = ctx.n(5, 6)
    by = {e.name: e for e in ENTS}
    grid = [16, 32, 48]
    targets = [(by["BinaryAUROC"], {"den": C.DEN, "num_tasks": 1}),
               (by["BinaryAUPRC"], {"den": C.DEN, "num_tasks": 1}),
               (by["BinaryPrecisionRecallCurve"], {"den": C.DEN}),
               (by["BinaryRecallAtFixedPrecision"], {"den": C.DEN, "min_precision": Fraction(1, 2)}),
               (by["BinaryRecallAtFixedPrecision"], {"den": C.DEN, "min_precision": Fraction(3, 4)})]
    inputs = []
    for n in range(1, nmax + 1):
        for xs in itertools.product(grid, repeat=n):
            for ys in itertools.product([0, 1], repeat=n):
                inputs.append((list(xs), list(ys)))
    bad = {}
    for e, cfg in targets:
        key = e.name + ("@%s" % cfg["min_precision"] if "min_precision" in cfg else "")
        cases, bs = [], []
        for xs, ys in inputs:
            if e.name in ("BinaryAUROC", "BinaryAUPRC"):
                b = {"x": [[x] for x in xs], "y": [[y] for y in ys], "w": [[Fraction(1)]] * len(xs), "wmode": "none"}
            else:
                b = {"x": xs, "y": ys}
            bs.append(b)
            cases.append((e.fn_model, [e.cfg_val(cfg), e.batch_val(cfg, b)]))
            cases.append((e.spec_model, [e.cfg_val(cfg), e.batch_val(cfg, b)]))
        outs = run_model(cases)
        for k, b in enumerate(bs):
            algo, spec = outs[2 * k], outs[2 * k + 1]
            try:
                r = e.fn_val(e.functional(cfg, b))
            except Exception:
                r = T("err")
            d = close(algo, r, e.tol)
            d2 = close(spec, algo, 0)
            xs = [v[0] if isinstance(v, list) else v for v in b["x"]]
            s.case((key, repr(b["x"]), repr(b["y"])), len(xs) >= 2 and (len(set(xs)) < len(xs)),
                   sample={"fn": key, "x": b["x"], "y": b["y"]})
            s.count("fn:" + key)
            s.count("n:%d" % len(xs))
            if d and ("impl:" + key) not in bad:
                bad["impl:" + key] = {"function": key, "cfg": cfg, "batch": b, "disagreement": d}
            if d2 and ("spec:" + key) not in bad:
                bad["spec:" + key] = {"function": key, "cfg": cfg, "batch": b, "algo_vs_spec": d2}
        ctx.oblige(f"tie:exhaustive:{key}", ("impl:" + key) not in bad, detail=repr(core.canon(bad.get("impl:" + key)))[:1500])
        ctx.oblige(f"model:exhaustive:algo=spec:{key}", ("spec:" + key) not in bad, detail=repr(core.canon(bad.get("spec:" + key)))[:1500])
    s.mismatches += list(bad.values())
    for k, v in bad.items():
        ctx.violation("failing-input", v["function"], {**v, "broken": ("tie:exhaustive:" if k.startswith("impl:") else "model:exhaustive:algo=spec:") + v["function"]})


def tie_profile(ctx):
    """Measured distribution of the generator (tie ratio, degenerate labels) for the evidence."""
    s = ctx.stream("generator-profile")
    for n in (1, 2, 5, 13, 40):
        for _ in range(40):
            xs = C.gen_scores(ctx.rng, n)
            ys = C.gen_labels(ctx.rng, n)
            s.case((tuple(xs), tuple(ys)), n >= 2)
            s.count("tie_ratio:%d%%" % (10 * int(10 * C.tie_ratio(xs))))
            s.count("labels:" + ("allpos" if all(ys) else "allneg" if not any(ys) else "mixed"))


def run(ctx):
    streams.hist_corr(ctx, ents=ENTS, nhist=ctx.n(8, 100))
    streams.fn_corr(ctx, ents=ENTS, ncases=ctx.n(45, 600), sizes=(1, 2, 3, 5, 8, 13, 40, 60) if ctx.quick else (1, 2, 3, 5, 8, 13, 40, 60, 200))
    exhaustive(ctx)
    tie_profile(ctx)
