"""C05 -- AUROC, AUPRC, PR curves, recall@precision equal their definitions incl. ties.

Streams: history correspondence (state level) and functional correspondence (impl vs algo vs
spec) for the ten curve classes on tie-swept random inputs, and an exhaustive stream over all
score vectors on a 3-value grid x all label vectors (n <= 5 quick, <= 6 thorough)."""
import itertools
from fractions import Fraction
from .. import core, streams
from ..compare import close
from ..model import run_model, T
from ..families import curves as C

LEVEL_NOTE = ("algo = spec theorems over exact rationals (scores on an integer grid, weights Qc); torch sort / cumsum / "
              "masked_scatter_ / trapz semantics assumed as modelled and tied by correspondence on tie-heavy inputs; "
              "float32 rounding of the final divisions absorbed by tolerance; use_fbgemm=False only")

ENTS = C.ENTRIES


def exhaustive(ctx):
    """All score vectors over a 3-value grid x all label vectors: the four binary functionals,
    implementation vs algo model vs spec model."""
    s = ctx.stream("exhaustive-3-grid (impl vs algo vs spec)")
    s.exhaustive = True
    nmax = ctx.n(5, 6)
    by = {e.name: e for e in ENTS}
    grid = [16, 32, 48]
    targets = [(by["BinaryAUROC"], {"den": C.DEN, "num_tasks": 1}),
               (by["BinaryAUPRC"], {"den": C.DEN, "num_tasks": 1}),
               (by["BinaryPrecisionRecallCurve"], {"den": C.DEN}),
               (by["BinaryRecallAtFixedPrecision"], {"den": C.DEN, "min_precision": Fraction(1, 2)}),
               (by["BinaryRecallAtFixedPrecision"], {"den": C.DEN, "min_precision": Fraction(3, 4)})]
    inputs = []
    for n in range(1, nmax + 1):
        for xs in itertools.product(grid, repeat=n):
            for ys in itertools.product([0, 1], repeat=n):
                inputs.append((list(xs), list(ys)))
    bad = {}
    for e, cfg in targets:
        key = e.name + ("@%s" % cfg["min_precision"] if "min_precision" in cfg else "")
        cases, bs = [], []
        for xs, ys in inputs:
            if e.name in ("BinaryAUROC", "BinaryAUPRC"):
                b = {"x": [[x] for x in xs], "y": [[y] for y in ys], "w": [[Fraction(1)]] * len(xs), "wmode": "none"}
            else:
                b = {"x": xs, "y": ys}
            bs.append(b)
            cases.append((e.fn_model, [e.cfg_val(cfg), e.batch_val(cfg, b)]))
            cases.append((e.spec_model, [e.cfg_val(cfg), e.batch_val(cfg, b)]))
        outs = run_model(cases)
        for k, b in enumerate(bs):
            algo, spec = outs[2 * k], outs[2 * k + 1]
            try:
                r = e.fn_val(e.functional(cfg, b))
            except Exception:
                r = T("err")
            d = close(algo, r, e.tol)
            d2 = close(spec, algo, 0)
            xs = [v[0] if isinstance(v, list) else v for v in b["x"]]
            s.case((key, repr(b["x"]), repr(b["y"])), len(xs) >= 2 and (len(set(xs)) < len(xs)),
                   sample={"fn": key, "x": b["x"], "y": b["y"]})
            s.count("fn:" + key)
            s.count("n:%d" % len(xs))
            if d and ("impl:" + key) not in bad:
                bad["impl:" + key] = {"function": key, "cfg": cfg, "batch": b, "disagreement": d}
            if d2 and ("spec:" + key) not in bad:
                bad["spec:" + key] = {"function": key, "cfg": cfg, "batch": b, "algo_vs_spec": d2}
        ctx.oblige(f"tie:exhaustive:{key}", ("impl:" + key) not in bad, detail=repr(core.canon(bad.get("impl:" + key)))[:1500])
        ctx.oblige(f"model:exhaustive:algo=spec:{key}", ("spec:" + key) not in bad, detail=repr(core.canon(bad.get("spec:" + key)))[:1500])
    s.mismatches += list(bad.values())
    for k, v in bad.items():
        ctx.violation("failing-input", v["function"], {**v, "broken": ("tie:exhaustive:" if k.startswith("impl:") else "model:exhaustive:algo=spec:") + v["function"]})


def tie_profile(ctx):
    """Measured distribution of the generator (tie ratio, degenerate labels) for the evidence."""
    s = ctx.stream("generator-profile")
    for n in (1, 2, 5, 13, 40):
        for _ in range(40):
            xs = C.gen_scores(ctx.rng, n)
            ys = C.gen_labels(ctx.rng, n)
            s.case((tuple(xs), tuple(ys)), n >= 2)
            s.count("tie_ratio:%d%%" % (10 * int(10 * C.tie_ratio(xs))))
            s.count("labels:" + ("allpos" if all(ys) else "allneg" if not any(ys) else "mixed"))


def _fine_scores(rng, shape_like, bases):
    """Replace every score by base + 0..6 on the 2^-40 grid (bases >= 2^32: float32 collapses each cluster)."""
    if isinstance(shape_like, list):
        return [_fine_scores(rng, v, bases) for v in shape_like]
    return rng.choice(bases) + rng.randint(0, 6)


def _collapse32(x, den):
    """What the scores become if the implementation casts them to float32 (exact, back on the grid)."""
    import torch
    if isinstance(x, list):
        return [_collapse32(v, den) for v in x]
    f = Fraction(float(torch.tensor(x / den, dtype=torch.float64).float())) * den
    return int(f)


def fine_grid(ctx):
    """Class forms on float64 scores that differ only below float32 resolution: histories
    (update x k, compute, merge, compute) on the 2^-40 grid.  A history is *discriminating* when the
    model's result changes if the scores are first rounded to float32 -- i.e. a cast of the cached
    inputs to float32 in the class would be observed; at least one such history per class is required."""
    from .. import history
    s = ctx.stream("fine-grid class histories (float64 scores, clusters below float32 resolution)")
    per = ctx.n(3, 25)
    for e in ENTS:
        cfg = [c for c in e.configs(ctx.rng, ctx.quick) if c["den"] == C.FINE_DEN][0]
        if "min_precision" in cfg:          # the bound must bite for the recall to depend on the order inside a cluster
            cfg = dict(cfg, min_precision=ctx.rng.choice([Fraction(1, 2), Fraction(3, 4)]))
        den = cfg["den"]
        found_bad, discr, tries = None, 0, 0
        while tries < per or (discr == 0 and tries < per + 12):
            tries += 1
            bases = [ctx.rng.randrange(2 ** 8, 2 ** 16) * 2 ** 24 for _ in range(ctx.rng.randint(1, 2))]
            def batch(n):
                b = e.gen_batch(ctx.rng, cfg, n)
                b["x"] = _fine_scores(ctx.rng, b["x"], bases)
                return b
            ops = [("upd", 0, batch(ctx.rng.choice([4, 6, 9]))), ("upd", 1, batch(ctx.rng.choice([3, 5, 8]))),
                   ("upd", 0, batch(ctx.rng.choice([1, 2, 7]))), ("compute", 0), ("merge", 0, [1], "list"), ("compute", 0),
                   ("prep", 0), ("compute", 0)]
            cops = [(o[0], o[1], dict(o[2], x=_collapse32(o[2]["x"], den))) if o[0] == "upd" else o for o in ops]
            mobs, cobs = run_model([history.model_case(e, cfg, 2, ops), history.model_case(e, cfg, 2, cops)])
            try:
                iobs = history.run_impl(e, cfg, 2, ops)
                d = history.compare_obs(e, ops, mobs, iobs)
            except Exception as ex:
                d = {"at": -1, "why": f"implementation raised: {type(ex).__name__}: {ex}"}
            is_d = isinstance(mobs, list) and isinstance(cobs, list) and close(mobs[5], cobs[5], e.tol) is not None
            discr += 1 if is_d else 0
            s.case((e.name, repr(ops)), is_d, sample={"class": e.name, "bases": bases, "discriminating": is_d})
            s.count("class:" + e.name)
            s.count("discriminating" if is_d else "not-discriminating")
            if d and found_bad is None:
                found_bad = {"class": e.name, "cfg": cfg, "nobj": 2, "ops": ops, "disagreement": d}
                s.mismatches.append(found_bad)
        ctx.oblige(f"tie:fine-grid:{e.name}", found_bad is None, detail=repr(core.canon(found_bad))[:1500] if found_bad else "")
        ctx.oblige(f"coverage:fine-grid-discriminates-float32-cast:{e.name}", discr > 0,
                   detail=f"{discr} of {tries} histories change under a float32 cast of the scores")
        if found_bad:
            ctx.violation("failing-input", e.name, {**found_bad, "broken": f"tie:fine-grid:{e.name}"})


def targeted(ctx):
    """Deterministically constructed inputs for two places random generation reaches rarely:
    (a) recall@precision where the best admissible curve point has precision EXACTLY equal to a non-dyadic
        bound (7/10, 3/5, 9/10, 1/3, 2/3): functional and class (update -> compute) vs the exact model;
    (b) multi-task AUROC / AUPRC whose per-row sorted scores chain across the task-row boundary
        (min(row i) == max(row i+1), all rows the same constant, clipped 0/1 scores)."""
    from .. import history
    s = ctx.stream("targeted: precision == non-dyadic bound; chained task rows")
    by = {e.name: e for e in ENTS}
    rng = ctx.rng
    items = []                                     # (group, entry, cfg, [batches])
    reps = ctx.n(3, 20)
    for p in C.MINP_NONDYADIC:
        for _ in range(reps):
            e = by["BinaryRecallAtFixedPrecision"]
            xs, ys = C.gen_exact_bound(rng, p)
            items.append(("exact-bound", e, {"den": C.DEN, "min_precision": p}, [{"x": xs, "y": ys}]))
            e = by["MultilabelRecallAtFixedPrecision"]
            L = rng.choice([2, 3])
            k, j, m = rng.choice([1, 2]), rng.choice([1, 2, 3]), rng.choice([0, 1, 2])
            cols = [C.gen_exact_bound(rng, p, C.DEN, k, j, m) for _ in range(L)]
            items.append(("exact-bound", e, {"den": C.DEN, "num_labels": L, "min_precision": p},
                          [{"x": C.T_([c[0] for c in cols]), "y": C.T_([c[1] for c in cols])}]))
    for name in ("BinaryAUROC", "BinaryAUPRC"):
        e = by[name]
        for kind in ("chained", "const", "clip"):
            for t in (2, 3):
                for _ in range(reps):
                    cfg = {"den": C.DEN, "num_tasks": t, "chain": kind}
                    items.append(("chained-rows", e, cfg, [e.gen_batch(rng, cfg, rng.choice([1, 2, 3, 5, 8]))
                                                           for _ in range(rng.choice([1, 1, 2]))]))
    cases = []
    for g, e, cfg, bs in items:
        ops = [("upd", 0, b) for b in bs] + [("compute", 0)]
        cases.append(history.model_case(e, cfg, 1, ops))
        cases.append((e.fn_model, [e.cfg_val(cfg), e.batch_val(cfg, e.concat(cfg, bs))]))
    outs = run_model(cases)
    bad = {}
    for k, (g, e, cfg, bs) in enumerate(items):
        ops = [("upd", 0, b) for b in bs] + [("compute", 0)]
        mobs, mfn = outs[2 * k], outs[2 * k + 1]
        try:
            d = history.compare_obs(e, ops, mobs, history.run_impl(e, cfg, 1, ops))
        except Exception as ex:
            d = {"why": f"implementation raised: {type(ex).__name__}: {ex}"}
        cat = e.concat(cfg, bs)
        try:
            r = e.fn_val(e.functional(cfg, cat))
        except Exception:
            r = T("err")
        d2 = close(mfn, r, e.tol)
        s.case((g, e.name, repr(cfg), repr(bs)), True, sample={"group": g, "class": e.name, "cfg": cfg})
        s.count(g + ":" + e.name)
        key = g + ":" + e.name
        if (d or d2) and key not in bad:
            bad[key] = {"group": g, "class": e.name, "cfg": cfg, "batches": bs,
                        "class_vs_model": d, "functional_vs_model": d2}
    for key in sorted({g + ":" + e.name for g, e, _, _ in items}):
        ctx.oblige(f"tie:targeted:{key}", key not in bad, detail=repr(core.canon(bad.get(key)))[:1500] if key in bad else "")
    for key, v in bad.items():
        s.mismatches.append(v)
        ctx.violation("failing-input", v["class"], {**v, "broken": f"tie:targeted:{key}"})


def wide_stream(ctx):
    streams.wide_corr(ctx, ENTS)


def run(ctx):
    streams.hist_corr(ctx, ents=ENTS, nhist=ctx.n(8, 100))
    streams.fn_corr(ctx, ents=ENTS, ncases=ctx.n(45, 600), sizes=(1, 2, 3, 5, 8, 13, 40, 60) if ctx.quick else (1, 2, 3, 5, 8, 13, 40, 60, 200))
    from .. import variation
    # half-precision scores too (only numbers the half formats hold exactly): default unit weights / counters must not follow the score dtype
    streams.presentation_variants(ctx, fn_ents=ENTS, hist_ents=ENTS, modes=variation.QUICK_MODES + ["bf16", "f16"],
                                  sizes=(1, 2, 3, 8, 40, 300, 600), hist_sizes=(1, 2, 5, 130, 300, 600))
    wide_stream(ctx)
    # many samples of one class in half precision (a counter / default weight kept in bfloat16 stops at 256, in float16 at 2048)
    for mode, n in (("bf16", 700), ("f16", 4500)):
        streams.hist_corr(ctx, ents=[e for e in ENTS if e.name in ("BinaryAUROC", "BinaryAUPRC", "BinaryPrecisionRecallCurve")],
                          name=f"history-correspondence [{mode}, {n} samples per update]", nhist=ctx.n(18, 40), variant=mode,
                          sizes=[n], nops=(3, 4), mix={"upd": 3, "compute": 2, "merge": 0.5})
    targeted(ctx)
    fine_grid(ctx)
    exhaustive(ctx)
    tie_profile(ctx)
