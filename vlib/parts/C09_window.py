"""C09 (windowed classes) -- state_dict()/load_state_dict(), clone, pickle and the ring-buffer cursor.

The cursor `next_inserted` is a plain attribute (D5; only reset() was repaired by c5ceb09): the faithful models keep it out of save/load
(theorems window_load_refuted*), the V_fixed models treat it as a registered state (theorems
window_load_fixed*).  The correspondence stream accepts either variant; the property-directed
stream (implementation only) compares the restored object with the original under continuations
long enough to wrap the window."""
import copy
import pickle

from .. import core, winlib
from ..families import window as W

LEVEL_NOTE = ("C09/windows: refutation witnesses on the faithful models + positive theorems for the V_fixed variant; "
              "tie = history correspondence with save/load/clone/pickle-heavy histories")
MIX = {"upd": 10, "compute": 6, "save": 3, "load": 3, "clone": 1.5, "pickle": 1.5, "new": 0.5, "reset": 0.3}


def directed(ctx):
    s = ctx.stream("restored object vs original under continuations (implementation only)")
    for e in W.ENTRIES:
        cfgs = e.configs(ctx.rng, ctx.quick)
        seen, ok = set(), True
        for h in range(ctx.n(40, 400)):
            cfg = cfgs[h % len(cfgs)]
            pre, cont = winlib.prefix_and_cont(ctx, e, cfg)
            how = ctx.rng.choice(["load-fresh", "load-fresh", "load-used", "clone", "pickle", "deepcopy"])
            a = e.make(cfg)
            for b in pre:
                e.update(a, cfg, b)
            trig = None
            if how == "clone":
                from torcheval.metrics.toolkit import clone_metric
                b2 = clone_metric(a)
            elif how == "pickle":
                b2 = pickle.loads(pickle.dumps(a))
            elif how == "deepcopy":
                b2 = copy.deepcopy(a)
            else:
                b2 = e.make(cfg)
                if how == "load-used":
                    for b in winlib.prefix_and_cont(ctx, e, cfg)[1]:
                        e.update(b2, cfg, b)
                if int(a.next_inserted) != int(b2.next_inserted):
                    trig = "cursor-of-source-differs-from-cursor-of-load-target"
                b2.load_state_dict(a.state_dict())
            d = winlib.continuation_differs(e, cfg, a, b2, cont)
            s.case((e.name, repr(cfg), how, repr(pre), repr(cont)), len(pre) >= 1, sample={"class": e.name, "cfg": cfg, "how": how, "pre": len(pre), "cont": len(cont)})
            s.count("class:" + e.name)
            s.count("how:" + how)
            if not d:
                continue
            s.count("disagreement:" + (trig or "unexplained"))
            if (how, trig) in seen:
                continue
            seen.add((how, trig))
            ok = False
            s.mismatches.append({"class": e.name, "how": how, "trigger": trig})
            ctx.violation("failing-input", e.name,
                          {"check": "restored object vs original", "class": e.name, "cfg": cfg, "how": how,
                           "updates_before": pre, "continuation": cont, "observed": d, "trigger": trig,
                           "broken": f"prop:restore-bisim:{e.name}"},
                          finding_id=winlib.match_finding(ctx.prop, e.name, trig))
        ctx.oblige(f"prop:restore-bisim:{e.name}", ok, detail="" if ok else "see failing inputs")


def run(ctx):
    winlib.corr_asis_or_fixed(ctx, W.ENTRIES, "history-correspondence (save/load/clone/pickle-heavy, windows)",
                              mix=MIX, nhist=ctx.n(24, 200), nops=(6, 12, 20))
    directed(ctx)
