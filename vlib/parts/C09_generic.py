"""C09 -- checkpoint / pickle / clone reproduce present and future behaviour (all classes)."""
from .. import core, basecalls, direct, streams, sandbox
from ..catalogue import entries

LEVEL_NOTE = ("value-level bisimulation theorem for models whose attributes are all registered; tie = history correspondence with "
              "save/load/clone/pickle ops at random prefixes + class-generic restore checks on every class; pickle/deepcopy themselves are trusted")


def run(ctx):
    # tie: histories with checkpoint ops against the Coq pool model (classes that have a model)
    mix = {"upd": 8, "merge": 2, "compute": 3, "reset": 1, "clone": 3, "save": 3, "load": 3, "prep": 1, "new": 1, "pickle": 2}
    streams.hist_corr(ctx, mix=mix, name="history-correspondence(checkpoint-heavy)", nhist=ctx.n(6, 60))
    s = ctx.stream("restore-vs-original (implementation only, every class)")
    cases = basecalls.all_cases()
    jobs = []
    for ci, case in enumerate(cases):
        trials = []
        for t in range(ctx.n(6, 60)):
            trials.append({"seed": ctx.rng.randrange(10 ** 9), "pre": direct.gen_pre(ctx.rng), "ncont": ctx.rng.choice([1, 3, 7]),
                           "how": direct.RESTORES[t % len(direct.RESTORES)], "layout": LAYOUTS[t % len(LAYOUTS)]})
        jobs.append((ci, trials))
    res = sandbox.run_jobs(_job, jobs, timeout=ctx.n(120, 900), workers=12)
    for (ci, trials), (status, val) in zip(jobs, res):
        label, name = cases[ci][0], cases[ci][1]
        cfg = cases[ci][2] if cases[ci][2] != "FAD" else "fad"
        bad = None
        if status != "ok":
            bad = {"check": "c09_case", "class": label, "cfg": cfg, "observed": f"worker {status}: {val}", "trials": trials[:3]}
            val = []
        for tr, d in zip(trials, val):
            s.case((label, repr(tr)), tr["pre"]["updates"] > 0, sample={"class": label, **tr})
            s.count("variant:" + str(tr.get("how")))
            if d and bad is None:
                bad = {"check": "c09_case", "class": label, "cfg": cfg, **tr, "observed": d}
        if bad:
            s.mismatches.append(bad)
            ctx.violation("failing-input", name, {**bad, "broken": f"c09:{name}"},
                          finding_id=core.match_finding("C09", name, bad["observed"], how=bad.get("how"), layout=bad.get("layout")))


LAYOUTS = ("fresh-target", "updated-target", "reset-target")


def _job(job):
    ci, trials = job
    case = basecalls.all_cases()[ci]
    out = []
    for tr in trials:
        try:
            d = _one(case, tr)
        except Exception as ex:
            d = f"exception {type(ex).__name__}: {ex}"
        out.append(d)
    return out


def _one(case, tr):
    return direct.c09_case(case, tr["seed"], tr["how"], tr["pre"], tr["ncont"])
