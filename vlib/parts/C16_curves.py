"""C16 (curve metrics) -- multi-task / multi-class / multi-label results decompose into single slices.

impl vs impl: the multi-slice functional result vs single-slice calls of the binary functional on
each slice; impl vs model: the multi-slice result vs the Coq *spec* model of the binary metric on
each slice.  Slices are generated with deliberately different tie structure / degeneracy."""
from fractions import Fraction
import torch
from torcheval.metrics import functional as Fn
from .. import core
from ..compare import close, impl_val, TOL32
from ..model import run_model, T
from ..families import curves as C

LEVEL_NOTE = ("masked_scatter row-locality theorem + 2-D AUROC kernel = row-wise map; python-loop forms are maps by construction; "
              "tie = multi-slice implementation result vs single-slice implementation calls and vs the binary spec model")

SCORE_MODES = ["const", "distinct", "two", "three", "half", "levels", "neg"]
LABEL_MODES = ["half", "few", "most", "allpos", "allneg"]


def slices(rng, k, n):
    """k slices of n samples, pairwise different (score mode, label mode)."""
    if rng.random() < 0.4:
        # runs of equal scores crossing the slice boundary of the flattened (sorted) multi-slice tensor
        kind = rng.choice(["chained", "chained", "const", "clip"])
        xs = C.gen_chained_rows(rng, k, n, C.DEN, kind)
        ys = [C.gen_labels(rng, n, mode=rng.choice(["half", "half", "most", "few", "allpos"])) for _ in range(k)]
        return xs, ys, [("chain-" + kind, "any")] * k
    sm = rng.sample(SCORE_MODES, min(k, len(SCORE_MODES)))
    lm = [rng.choice(LABEL_MODES) for _ in range(k)]
    if k >= 2 and lm[0] == lm[1]:
        lm[1] = "allpos" if lm[0] != "allpos" else "allneg"
    xs = [C.gen_scores(rng, n, C.DEN, mode=sm[i % len(sm)]) for i in range(k)]
    ys = [C.gen_labels(rng, n, mode=lm[i]) for i in range(k)]
    return xs, ys, list(zip(sm, lm))


def fl(x):
    return C.fl(x, C.DEN)


def b1(xs, ys, ws=None):
    return [[z, y] + ([w] if ws is not None else []) for z, y, *_ in zip(xs, ys)] if ws is None else [[z, y, w] for z, y, w in zip(xs, ys, ws)]


def run(ctx):
    s = ctx.stream("multi-slice vs single-slice (impl vs impl, impl vs binary spec model)")
    rng = ctx.rng
    bad = {}
    mcases, mmeta = [], []

    def check(kind, replay, multi, singles, model_cases):
        """multi: list of per-slice values (impl_val); singles: same from single-slice calls."""
        d = close(singles, multi, TOL32)
        if d and kind not in bad:
            bad[kind] = {"kind": kind, **replay, "multi_vs_single": d}
        for i, mc in enumerate(model_cases):
            mcases.append(mc)
            mmeta.append((kind, replay, i, multi[i]))

    N = ctx.n(60, 600)
    for it in range(N):
        n = rng.choice([1, 2, 3, 5, 8, 13, 30])
        k = rng.choice([2, 3, 4])
        xs, ys, modes = slices(rng, k, n)
        for (sm, lm) in modes:
            s.count("slice:" + sm + "/" + lm)
        X, Y = fl(xs), torch.tensor(ys, dtype=torch.int64)                     # (k, n)
        rep = {"x": xs, "y": ys, "den": C.DEN}
        s.case((repr(xs), repr(ys)), n >= 2, sample={"n": n, "k": k, "modes": [list(m) for m in modes]})
        # ---- binary multi-task AUROC (with weights) and AUPRC
        if k <= 3:
            ws = [[rng.choice(C.WEIGHTS) for _ in range(n)] for _ in range(k)]
            W = torch.tensor([[float(w) for w in r] for r in ws], dtype=torch.float64)
            multi = impl_val(Fn.binary_auroc(X, Y, num_tasks=k, weight=W))
            single = [impl_val(Fn.binary_auroc(X[i], Y[i], weight=W[i])) for i in range(k)]
            check("binary_auroc", {**rep, "w": ws}, multi, single,
                  [("curves_bauroc_spec", [[C.DEN, 1], [[[z, y, w]] for z, y, w in zip(xs[i], ys[i], ws[i])]]) for i in range(k)])
            multi = impl_val(Fn.binary_auprc(X, Y, num_tasks=k))
            single = [impl_val(Fn.binary_auprc(X[i], Y[i])) for i in range(k)]
            check("binary_auprc", rep, multi, single,
                  [("curves_bauprc_spec", [[C.DEN, 1], [[[z, y, 1]] for z, y in zip(xs[i], ys[i])]]) for i in range(k)])
        # ---- multilabel forms: slices are the label columns
        XL, YL = X.T.contiguous(), Y.T.contiguous()
        multi = impl_val(Fn.multilabel_auprc(XL, YL, num_labels=k, average=None))
        single = [impl_val(Fn.binary_auprc(X[i], Y[i])) for i in range(k)]
        check("multilabel_auprc", rep, multi, single,
              [("curves_bauprc_spec", [[C.DEN, 1], [[[z, y, 1]] for z, y in zip(xs[i], ys[i])]]) for i in range(k)])
        macro = impl_val(Fn.multilabel_auprc(XL, YL, num_labels=k, average="macro"))
        d = close(sum(Fraction(v) for v in multi) / k, macro, TOL32)
        if d and "multilabel_auprc_macro" not in bad:
            bad["multilabel_auprc_macro"] = {"kind": "multilabel_auprc_macro", **rep, "macro_vs_mean": d}
        p, r, t = Fn.multilabel_precision_recall_curve(XL, YL, num_labels=k)
        multi = [impl_val([p[i], r[i], t[i]]) for i in range(k)]
        single = [impl_val(list(Fn.binary_precision_recall_curve(X[i], Y[i]))) for i in range(k)]
        check("multilabel_prc", rep, multi, single,
              [("curves_bprc_spec", [[C.DEN, 0], [[z, y] for z, y in zip(xs[i], ys[i])]]) for i in range(k)])
        mp = rng.choice(C.MINP)
        rr, tt = Fn.multilabel_recall_at_fixed_precision(XL, YL, num_labels=k, min_precision=float(mp))
        multi = [impl_val([rr[i], tt[i]]) for i in range(k)]
        single = [impl_val(list(Fn.binary_recall_at_fixed_precision(X[i], Y[i], min_precision=float(mp)))) for i in range(k)]
        check("multilabel_recall_at_fixed_precision", {**rep, "min_precision": mp}, multi, single,
              [("curves_brap_spec", [[C.DEN, mp], [[z, y] for z, y in zip(xs[i], ys[i])]]) for i in range(k)])
        # ---- multiclass forms: class scores are the slices, one-vs-rest labels from a class vector
        cls = [rng.randrange(k) for _ in range(n)] if rng.random() < 0.7 else [rng.randrange(k)] * n
        yc = torch.tensor(cls, dtype=torch.int64)
        ovr = [[1 if c == i else 0 for c in cls] for i in range(k)]
        repc = {"x": xs, "classes": cls, "den": C.DEN}
        multi = impl_val(Fn.multiclass_auroc(XL, yc, num_classes=k, average=None))
        single = [impl_val(Fn.binary_auroc(X[i], torch.tensor(ovr[i]))) for i in range(k)]
        check("multiclass_auroc", repc, multi, single,
              [("curves_bauroc_spec", [[C.DEN, 1], [[[z, y, 1]] for z, y in zip(xs[i], ovr[i])]]) for i in range(k)])
        macro = impl_val(Fn.multiclass_auroc(XL, yc, num_classes=k, average="macro"))
        d = close(sum(Fraction(v) for v in multi) / k, macro, TOL32)
        if d and "multiclass_auroc_macro" not in bad:
            bad["multiclass_auroc_macro"] = {"kind": "multiclass_auroc_macro", **repc, "macro_vs_mean": d}
        multi = impl_val(Fn.multiclass_auprc(XL, yc, num_classes=k, average=None))
        single = [impl_val(Fn.binary_auprc(X[i], torch.tensor(ovr[i]))) for i in range(k)]
        check("multiclass_auprc", repc, multi, single,
              [("curves_bauprc_spec", [[C.DEN, 1], [[[z, y, 1]] for z, y in zip(xs[i], ovr[i])]]) for i in range(k)])
        p, r, t = Fn.multiclass_precision_recall_curve(XL, yc, num_classes=k)
        multi = [impl_val([p[i], r[i], t[i]]) for i in range(k)]
        single = [impl_val(list(Fn.binary_precision_recall_curve(X[i], torch.tensor(ovr[i])))) for i in range(k)]
        check("multiclass_prc", repc, multi, single,
              [("curves_bprc_spec", [[C.DEN, 0], [[z, y] for z, y in zip(xs[i], ovr[i])]]) for i in range(k)])
    outs = run_model(mcases)
    for (kind, replay, i, impl_i), mo in zip(mmeta, outs):
        d = close(mo, impl_i, TOL32)
        if d and ("model:" + kind) not in bad:
            bad["model:" + kind] = {"kind": kind, **replay, "slice": i, "multi_vs_binary_spec_model": d}
    s.dist["model_slice_comparisons"] = len(mcases)
    kinds = ["binary_auroc", "binary_auprc", "multilabel_auprc", "multilabel_auprc_macro", "multilabel_prc",
             "multilabel_recall_at_fixed_precision", "multiclass_auroc", "multiclass_auroc_macro", "multiclass_auprc", "multiclass_prc"]
    for kd in kinds:
        ctx.oblige(f"tie:slices:{kd}", kd not in bad, detail=repr(core.canon(bad.get(kd)))[:1500] if kd in bad else "")
        if not kd.endswith("_macro"):
            ctx.oblige(f"tie:slices-vs-spec-model:{kd}", ("model:" + kd) not in bad,
                       detail=repr(core.canon(bad.get("model:" + kd)))[:1500] if ("model:" + kd) in bad else "")
    for key, v in bad.items():
        s.mismatches.append(v)
        name = ("tie:slices-vs-spec-model:" + v["kind"]) if key.startswith("model:") else ("tie:slices:" + v["kind"])
        ctx.violation("failing-input", v["kind"], {**v, "broken": name})
