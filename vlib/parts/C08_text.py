"""C08 (text half) -- WER / WIP / WIL / BLEU equal their definitions.

Streams:
  * history correspondence (Coq pool model vs the real classes, state after every op);
  * functional correspondence (functional forms vs the Coq functional models);
  * EXHAUSTIVE edit distance: all token-list pairs of length <= 3 (thorough: <= 4) over 2 symbols, implementation
    (_edit_distance of helper.py and of word_error_rate.py, and through the str.split() glue) vs
    algo (row DP) vs the code's recurrence vs spec (textbook Levenshtein recurrence);
  * random edit distance algo vs spec (lengths <= 7, the spec recursion is exponential);
  * BLEU per-sentence statistics: implementation (_bleu_score_update) vs algo (Counter model) vs
    spec (clipped n-gram counts, closest reference length);
  * BLEU functional on corpora that are too short for n_gram (both sides must raise);
  * BLEU with zero weights vs the product form bp * prod p_i^w_i (known finding: 0 * log 0 = nan).
"""
import itertools
from .. import core, streams
from ..catalogue import entry
from ..compare import close, impl_val
from ..model import run_model, T, NONE
from ..families import text as TX

LEVEL_NOTE = ("text: edit-distance DP = Levenshtein recurrence and Counter-based n-gram overlap = clipped counts are "
              "theorems about the Gallina model; tie = history/functional correspondence on integer tokens rendered "
              "with mixed whitespace (str.split() is on the implementation side); final exp/log of BLEU symbolic "
              "(evaluated with mpmath); exact arithmetic, float rounding absorbed by tolerance")

NAMES = ["WordErrorRate", "WordInformationPreserved", "WordInformationLost", "BLEUScore"]


def _ents():
    return [entry(n) for n in NAMES]


def _impl_ed(a, b, seed):
    """Three implementation routes to the edit distance of token lists a, b."""
    import importlib
    helper = importlib.import_module("torcheval.metrics.functional.text.helper")
    wer = importlib.import_module("torcheval.metrics.functional.text.word_error_rate")
    wa, wb = [TX.word(t) for t in a], [TX.word(t) for t in b]
    d1 = helper._edit_distance(wa, wb)
    d2 = wer._edit_distance(wa, wb)
    errors, max_total, target_total, input_total = helper._get_errors_and_totals(TX.render(a, seed), TX.render(b, seed + 1))
    d3 = int(errors.item())
    ok_lens = int(target_total.item()) == len(b) and int(input_total.item()) == len(a) and int(max_total.item()) == max(len(a), len(b))
    return d1, d2, d3, ok_lens


def _ed_cases(ctx, s, pairs, label):
    cases = []
    for a, b in pairs:
        for m in ("text_ed_fn", "text_ed_lev_fn", "text_ed_spec_fn"):
            cases.append((m, [[], [list(a), list(b)]]))
    outs = run_model(cases)
    bad = None
    for k, (a, b) in enumerate(pairs):
        algo, levr, spec = outs[3 * k: 3 * k + 3]
        d1, d2, d3, ok_lens = _impl_ed(list(a), list(b), 17 * k)
        s.case((label, a, b), len(a) >= 1 and len(b) >= 1, sample={"a": list(a), "b": list(b), "distance": d1})
        s.count("len:%d,%d" % (min(len(a), 9), min(len(b), 9)))
        if not (algo == levr == spec == d1 == d2 == d3 and ok_lens) and bad is None:
            bad = {"a": list(a), "b": list(b), "impl_helper": d1, "impl_wer": d2, "impl_via_split": d3,
                   "lengths_ok": ok_lens, "algo": algo, "code_recurrence": levr, "spec": spec}
            s.mismatches.append(bad)
    return bad


def edit_distance_streams(ctx):
    maxlen = ctx.n(3, 4)      # thorough: all pairs up to length 4 (961 pairs, 800 of them of different lengths or contents)
    s = ctx.stream("edit-distance-exhaustive (len<=%d, 2 symbols): impl vs algo vs spec" % maxlen)
    seqs = [tuple(x) for n in range(maxlen + 1) for x in itertools.product([0, 1], repeat=n)]
    pairs = [(a, b) for a in seqs for b in seqs]
    bad = _ed_cases(ctx, s, pairs, "exh")
    s.exhaustive = True
    s.count("pairs-of-different-lengths", sum(1 for a, b in pairs if len(a) != len(b)))
    s.count("pairs-with-common-prefix-or-suffix",
            sum(1 for a, b in pairs if a and b and a != b and (a[0] == b[0] or a[-1] == b[-1])))
    s.note = "%d pairs = all pairs of token lists of length <= %d over {0,1}, equal and different lengths" % (len(pairs), maxlen)
    ctx.oblige("tie:edit-distance-exhaustive:_edit_distance", bad is None, detail=repr(bad)[:800] if bad else "")
    if bad:
        ctx.violation("failing-input", "_edit_distance", {"check": "edit_distance impl/algo/spec", **bad,
                                                          "broken": "tie:edit-distance-exhaustive:_edit_distance"})
    s2 = ctx.stream("edit-distance-random (len<=7): impl vs algo vs spec")
    pairs = []
    for _ in range(ctx.n(150, 1500)):
        v = ctx.rng.choice([2, 2, 3, 5, 50])
        a = [ctx.rng.randrange(v) for _ in range(ctx.rng.randint(0, 7))]
        b = TX.mutate(ctx.rng, a, v)[:7] if ctx.rng.random() < 0.5 else [ctx.rng.randrange(v) for _ in range(ctx.rng.randint(0, 7))]
        pairs.append((tuple(a), tuple(b)))
    bad = _ed_cases(ctx, s2, pairs, "rnd")
    ctx.oblige("tie:edit-distance-random:_edit_distance", bad is None, detail=repr(bad)[:800] if bad else "")
    if bad:
        ctx.violation("failing-input", "_edit_distance", {"check": "edit_distance impl/algo/spec", **bad,
                                                          "broken": "tie:edit-distance-random:_edit_distance"})


def _impl_bleu_stats(n, cand, refs, seed):
    """_bleu_score_update on one sentence; the too-short test is neutralised by reading the statistics
    of a corpus that also contains a long dummy sentence with no reference overlap."""
    from torcheval.metrics.functional.text.bleu import _bleu_score_update
    filler = " ".join("zz%d" % k for k in range(n))          # n distinct words: possible = (n, n-1, .., 1), matches 0
    i1, t1, m1, p1 = _bleu_score_update([TX.render(cand, seed), filler],
                                        [[TX.render(r, seed + 1 + j) for j, r in enumerate(refs)], ["qq"]], n)
    ms = [int(x) for x in m1.tolist()]
    ps = [int(x) - (n - k) for k, x in enumerate(p1.tolist())]
    return ms, ps, int(t1.item()) - 1, int(i1.item()) - n


def bleu_stats_stream(ctx):
    s = ctx.stream("bleu-sentence-statistics: impl vs algo (Counter model) vs spec (clipped counts)")
    e = entry("BLEUScore")
    items, cases = [], []
    for k in range(ctx.n(200, 2500)):
        n = ctx.rng.choice([1, 2, 3, 4])
        b = e.gen_batch(ctx.rng, {"n_gram": n}, 1)
        cand, refs = b["c"][0], b["r"][0]
        if k % 7 == 0:
            cand = cand[:ctx.rng.randint(0, n)]          # candidates shorter than n_gram as well
        items.append((n, cand, refs))
        cases.append(("text_bleu_stats_fn", [n, [cand, refs]]))
        cases.append(("text_bleu_stats_spec_fn", [n, [cand, refs]]))
    outs = run_model(cases)
    bad = None
    for k, (n, cand, refs) in enumerate(items):
        algo, spec = outs[2 * k], outs[2 * k + 1]
        ms, ps, tl, il = _impl_bleu_stats(n, cand, refs, 31 * k)
        impl = [ms, ps, tl]
        overlap = any(x > 0 for x in ms)
        s.case((n, cand, refs), len(cand) >= 2 and len(refs) >= 1, sample={"n_gram": n, "cand": cand, "refs": refs, "stats": impl})
        s.count("n_gram:%d" % n)
        s.count("refs:%d" % len(refs))
        s.count("overlap" if overlap else "empty-overlap")
        lens = sorted({len(r) for r in refs})
        if any(abs(x - len(cand)) == abs(y - len(cand)) for x in lens for y in lens if x < y):
            s.count("reference-length-tie")
        uni = {t: cand.count(t) for t in set(cand)}
        if any(c > max(r.count(t) for r in refs) > 0 for t, c in uni.items()):
            s.count("clipping-binds")
        if not (algo == spec == impl and il == len(cand)) and bad is None:
            bad = {"n_gram": n, "cand": cand, "refs": refs, "impl": impl, "algo": algo, "spec": spec}
            s.mismatches.append(bad)
    ctx.oblige("tie:bleu-sentence-statistics:_bleu_score_update", bad is None, detail=repr(bad)[:800] if bad else "")
    if bad:
        ctx.violation("failing-input", "_bleu_score_update", {"check": "bleu sentence statistics impl/algo/spec", **bad,
                                                              "broken": "tie:bleu-sentence-statistics:_bleu_score_update"})


def bleu_short_stream(ctx):
    """Corpora around the too-short boundary: the functional (and one class update) must raise
    exactly when the model's validity predicate says so; values agree otherwise."""
    s = ctx.stream("bleu-too-short-boundary: functional / class update vs model")
    e = entry("BLEUScore")
    items, cases = [], []
    for k in range(ctx.n(120, 1200)):
        cfg = ctx.rng.choice(e.configs(ctx.rng, ctx.quick))
        n = cfg["n_gram"]
        m = ctx.rng.choice([0, 1, 1, 2, 3])
        c = [[ctx.rng.randrange(3) for _ in range(ctx.rng.randint(0, n + 1))] for _ in range(m)]
        r = [[TX.mutate(ctx.rng, x, 3) for _ in range(ctx.rng.choice([1, 1, 2, 3]))] for x in c]
        b = {"c": c, "r": r, "seed": k, "form": "list"}
        items.append((cfg, b))
        cases.append((e.fn_model, [e.cfg_val(cfg), e.batch_val(cfg, b)]))
    outs = run_model(cases)
    bad = None
    for (cfg, b), mo in zip(items, outs):
        try:
            r = e.fn_val(e.functional(cfg, b))
        except Exception:
            r = T("err")
        m = e.make(cfg)
        try:
            e.update(m, cfg, b)
            cls_raised = False
        except Exception:
            cls_raised = True
        model_err = isinstance(mo, T) and mo.tag == "err"
        impl_err = isinstance(r, T) and r.tag == "err"
        d = None
        if model_err != impl_err or cls_raised != model_err:
            d = f"model raises={model_err} functional raises={impl_err} class update raises={cls_raised}"
        elif not model_err:
            d = close(mo, r, e.tol)
        s.case((repr(cfg), repr(b)), len(b["c"]) >= 1, sample={"cfg": cfg, "batch": b, "raises": model_err})
        s.count("raises" if model_err else "accepted")
        if d and bad is None:
            bad = {"cfg": cfg, "batch": b, "disagreement": d}
            s.mismatches.append(bad)
    ctx.oblige("tie:bleu-too-short-boundary:bleu_score", bad is None, detail=repr(core.canon(bad))[:800] if bad else "")
    if bad:
        ctx.violation("failing-input", "bleu_score", {"check": "bleu too-short boundary", **bad,
                                                      "broken": "tie:bleu-too-short-boundary:bleu_score"})


FINDING_ZERO_WEIGHT = "C08-bleu-zero-weight-nan"


def _bleu_product_form(ws, il, tl, ms, ps):
    """bp * prod_i p_i^{w_i} evaluated with mpmath; 0^0 = 1, 0^w = 0 for w > 0 (weights >= 0 only)."""
    import mpmath
    mpmath.mp.prec = 200
    bp = mpmath.mpf(1) if il > tl else mpmath.exp(1 - mpmath.mpf(tl) / mpmath.mpf(il))
    v = bp
    for w, m, p in zip(ws, ms, ps):
        if m == 0:
            v = v * (1 if w == 0 else 0)
        else:
            v = v * (mpmath.mpf(m) / mpmath.mpf(p)) ** (mpmath.mpf(w.numerator) / mpmath.mpf(w.denominator))
    return v


def bleu_zero_weight_stream(ctx):
    """BLEU with some weights equal to zero against the product form  bp * prod_i p_i^{w_i}.
    The implementation computes exp(sum_i w_i log p_i): a zero weight on an order without matches
    gives 0 * (-inf) = nan (known finding, matched ONLY on that pattern)."""
    import math
    from torcheval.metrics.functional.text.bleu import _bleu_score_update
    s = ctx.stream("bleu-zero-weights vs product form (implementation only)")
    e = entry("BLEUScore")
    cfgs = [{"n_gram": 2, "weights": [TX.F(1), TX.F(0)]}, {"n_gram": 2, "weights": [TX.F(0), TX.F(1)]},
            {"n_gram": 3, "weights": [TX.F(1, 2), TX.F(1, 2), TX.F(0)]},
            {"n_gram": 4, "weights": [TX.F(1, 2), TX.F(1, 2), TX.F(0), TX.F(0)]},
            {"n_gram": 2, "weights": [TX.F(1, 2), TX.F(1, 2)]}]
    unexplained = None
    seen_known = False
    for k in range(ctx.n(100, 1000)):
        cfg = cfgs[k % len(cfgs)]
        b = e.gen_batch(ctx.rng, cfg, ctx.rng.choice([1, 1, 2, 3]))
        a, _ = e.args(cfg, b)
        il, tl, ms, ps = _bleu_score_update(a[0], a[1], cfg["n_gram"])
        il, tl, ms, ps = int(il), int(tl), [int(x) for x in ms.tolist()], [int(x) for x in ps.tolist()]
        ref = _bleu_product_form(cfg["weights"], il, tl, ms, ps)
        fn = float(e.functional(cfg, b))
        m = e.make(cfg)
        e.update(m, cfg, b)
        cl = float(m.compute())
        pattern = any(w == 0 and x == 0 for w, x in zip(cfg["weights"], ms))
        s.case((repr(cfg), repr(b)), sum(ms) > 0, sample={"cfg": cfg, "batch": b, "matches": ms, "possible": ps})
        s.count("zero-weight-on-zero-precision" if pattern else "regular")
        for route, val in (("functional", fn), ("class", cl)):
            ok = (not math.isnan(val)) and abs(val - float(ref)) <= 2e-5
            if ok:
                continue
            s.count("nan:" + route if math.isnan(val) else "differs:" + route)
            detail = {"check": "bleu vs product form", "route": route, "cfg": cfg, "batch": b, "args": list(a),
                      "matches": ms, "possible": ps, "input_len": il, "target_len": tl,
                      "observed": repr(val), "expected": float(ref), "broken": "tie:bleu-zero-weights:BLEUScore"}
            if math.isnan(val) and pattern:
                if not seen_known:
                    seen_known = True
                    s.mismatches.append(detail)
                    ctx.violation("failing-input", "BLEUScore", detail, finding_id=FINDING_ZERO_WEIGHT)
            elif unexplained is None:
                unexplained = detail
                s.mismatches.append(detail)
                ctx.violation("failing-input", "BLEUScore", detail)
    ctx.oblige("tie:bleu-zero-weights:BLEUScore", unexplained is None and not seen_known,
               detail=("known finding %s reproduced; " % FINDING_ZERO_WEIGHT if seen_known else "")
               + (repr(core.canon(unexplained))[:600] if unexplained else ""))
    variant = TX.bleu_variant()
    note = {"code": "BLEU: the tree computes exp(sum w_i log p_i) with 0 * log 0 = nan (V_code model; finding %s open)" % FINDING_ZERO_WEIGHT,
            "fixed": "BLEU: the tree ignores zero-weighted orders (V_fixed model; fixes/bleu-zero-weight.patch applied)",
            "unknown": "BLEU: the witness of bleu_value_is_number_refuted gives neither nan nor 0.5; tied to the V_code model"}[variant]
    ctx.notes.append(note)
    ctx.oblige("tie:variant-decided (" + note + ")", True)
    if variant == "fixed" and not seen_known:
        ctx.notes.append("stale finding %s: the witness of bleu_value_is_number_refuted / "
                         "bleu_class_eq_functional_zero_weight_refuted no longer fails on this tree (repaired); those theorems "
                         "remain statements about the V_code variant of the model, bleu_value_is_number_fixed and "
                         "bleu_class_eq_functional_fixed are the ones tied to this tree" % FINDING_ZERO_WEIGHT)


def run(ctx):
    ents = _ents()
    streams.hist_corr(ctx, ents=ents, name="history-correspondence:text", nhist=ctx.n(24, 200))
    streams.fn_corr(ctx, ents=ents, name="functional-correspondence:text", ncases=ctx.n(60, 800), sizes=(0, 1, 1, 2, 3, 5, 8, 20))
    edit_distance_streams(ctx)
    bleu_stats_stream(ctx)
    bleu_short_stream(ctx)
    bleu_zero_weight_stream(ctx)
