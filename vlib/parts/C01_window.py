"""C01 (windowed classes) -- merge_state with a generator argument (D18).

merge_state(metrics: Iterable) of the five windowed classes iterates its argument twice (once to
size the pooled buffer, once to copy); a generator is exhausted by the first pass, so the sources
are silently dropped while the buffer is still enlarged.  Property-directed, implementation only:
the same merge issued with a list and with a generator must leave the same object."""
import copy

from .. import core, winlib
from ..compare import close
from ..families import window as W

LEVEL_NOTE = ("C01/windows: merge argument form (list / tuple / generator) must not matter; directed implementation stream. "
              "lifetime_stream replays, on the real classes, the merge-tree theorems of Props/C01_window_trees.v "
              "(proofs Proofs/WindowTreeP.v; faithful V_code model of Models/Window.v, tied by the C13/C01 history "
              "correspondence): window_lifetime_any_merge_tree, window_lifetime_any_two_merge_trees, "
              "window_total_updates_any_merge_tree, window_lifetime_after_merge_then_updates (+ _ctr/_wcal/_mse/_ne): "
              "lifetime value and total_updates of ANY merge tree (flat, nested, sequential, wrapped shards, updates after "
              "the merge) = the non-windowed class on every update, no deviation; "
              "window_merged_again_contributes_firstN, window_merge_reads_whole_pool, window_value_any_merge_tree, "
              "window_leaf_contributes_lastN, window_sequential_merge_window (+ instances), "
              "window_sequential_merge_small_target: the exact windowed value of nested / sequential merges (a merged "
              "object merged again contributes only its first max_num_updates slots) -- the theorem behind the known "
              "finding C01-window-merged-object-merged-again (witnesses: window_merge_nested_refuted, "
              "window_update_after_merge_refuted); the sequential groupings of this stream are compared with that "
              "closed form.  WindowedBinaryAUROC has no lifetime value.  "
              "REPAIR (fixes/window-merge-capacity.patch, model win_metric_cap, chosen per class by the witness "
              "families/window.py merge_capacity_variant): Props/C01_window_capacity.v -- "
              "window_merge_pools_any_tree_repaired, window_capacity_after_merge_repaired, "
              "window_update_after_merge_repaired, window_lifetime_*_repaired; on a repaired tree this stream checks the "
              "pooled window for sequential merges too, the capacity, and the ring of enlarged capacity after further updates.")


def ring_slots(bs, N):
    """Slot order of the buffer of a shard built by update() calls (Models.Window.wfilled): slot i holds the
    latest update whose index is i modulo N."""
    n = len(bs)
    if n <= N:
        return list(bs)
    return [bs[max(k for k in range(n) if k % N == i)] for i in range(N)]


def sequential_window(hist, N, repaired=False):
    """Coq: window_merged_again_contributes_firstN / window_merge_reads_whole_pool / window_value_any_merge_tree.
    A.merge([B1]); A.merge([B2]); ...: what compute() reads after the last merge (the whole pool), the target
    keeping only the first N slots of its pool from one merge to the next.
    repaired (fixes/window-merge-capacity.patch; Coq: window_merge_pools_any_tree_repaired): nothing is truncated."""
    filled = ring_slots(hist[0], N)
    read = filled
    for bs in hist[1:]:
        read = filled + ring_slots(bs, N)
        filled = read if repaired else read[:N]
    return read


def pool_repaired(hist, N, flat):
    """Repaired merge_state (Coq: window_update_after_merge_repaired): the pooled slots in buffer order (None = an
    unfilled zero slot taken over from a merged object) and the capacity K after the merge(s)."""
    if flat:
        return [b for bs in hist for b in ring_slots(bs, N)], N * len(hist)
    buf, tot, cap = ring_slots(hist[0], N), len(hist[0]), N
    parts = list(buf)
    for bs in hist[1:]:
        buf = buf + [None] * (cap - len(buf))
        parts = buf[:min(tot, cap)] + ring_slots(bs, N)
        cap, tot = cap + N, tot + len(bs)
        buf = parts
    return parts, cap


def lifetime_stream(ctx):
    """The lifetime value of a merge tree equals the NON-windowed class fed everything every shard ever saw
    (shards that received far more than max_num_updates updates included: their windows have wrapped), and the
    windowed value right after a flat merge equals the non-windowed class fed the pooled windows."""
    from .C13_window import ref_value
    s = ctx.stream("lifetime / pooled window after merging shards whose windows have wrapped (implementation only)")
    for e in W.ENTRIES:
        if e.granularity == "sample":
            continue
        cfgs = [c for c in e.configs(ctx.rng, ctx.quick) if c.get("enable_lifetime")]
        ok, ok_seq, ok_tot, ok_cap, ok_ring, seen = True, True, True, True, True, set()
        repaired = e.model.endswith("_cap")        # the tree under test has the repaired merge_state (witness run)
        for h in range(ctx.n(40, 240)):
            cfg = cfgs[h % len(cfgs)]
            N = e.window(cfg)
            nsh = ctx.rng.choice([2, 3, 4])
            shards, hist = [], []
            for _ in range(nsh):
                k = ctx.rng.choice([0, 1, N, N + 1, 2 * N + 1, 3 * N + 2])
                bs = [e.gen_batch(ctx.rng, cfg, ctx.rng.choice([1, 2, 3])) for _ in range(k)]
                m = e.make(cfg)
                for b in bs:
                    e.update(m, cfg, b)
                shards.append(m)
                hist.append(bs)
            tgt = shards[0]
            flat = nsh == 2 or ctx.rng.random() < 0.5
            if flat:
                tgt.merge_state(shards[1:])
            else:                                   # sequential merges
                for o in shards[1:]:
                    tgt.merge_state([o])
            allb = [b for bs in hist for b in bs]
            pooled = [b for bs in hist for b in bs[-N:]]
            s.case((e.name, repr(cfg), repr(hist)), any(len(bs) > N for bs in hist[1:]),
                   sample={"class": e.name, "cfg": cfg, "updates_per_shard": [len(bs) for bs in hist]})
            s.count("class:" + e.name)
            if not allb:
                continue
            got = winlib.safe(lambda: e.out_val(tgt.compute()))
            want = [ref_value(e, cfg, allb), ref_value(e, cfg, pooled)]
            post = [e.gen_batch(ctx.rng, cfg, 2) for _ in range(ctx.rng.choice([0, 1, 2] + ([N, N * nsh, N * nsh + 1] if repaired else [])))]
            d = None
            # capacity: kept by the code as it is, N * number of shards when repaired (window_capacity_after_merge_repaired)
            capw = N * nsh if repaired else N
            if int(tgt.max_num_updates) != capw and ok_cap:
                ok_cap = False
                ctx.violation("failing-input", e.name,
                              {"check": "max_num_updates after merge", "class": e.name, "cfg": cfg, "shards": hist,
                               "grouping": "flat" if flat else "sequential", "observed": int(tgt.max_num_updates),
                               "expected": capw, "broken": f"prop:capacity-after-merge:{e.name}"})
            # window_total_updates_any_merge_tree
            if int(tgt.total_updates) != len(allb) and ok_tot:
                ok_tot = False
                ctx.violation("failing-input", e.name,
                              {"check": "total_updates after merge", "class": e.name, "cfg": cfg, "shards": hist,
                               "grouping": "flat" if flat else "sequential", "observed": int(tgt.total_updates),
                               "expected": len(allb), "broken": f"prop:total-updates-after-merge:{e.name}"})
            # window_sequential_merge_window / window_value_any_merge_tree: the closed form of the windowed value
            if not flat:
                pred = sequential_window(hist, N, repaired)
                s.count("sequential:" + ("window-lost" if len(pred) < len(pooled) else "nothing-lost"))
                w3 = ref_value(e, cfg, pred)
                if winlib.finite(w3) and isinstance(got, list) and len(got) == 2:
                    d3 = close(w3, got[1], e.tol)
                    if d3 and ok_seq:
                        ok_seq = False
                        ctx.violation("failing-input", e.name,
                                      {"check": "windowed value of sequential merges vs the closed form of window_value_any_merge_tree",
                                       "class": e.name, "cfg": cfg, "shards": hist, "observed": d3,
                                       "broken": f"prop:sequential-merge-window-closed-form:{e.name}"})
            for idx, part in ((0, "lifetime"), (1, "pooled window")):
                if not winlib.finite(want[idx]) or not isinstance(got, list) or len(got) != 2:
                    continue
                d = close(want[idx], got[idx], e.tol)
                if d:
                    d = f"{part} value after the merge vs the non-windowed class on {'everything seen' if idx == 0 else 'the pooled windows'}: {d}"
                    break
            if not d and post:
                for b in post:
                    e.update(tgt, cfg, b)
                got2 = winlib.safe(lambda: e.out_val(tgt.compute()))
                w2 = ref_value(e, cfg, allb + post)
                if winlib.finite(w2) and isinstance(got2, list) and len(got2) == 2:
                    d = close(w2, got2[0], e.tol)
                    if d:
                        d = f"lifetime value after the merge and {len(post)} more update(s): {d}"
                # window_update_after_merge_repaired: a ring buffer of the enlarged capacity K whose history is the
                # pooled slots (buffer order) followed by the new updates
                if repaired and not d and isinstance(got2, list) and len(got2) == 2:
                    parts, K = pool_repaired(hist, N, flat)
                    s.count("repaired:post>=capacity" if len(post) >= K else "repaired:post<capacity")
                    w4 = ref_value(e, cfg, [b for b in (parts + post)[-K:] if b is not None])
                    if winlib.finite(w4):
                        d4 = close(w4, got2[1], e.tol)
                        if d4 and ok_ring:
                            ok_ring = False
                            ctx.violation("failing-input", e.name,
                                          {"check": "windowed value after merge + updates vs a ring buffer of the enlarged capacity",
                                           "class": e.name, "cfg": cfg, "shards": hist, "post": post, "capacity": K,
                                           "grouping": "flat" if flat else "sequential", "observed": d4,
                                           "broken": f"prop:ring-of-enlarged-capacity-after-merge:{e.name}"})
            trig = "merged-object-merged-again" if (d and not flat and d.startswith("pooled window")) else None
            if d and (e.name, trig) not in seen:
                seen.add((e.name, trig))
                fid = winlib.match_finding(ctx.prop, e.name, trig)
                ok = ok and fid is not None
                s.mismatches.append({"class": e.name, "trigger": trig})
                ctx.violation("failing-input", e.name,
                              {"check": "window lifetime after merge", "class": e.name, "cfg": cfg, "shards": hist, "post": post,
                               "grouping": "flat" if flat else "sequential", "trigger": trig,
                               "observed": d, "broken": f"prop:lifetime-after-merge:{e.name}"},
                              finding_id=fid)
        ctx.oblige(f"prop:lifetime-after-merge:{e.name}", ok, detail="" if ok else "see failing inputs")
        ctx.oblige(f"prop:total-updates-after-merge:{e.name}", ok_tot, detail="" if ok_tot else "see failing inputs")
        ctx.oblige(f"prop:sequential-merge-window-closed-form:{e.name}", ok_seq, detail="" if ok_seq else "see failing inputs")
        ctx.oblige(f"prop:capacity-after-merge:{e.name}", ok_cap, detail="" if ok_cap else "see failing inputs")
        if repaired:
            ctx.oblige(f"prop:ring-of-enlarged-capacity-after-merge:{e.name}", ok_ring, detail="" if ok_ring else "see failing inputs")
            ctx.notes.append(f"{e.name}: merge_state sets max_num_updates to the pooled capacity (model {e.model}): "
                             "fixes/window-merge-capacity.patch is in the tree under test; Props/C01_window_capacity.v applies")


def run(ctx):
    lifetime_stream(ctx)
    s = ctx.stream("merge_state(list) vs merge_state(generator) (windows, implementation only)")
    for e in W.ENTRIES:
        cfgs = e.configs(ctx.rng, ctx.quick)
        ok, seen = True, set()
        for h in range(ctx.n(12, 120)):
            cfg = cfgs[h % len(cfgs)]
            nsrc = ctx.rng.choice([1, 2, 3])
            objs = []
            for _ in range(nsrc + 1):
                m = e.make(cfg)
                for _ in range(ctx.rng.choice([0, 1, 2, e.window(cfg) + 1])):
                    e.update(m, cfg, e.gen_batch(ctx.rng, cfg, ctx.rng.choice([1, 2, 3])))
                objs.append(m)
            form = ctx.rng.choice(["tuple", "gen", "gen"])
            t1, t2 = copy.deepcopy(objs[0]), copy.deepcopy(objs[0])
            src = objs[1:]
            t1.merge_state(list(src))
            t2.merge_state(tuple(src) if form == "tuple" else (x for x in src))
            d = close(e.state_of(t1), e.state_of(t2), e.tol)
            if not d:
                r1, r2 = winlib.safe(lambda: e.out_val(t1.compute())), winlib.safe(lambda: e.out_val(t2.compute()))
                if not (hasattr(r1, "tag") and hasattr(r2, "tag")):
                    d = close(r1, r2, e.tol)
            nonempty = any(int(getattr(x, "total_updates", getattr(x, "total_samples", 0))) > 0 for x in src)
            s.case((e.name, repr(cfg), form, h), nonempty, sample={"class": e.name, "cfg": cfg, "form": form, "sources": nsrc})
            s.count("class:" + e.name)
            s.count("form:" + form)
            if not d:
                continue
            trig = "merge-argument-is-a-generator" if form == "gen" else None
            if trig in seen:
                continue
            seen.add(trig)
            ok = False
            s.mismatches.append({"class": e.name, "form": form})
            ctx.violation("failing-input", e.name,
                          {"check": "merge_state(list) vs merge_state(%s)" % form, "class": e.name, "cfg": cfg,
                           "sources": nsrc, "why": d, "trigger": trig, "broken": f"prop:merge-argument-form:{e.name}"},
                          finding_id=winlib.match_finding(ctx.prop, e.name, trig))
        ctx.oblige(f"prop:merge-argument-form:{e.name}", ok, detail="" if ok else "see failing inputs")
