"""C01 (windowed classes) -- merge_state with a generator argument (D18).

merge_state(metrics: Iterable) of the five windowed classes iterates its argument twice (once to
size the pooled buffer, once to copy); a generator is exhausted by the first pass, so the sources
are silently dropped while the buffer is still enlarged.  Property-directed, implementation only:
the same merge issued with a list and with a generator must leave the same object."""
import copy

from .. import core, winlib
from ..compare import close
from ..families import window as W

LEVEL_NOTE = "C01/windows: merge argument form (list / tuple / generator) must not matter; directed implementation stream"


def run(ctx):
    s = ctx.stream("merge_state(list) vs merge_state(generator) (windows, implementation only)")
    for e in W.ENTRIES:
        cfgs = e.configs(ctx.rng, ctx.quick)
        ok, seen = True, set()
        for h in range(ctx.n(12, 120)):
            cfg = cfgs[h % len(cfgs)]
            nsrc = ctx.rng.choice([1, 2, 3])
            objs = []
            for _ in range(nsrc + 1):
                m = e.make(cfg)
                for _ in range(ctx.rng.choice([0, 1, 2, e.window(cfg) + 1])):
                    e.update(m, cfg, e.gen_batch(ctx.rng, cfg, ctx.rng.choice([1, 2, 3])))
                objs.append(m)
            form = ctx.rng.choice(["tuple", "gen", "gen"])
            t1, t2 = copy.deepcopy(objs[0]), copy.deepcopy(objs[0])
            src = objs[1:]
            t1.merge_state(list(src))
            t2.merge_state(tuple(src) if form == "tuple" else (x for x in src))
            d = close(e.state_of(t1), e.state_of(t2), e.tol)
            if not d:
                r1, r2 = winlib.safe(lambda: e.out_val(t1.compute())), winlib.safe(lambda: e.out_val(t2.compute()))
                if not (hasattr(r1, "tag") and hasattr(r2, "tag")):
                    d = close(r1, r2, e.tol)
            nonempty = any(int(getattr(x, "total_updates", getattr(x, "total_samples", 0))) > 0 for x in src)
            s.case((e.name, repr(cfg), form, h), nonempty, sample={"class": e.name, "cfg": cfg, "form": form, "sources": nsrc})
            s.count("class:" + e.name)
            s.count("form:" + form)
            if not d:
                continue
            trig = "merge-argument-is-a-generator" if form == "gen" else None
            if trig in seen:
                continue
            seen.add(trig)
            ok = False
            s.mismatches.append({"class": e.name, "form": form})
            ctx.violation("failing-input", e.name,
                          {"check": "merge_state(list) vs merge_state(%s)" % form, "class": e.name, "cfg": cfg,
                           "sources": nsrc, "why": d, "trigger": trig, "broken": f"prop:merge-argument-form:{e.name}"},
                          finding_id=winlib.match_finding(ctx.prop, e.name, trig))
        ctx.oblige(f"prop:merge-argument-form:{e.name}", ok, detail="" if ok else "see failing inputs")
