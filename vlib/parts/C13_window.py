"""C13 -- windowed metrics report exactly the last N updates / samples; lifetime, all.

Streams
 1. step-by-step correspondence: one object, up to 5N updates, compute() and the full state
    (registered states + the cursor) after EVERY update -- Coq ring-buffer model vs real class;
 2. history correspondence with an update-heavy mix (several objects, clone / save / load / reset /
    merge interleaved), same comparison;
 3. property-directed, implementation only: the real windowed class against the real
    NON-windowed class fed exactly the last N updates (last N samples for the AUROC window),
    lifetime value against the non-windowed class fed everything, after every update.
"""
import torch

from .. import core, history, streams, winlib
from ..compare import close
from ..model import T, run_model, crosscheck_in_coq
from ..families import window as W

LEVEL_NOTE = ("C13: ring-buffer refinement theorems (all N >= 1, all update lists) on faithful models of the five "
              "windowed classes; models tied by step-by-step state+compute correspondence; exact rationals, "
              "log symbolic; float rounding absorbed by tolerance on exactly representable inputs; "
              "AUROC window: buffer-level theorem + compute-level partial (permutation invariance of AUROC is C05)")

MIX = {"upd": 14, "compute": 8, "merge": 1.5, "reset": 0.7, "clone": 1, "save": 0.7, "load": 0.7, "new": 0.3, "pickle": 0.3}


def step_stream(ctx):
    s = ctx.stream("step-by-step (state and compute() after every update)")
    cases, meta = [], []
    for e in W.ENTRIES:
        cfgs = e.configs(ctx.rng, ctx.quick)
        for h in range(ctx.n(30, 240)):
            cfg = cfgs[h % len(cfgs)]
            N = e.window(cfg)
            nupd = ctx.rng.choice([1, N, N + 1, 2 * N, 2 * N + 1, 3 * N + 2, 5 * N])
            ops = winlib.step_histories(ctx, e, cfg, nupd)
            cases.append(history.model_case(e, cfg, 1, ops))
            meta.append((e, cfg, ops, nupd))
    outs = run_model(cases)
    bad = {}
    for (e, cfg, ops, nupd), mobs in zip(meta, outs):
        try:
            d = history.compare_obs(e, ops, mobs, history.run_impl(e, cfg, 1, ops))
        except Exception as ex:
            d = {"at": -1, "why": f"implementation raised outside update/compute: {type(ex).__name__}: {ex}"}
        N = e.window(cfg)
        s.case((e.name, repr(cfg), repr(ops)), nupd > 1, sample={"class": e.name, "cfg": cfg, "updates": nupd})
        s.count("class:" + e.name)
        s.count("updates/N:%s" % ("<1" if nupd < N else "=1" if nupd == N else "1..2" if nupd <= 2 * N else ">2"))
        s.count("window:%d" % N)
        if d and e.name not in bad:
            def fails(trial, e=e, cfg=cfg):
                try:
                    return history.check_history(e, cfg, 1, trial) is not None
                except Exception:
                    return True
            small = history.shrink_batches(e, cfg, history.shrink_ops(ops, fails), fails)
            bad[e.name] = {"class": e.name, "cfg": cfg, "nobj": 1, "ops": small,
                           "disagreement": history.check_history(e, cfg, 1, small) or d}
            s.mismatches.append(bad[e.name])
    n, dis = crosscheck_in_coq(cases, outs, ctx.prop + "s", limit=ctx.n(30, 150))
    ctx.oblige("tie:extraction-vs-vm_compute:step-by-step", dis == 0,
               detail=f"{dis} of {n} sampled cases differ between extracted OCaml and in-Coq vm_compute")
    for e in W.ENTRIES:
        m = bad.get(e.name)
        ctx.oblige(f"tie:step:{e.name}", m is None, detail=repr(core.canon(m))[:1500] if m else "")
        if m:
            ctx.violation("failing-input", e.name, {"check": "model-vs-implementation step by step", **m,
                                                    "broken": f"tie:step:{e.name}"})


# ---- implementation only: windowed class vs non-windowed class on the last N -----------------
def ref_value(e, cfg, batches):
    r = e.make_ref(cfg)
    for b in batches:
        a, k = e.args(cfg, b)
        r.update(*a, **k)
    v = e.out_val(r.compute())
    # WeightedCalibration.compute() returns an empty tensor when some task's target sum is 0
    # (the windowed class clamps the denominator at eps instead): the reference is undefined there
    return T("undefined") if v == [] else v


def expected(e, cfg, batches):
    N = e.window(cfg)
    if e.granularity == "sample":
        allb = e.concat(cfg, batches)
        k = e.size(allb)
        lastn = {"x": [r[max(0, k - N):] for r in allb["x"]], "y": [r[max(0, k - N):] for r in allb["y"]],
                 "w": [r[max(0, k - N):] for r in allb["w"]], "wmode": allb["wmode"]}
        return ref_value(e, cfg, [lastn])
    win = ref_value(e, cfg, batches[-N:])
    if cfg["enable_lifetime"]:
        return [ref_value(e, cfg, batches), win]
    return win


def trigger(e, m):
    """The precise situations of the known defect D6 (WindowedBinaryAUROC.compute)."""
    if e.granularity != "sample":
        return None
    if min(m.total_samples, m.max_num_samples) == 1:
        return "window-holds-one-sample"
    if m.total_samples >= m.max_num_samples and bool(torch.all(m.inputs[:, m.next_inserted:] == 0)):
        return "filled-window-with-zero-scores-from-cursor-to-end"
    return None


def ref_stream(ctx):
    s = ctx.stream("windowed class vs non-windowed class on the last N (implementation only)")
    for e in W.ENTRIES:
        cfgs = e.configs(ctx.rng, ctx.quick)
        seen, ok = set(), True
        for h in range(ctx.n(30, 300)):
            cfg = cfgs[h % len(cfgs)]
            N = e.window(cfg)
            nupd = ctx.rng.choice([1, N, N + 1, 2 * N + 1, 3 * N, 5 * N])
            m, batches = e.make(cfg), []
            for k in range(nupd):
                b = e.gen_batch(ctx.rng, cfg, ctx.rng.choice([1, 1, 2, 3, 5]))
                e.update(m, cfg, b)
                batches.append(b)
                got = winlib.safe(lambda: e.out_val(m.compute()))
                want = expected(e, cfg, batches)
                s.case((e.name, repr(cfg), repr(batches)), k >= 1, sample={"class": e.name, "cfg": cfg, "updates": k + 1})
                s.count("class:" + e.name)
                # non-finite references: only the calibration reference (x/0 where the windowed class
                # clamps the denominator at eps) is undefined; NaN results (all-zero weights) are compared
                if not winlib.finite(want) and (e.name == "WindowedWeightedCalibration" or not winlib.finite_or_nan(want)):
                    s.count("reference-undefined:" + e.name)        # e.g. calibration with a zero target sum: x/0
                    continue
                d = close(want, got, e.tol)
                if not d:
                    continue
                trig = trigger(e, m)
                s.count("disagreement:" + (trig or "unexplained"))
                if (e.name, trig) in seen:
                    continue
                seen.add((e.name, trig))
                ok = False
                s.mismatches.append({"class": e.name, "trigger": trig})
                ctx.violation("failing-input", e.name,
                              {"check": "windowed compute() vs non-windowed class on the last N", "class": e.name,
                               "cfg": cfg, "batches": batches, "observed": repr(got), "expected": repr(want),
                               "trigger": trig, "why": d, "broken": f"prop:last-N:{e.name}"},
                              finding_id=winlib.match_finding(ctx.prop, e.name, trig))
        ctx.oblige(f"prop:last-N:{e.name}", ok, detail="" if ok else "see failing inputs")


def replay_findings(ctx):
    """The recorded minimal inputs of the known findings still behave as recorded (otherwise the
    finding is stale and must be removed)."""
    e = W.ENTRIES[4]
    for f in core.load_findings():
        if f.get("property") != ctx.prop or "replay" not in f or f["replay"].get("class") != e.name:
            continue
        r = f["replay"]
        m = e.cls(**r["kwargs"])
        for x, y in r["updates"]:
            m.update(torch.tensor(x), torch.tensor(y))
        got = winlib.safe(lambda: e.out_val(m.compute()))
        still = isinstance(got, T) if r["observed"] == "error" else (not isinstance(got, T) and close(r["observed"], got, e.tol) is None)
        if not still:
            ctx.notes.append(f"known finding {f['id']}: recorded replay no longer reproduces (observed {got!r}) -- stale entry?")


def run(ctx):
    au = W.ENTRIES[4]
    ctx.notes.append(f"WindowedBinaryAUROC.compute(): model {au.model!r} selected by the two D6 witnesses "
                     f"(variant {au.variant}: code = current heuristic + squeeze, cfix = fixes/window-auroc-compute.patch applied)")
    step_stream(ctx)
    streams.hist_corr(ctx, ents=W.ENTRIES, mix=MIX, name="history-correspondence (update-heavy)",
                      nhist=ctx.n(24, 200), nops=(6, 12, 24))
    ref_stream(ctx)
    replay_findings(ctx)
