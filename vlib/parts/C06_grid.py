"""C06 -- boundary scores (on / one ulp beside every threshold, float32 and float64 scores, every threshold
form incl. the int -> linspace default) for every binned functional: exact per-threshold counting, the two
optimisation modes against each other, binned AUROC / AUPRC against the exact functional on floored scores."""
from .. import core, sandbox, binned_grid

LEVEL_NOTE = ("boundary stream: implementation vs exact counting in float64 (float32 -> float64 is lossless); it yields the failing "
              "input for binned_counts_spec / binned_modes_agree / binned_auroc_floor / binned_auprc_floor, whose proofs do not depend on the values")
KINDS = {"counting": "binned_counts_spec", "modes": "binned_modes_agree", "floor": "binned_floor", "exception": "binned_total"}
PROP = "C06"


def run(ctx, kinds=KINDS, prop=PROP):
    s = ctx.stream("scores on / one ulp beside every threshold; all threshold forms; float32 and float64 scores (implementation only)")
    seeds = [ctx.rng.randrange(10 ** 9) for _ in range(ctx.n(420, 6000))]
    chunks = [(seeds[i::12], ctx.quick) for i in range(12)]
    bad = {}
    for (ch, _), (status, val) in zip(chunks, sandbox.run_jobs(binned_grid.job, chunks, timeout=ctx.n(150, 1200), workers=12)):
        if status != "ok":
            ctx.violation("failing-input", "binned-grid", {"check": "binned_grid", "observed": f"worker {status}: {val}", "broken": "tie:binned-grid"})
            continue
        for seed, desc, found in val:
            s.case(("grid", seed), True, sample=desc)
            s.count("threshold_form:" + desc["threshold_form"])
            s.count("score_dtype:" + desc["score_dtype"])
            for kind, fn, d in found:
                if kind in kinds and (kind, fn) not in bad:
                    bad[(kind, fn)] = {"check": "binned_grid", "kind": kind, "function": fn, **desc, "observed": d}
    for (kind, fn), b in sorted(bad.items()):
        ctx.violation("failing-input", fn, {**b, "broken": f"{kinds[kind]}:{fn}"},
                      finding_id=core.match_finding(prop, fn, str(b["observed"])))


def replay(d):
    if d.get("check") != "binned_grid":
        return NotImplemented
    desc, found = binned_grid.run_seed(d["seed"], True)
    if desc.get("threshold_form") != d.get("threshold_form") or desc.get("threshold") != d.get("threshold"):
        desc, found = binned_grid.run_seed(d["seed"], False)
    r = [x for x in found if x[0] == d["kind"] and x[1] == d["function"]]
    return r[0][2] if r else None
