"""C19 -- large ADDENDS: one update whose samples / weights carry more than 24 significant bits.

The boundary-injection streams of C19_acc put a large value into the STATE and add small increments; here the
state starts fresh and the update itself brings values such as 16 777 217, 40 000 001, 2^31 + 1, 2^40 + 3 (per-shard
sample or impression counts used as weights, integer data summed by Sum / Mean).  The total must change by exactly
the amount added: every intermediate of update() has to carry it, not only the registered state.  Implementation
level; decided against exact integer arithmetic in Python.  States stored in a narrow kind are the subject of the
table theorem (narrow_kinds_refuted) and are attributed to that finding.
"""
from __future__ import annotations
import torch

from .. import core, sandbox

LEVEL_NOTE = "large addends (values above 2^24 inside one update) on every class that sums caller-supplied values or weights; exact integer oracle"

BIG = [2 ** 24 + 1, 40000001, 2 ** 31 + 1, 2 ** 40 + 3]
f64, i64 = torch.float64, torch.int64


def table():
    """(label, class name, ctor kwargs, builder(v) -> (args, kwargs), {state: expected exact total as a function of v})"""
    t = torch.tensor
    rows = []
    rows.append(("Sum(float64 data)", "Sum", {}, lambda v: ((t([v, 1], dtype=f64),), {}), {"weighted_sum": lambda v: v + 1}))
    rows.append(("Sum(int64 data)", "Sum", {}, lambda v: ((t([v, 1], dtype=i64),), {}), {"weighted_sum": lambda v: v + 1}))
    rows.append(("Sum(int64 data, float weight)", "Sum", {}, lambda v: ((t([v, 1], dtype=i64),), {"weight": 2.0}), {"weighted_sum": lambda v: 2 * v + 2}))
    rows.append(("Sum(float64 weights)", "Sum", {}, lambda v: ((t([1, 1], dtype=f64),), {"weight": t([v, 2], dtype=f64)}), {"weighted_sum": lambda v: v + 2}))
    rows.append(("Sum(int64 data, float64 weights)", "Sum", {}, lambda v: ((t([v, 3], dtype=i64),), {"weight": t([1, 2], dtype=f64)}), {"weighted_sum": lambda v: v + 6}))
    rows.append(("Mean(float64 data)", "Mean", {}, lambda v: ((t([v, 1], dtype=f64),), {}), {"weighted_sum": lambda v: v + 1, "weights": lambda v: 2}))
    rows.append(("Mean(int64 data)", "Mean", {}, lambda v: ((t([v, 1], dtype=i64),), {}), {"weighted_sum": lambda v: v + 1, "weights": lambda v: 2}))
    rows.append(("Mean(float64 weights)", "Mean", {}, lambda v: ((t([1, 1], dtype=f64),), {"weight": t([v, 2], dtype=f64)}),
                 {"weighted_sum": lambda v: v + 2, "weights": lambda v: v + 2}))
    for cls, kw in (("ClickThroughRate", {}), ("WindowedClickThroughRate", {"max_num_updates": 2})):
        rows.append((cls + "(float64 weights)", cls, kw, lambda v: ((t([1, 0], dtype=f64), t([v, 2], dtype=f64)), {}),
                     {"click_total": lambda v: v, "weight_total": lambda v: v + 2}))
    for cls, kw in (("WeightedCalibration", {}), ("WindowedWeightedCalibration", {"max_num_updates": 2})):
        rows.append((cls + "(float64 weights)", cls, kw, lambda v: ((t([1, 1], dtype=f64), t([1, 0], dtype=f64), t([v, 2], dtype=f64)), {}),
                     {"weighted_input_sum": lambda v: v + 2, "weighted_target_sum": lambda v: v}))
    for cls, kw in (("BinaryNormalizedEntropy", {}), ("WindowedBinaryNormalizedEntropy", {"max_num_updates": 2})):
        rows.append((cls + "(float64 weights)", cls, kw, lambda v: ((t([0.5, 0.5], dtype=f64), t([1, 0], dtype=f64)), {"weight": t([v, 2], dtype=f64)}),
                     {"num_examples": lambda v: v + 2, "num_positive": lambda v: v}))
    for cls, kw in (("MeanSquaredError", {}), ("WindowedMeanSquaredError", {"max_num_updates": 2})):
        rows.append((cls + "(float64 sample_weight)", cls, kw, lambda v: ((t([1, 3], dtype=f64), t([0, 3], dtype=f64)), {"sample_weight": t([v, 2], dtype=f64)}),
                     {"sum_weight": lambda v: v + 2, "sum_squared_error": lambda v: v}))
    rows.append(("Throughput", "Throughput", {}, lambda v: ((v, 2.0), {}), {"num_total": lambda v: v}))
    return rows


def _job(_):
    import torcheval.metrics as M
    out = []
    for label, cname, kw, build, exp in table():
        for v in BIG:
            try:
                m = getattr(M, cname)(**kw)
                a, k = build(v)
                m.update(*a, **k)
                a2, k2 = build(3)
                m.update(*a2, **k2)            # a small second update on top
                for st, f in exp.items():
                    want = f(v) + f(3)
                    cur = getattr(m, st)
                    kind = str(cur.dtype).replace("torch.", "") if isinstance(cur, torch.Tensor) else type(cur).__name__
                    got = cur.to(f64).reshape(-1)[0].item() if isinstance(cur, torch.Tensor) else float(cur)
                    out.append((label, cname, st, kind, v, int(got) if got == int(got) else got, want))
            except Exception as ex:
                out.append((label, cname, "*", "exception", v, f"{type(ex).__name__}: {ex}", None))
    return out


NARROW = {"float32": "F32", "float16": "F16", "bfloat16": "BF16", "int32": "I32", "int16": "I16", "int8": "I8", "uint8": "U8"}


def run(ctx):
    s = ctx.stream("large addends: one update carrying values above 2^24 (implementation vs exact integers)")
    (status, val), = sandbox.run_jobs(_job, [0], timeout=300, workers=1)
    if status != "ok":
        ctx.violation("failing-input", "large-addends", {"check": "c19_addends", "observed": f"worker {status}: {val}", "broken": "tie:c19-addends"})
        return
    known = {}
    for f in core.load_findings():
        if f.get("property") == "C19" and f.get("status") == "known":
            for c, st, k in f.get("pattern", {}).get("accumulators", []):
                known[(c, st, k)] = f["id"]
    seen = set()
    for label, cname, st, kind, v, got, want in val:
        s.case((label, st, v), True, sample={"call": label, "state": st, "kind": kind, "addend": v, "observed": got, "expected": want})
        s.count("kind:" + kind)
        if got == want or (label, st) in seen:
            continue
        seen.add((label, st))
        fid = known.get((cname, st, NARROW.get(kind, "?")))
        if fid is None:
            fid = core.match_finding("C19", cname, label + " " + st)
        ctx.violation("failing-input", f"{cname}.{st}",
                      {"check": "c19_addends", "call": label, "class": cname, "state": st, "kind": kind, "addend": v, "then": 3,
                       "observed": got, "expected": want, "broken": "totals_exact_for_wide_kinds"}, finding_id=fid)


def replay(d):
    if d.get("check") != "c19_addends":
        return NotImplemented
    r = [x for x in _job(0) if x[0] == d["call"] and x[2] == d["state"] and x[4] == d["addend"] and x[5] != x[6]]
    return f"observed {r[0][5]} expected {r[0][6]}" if r else None
