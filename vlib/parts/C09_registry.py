"""C09 -- registration part (L-eff): every attribute written outside __init__ is a registered state,
and the base-class methods of metric.py copy (never alias) what they store."""
from .. import effects_check as EC
from .. import effects_parts as P

GENERATORS = ["tr_effects.py"]
LEVEL_NOTE = ("L-eff registry: written <= registered + derived per class by vm_compute over Generated/Registry.v (AST of every "
              "method but __init__/to; state names and kinds also from instantiating the classes); metric.py's "
              "_add_state/reset/state_dict/load_state_dict translated per state kind; behavioural bisimulation is the "
              "job of the L-val pool model, not of this part")
PROP = "C09"
MODE = "load"
THM = "registry_covers_all_classes"
TABLE = "Props/C09_registry_table.v"
BASE = "Props/C09_registry_base.v"
COPY_MODES = ["state_dict", "load"]


def run(ctx):
    from .. import effects_dyn as D
    rep = P.load_report()
    aborted = P.ties(ctx, rep, ["registry"], base=True)
    P.stale_notes(ctx, rep, PROP)
    classes = D.classes()
    s = ctx.stream("effects:registry (static verdict per class + search on flagged classes)")
    flagged, explained = set(), False
    for cls, ent in rep["classes"].items():
        offs = EC.registry_offences(ent, ent.get("reset_assigned", []) if PROP == "C10" else ())
        s.case((cls, "registry-static"), bool(ent["written"]),
               sample={"class": cls, "registered": [f for f, _ in ent["registered"]], "written": ent["written"]})
        if not offs:
            s.count("registry:ok")
            continue
        flagged.add(cls)
        groups = {}
        for w in offs:
            groups.setdefault(P.excuse_for(rep, "registry", PROP, cls, w), []).append(w)
        for fid, items in groups.items():
            s.count("registry:excused(known-finding)" if fid else "registry:OFFENDER")
            explained = explained or fid is None
            P.report_offence(ctx, s, PROP, cls, THM,
                             {"check": "written <= registered + derived", "unregistered_written_attributes": items,
                              "where": [ent["written_at"].get(w, "") for w in items]},
                             (lambda c=cls: D.probe_registry(c, classes[c], MODE)) if cls in classes else (lambda: (0, None)), fid, "registry")
    P.mark_collateral(ctx, [TABLE], explained)
    base_broken = [a for a in rep["aborted"] if a["class"] == "Metric"]
    P.mark_collateral(ctx, [BASE], bool(base_broken))
    P.base_report(ctx, rep, "state_dict_fresh", "state_dict", "$out", "state_dict", [BASE])
    P.base_report(ctx, rep, "load_copies", "load_state_dict", "$f", "load", [BASE])
    P.base_report(ctx, rep, "add_state_copies", "_add_state", "$f", "add_state", [BASE])
    P.dynamic_validation(ctx, "effects:dyn " + ("load_state_dict(state_dict()) into fresh == original" if MODE == "load" else "reset() == fresh")
                         + " (attributes + continuations, all classes)",
                         lambda n, c: D.probe_registry(n, c, MODE), flagged, "tie:dyn-registry")
    for m in COPY_MODES:
        P.dynamic_validation(ctx, f"effects:dyn copy discipline of metric.py [{m}] (storage identity, all classes)",
                             lambda n, c, m=m: D.probe_copies(n, c, m), set(), f"tie:dyn-copies-{m}")
