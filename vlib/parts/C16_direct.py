"""C16 -- multi-task / multi-class / multi-label results decompose into single tasks.

Implementation-only stream: the multi-slice result of the real code vs the single-slice metric
applied to slice i alone (class and functional forms), on slices with DIFFERENT tie structure and
degeneracy.  The theorems are in Props/C16*.v (masked_scatter row-locality, AUROC decomposition);
metrics implemented as maps over slices are definitional and covered by this tie."""
from __future__ import annotations
import random
import logging
import warnings

import torch

from .. import core, sandbox
from ..compare import close, impl_val
from ..model import T

logging.disable(logging.CRITICAL)
warnings.simplefilter("ignore")

LEVEL_NOTE = "slice results of the real code compared with single-slice calls of the real code; float32 tolerance 2^-17"


def scores(rng, n, style):
    if style == "const":
        return [0.5] * n
    if style == "ties":
        return [rng.randint(0, 3) / 4 for _ in range(n)]
    if style == "distinct":
        den = 64 if n <= 64 else 1024
        xs = rng.sample(range(0, den), n)
        return [x / den for x in xs]
    return [rng.randint(0, 16) / 16 for _ in range(n)]


def labels(rng, n, style):
    if style == "allpos":
        return [1] * n
    if style == "allneg":
        return [0] * n
    return [rng.randint(0, 1) for _ in range(n)]


STY_S = ["const", "ties", "distinct", "grid"]
STY_L = ["allpos", "allneg", "mixed", "mixed", "mixed"]


def task_data(rng, T_, n):
    """(T,n) scores/labels/weights where each row has its own tie structure and degeneracy."""
    s = [scores(rng, n, rng.choice(STY_S)) for _ in range(T_)]
    y = [labels(rng, n, rng.choice(STY_L)) for _ in range(T_)]
    w = [[rng.choice([0.25, 0.5, 1.0, 2.0, 3.0]) for _ in range(n)] for _ in range(T_)]
    return torch.tensor(s), torch.tensor(y), torch.tensor(w, dtype=torch.float64)


def first(ss):
    """single-task results come as 1-element vectors; an EMPTY result is kept as a tag"""
    return [(x[0] if x else T("empty")) if isinstance(x, list) else x for x in ss]


def val(x):
    try:
        return impl_val(x() if callable(x) else x)
    except Exception as ex:  # noqa
        return T("err")


def cls_run(cls, kw, *args, **kwargs):
    def f():
        m = cls(**kw)
        m.update(*args, **kwargs)
        return m.compute()
    return f


def check_rows(multi, singles, combine=None):
    m = val(multi)
    ss = [val(s) for s in singles]
    if isinstance(m, T) and m.tag == "err":
        return None if all(isinstance(x, T) for x in ss) else f"multi-slice call raised but single-slice calls returned {ss!r}"
    if combine is not None:
        ss = combine(ss)
    return close(ss, m, core_tol)


core_tol = None


def cases(rng):
    """yield (name, thunk -> str|None)"""
    import torcheval.metrics as M
    import torcheval.metrics.functional as F
    wide = rng.random() < 0.12          # more than 128 slices: blocked / chunked implementations take another path
    T_ = rng.choice([1, 2, 3]) if not wide else rng.choice([129, 130])
    n = rng.choice([1, 2, 3, 5, 8, 13]) if not wide else rng.choice([3, 5, 8])
    s, y, w = task_data(rng, T_, n)
    # ---- num_tasks metrics
    if T_ > 1 or True:
        sq = (lambda t: t[0]) if False else None
    def rows(t):
        return [t[i] for i in range(T_)]
    S, Y, W = (s, y, w) if T_ > 1 else (s, y, w)
    yield "BinaryAUROC", lambda: check_rows(cls_run(M.BinaryAUROC, {"num_tasks": T_}, s if T_ > 1 else s[0], y if T_ > 1 else y[0], w if T_ > 1 else w[0]),
                                            [cls_run(M.BinaryAUROC, {}, s[i], y[i], w[i]) for i in range(T_)], None if T_ > 1 else (lambda ss: ss[0]))
    yield "binary_auroc", lambda: check_rows(lambda: F.binary_auroc(s, y, num_tasks=T_, weight=w) if T_ > 1 else F.binary_auroc(s[0], y[0], weight=w[0]),
                                             [lambda i=i: F.binary_auroc(s[i], y[i], weight=w[i]) for i in range(T_)], None if T_ > 1 else (lambda ss: ss[0]))
    if T_ > 1:
        yield "BinaryAUPRC", lambda: check_rows(cls_run(M.BinaryAUPRC, {"num_tasks": T_}, s, y), [cls_run(M.BinaryAUPRC, {}, s[i], y[i]) for i in range(T_)])
        yield "binary_auprc", lambda: check_rows(lambda: F.binary_auprc(s, y, num_tasks=T_), [lambda i=i: F.binary_auprc(s[i], y[i]) for i in range(T_)])
        th = torch.tensor(sorted(set([0.0, 1.0] + [rng.randint(0, 4) / 4 for _ in range(3)])))
        # binned AUROC accepts threshold lists that do not start at 0: scores below the first threshold exist
        th2 = th if rng.random() < 0.5 else torch.tensor(sorted({rng.randint(1, 4) / 4 for _ in range(3)} | {1.0}))
        yield "BinaryBinnedAUROC", lambda: check_rows(lambda: cls_run(M.BinaryBinnedAUROC, {"num_tasks": T_, "threshold": th2}, s, y)()[0],
                                                      [lambda i=i: cls_run(M.BinaryBinnedAUROC, {"threshold": th2}, s[i], y[i])()[0] for i in range(T_)],
                                                      first)
        yield "BinaryBinnedAUPRC", lambda: check_rows(cls_run(M.BinaryBinnedAUPRC, {"num_tasks": T_, "threshold": th}, s, y),
                                                      [cls_run(M.BinaryBinnedAUPRC, {"threshold": th}, s[i], y[i]) for i in range(T_)])
        p = (s * 0.75 + 0.125).double()
        yield "BinaryNormalizedEntropy", lambda: check_rows(cls_run(M.BinaryNormalizedEntropy, {"num_tasks": T_}, p, y.double(), weight=w),
                                                            [cls_run(M.BinaryNormalizedEntropy, {}, p[i], y[i].double(), weight=w[i]) for i in range(T_)],
                                                            first)
        yield "ClickThroughRate", lambda: check_rows(cls_run(M.ClickThroughRate, {"num_tasks": T_}, y, w), [cls_run(M.ClickThroughRate, {}, y[i], w[i]) for i in range(T_)],
                                                     first)
        yield "WeightedCalibration", lambda: check_rows(cls_run(M.WeightedCalibration, {"num_tasks": T_}, s, y.float(), w.float()),
                                                        [cls_run(M.WeightedCalibration, {}, s[i], y[i].float(), w[i].float()) for i in range(T_)],
                                                        first)
        N = rng.choice([2, 3])
        yield "WindowedBinaryAUROC", lambda: check_rows(cls_run(M.WindowedBinaryAUROC, {"num_tasks": T_, "max_num_samples": max(2, n - 1)}, s + 0.03125, y, w),
                                                        [cls_run(M.WindowedBinaryAUROC, {"max_num_samples": max(2, n - 1)}, s[i] + 0.03125, y[i], w[i]) for i in range(T_)]) if n >= 3 else None
        yield "WindowedClickThroughRate", lambda: check_rows(lambda: cls_run(M.WindowedClickThroughRate, {"num_tasks": T_, "max_num_updates": N}, y, w)(),
                                                             [lambda i=i: cls_run(M.WindowedClickThroughRate, {"max_num_updates": N}, y[i], w[i])() for i in range(T_)],
                                                             lambda ss: [[x[0][0] for x in ss], [x[1][0] for x in ss]] if all(isinstance(x, list) for x in ss) else ss)
    # ---- multiclass one-vs-rest
    C = rng.choice([2, 3, 4]) if not wide else rng.choice([129, 130, 257])
    logits = torch.tensor([scores(rng, C, rng.choice(STY_S)) for _ in range(n)])
    tgt = torch.tensor([rng.randrange(C) if rng.random() < 0.8 else 0 for _ in range(n)])
    ovr = [(logits[:, c], (tgt == c).long()) for c in range(C)]
    yield "MulticlassAUROC", lambda: check_rows(cls_run(M.MulticlassAUROC, {"num_classes": C, "average": None}, logits, tgt),
                                                [lambda c=c: F.binary_auroc(*ovr[c]) for c in range(C)])
    yield "multiclass_auroc(macro)", lambda: check_rows(lambda: F.multiclass_auroc(logits, tgt, num_classes=C, average="macro"),
                                                        [lambda c=c: F.binary_auroc(*ovr[c]) for c in range(C)], lambda ss: sum(ss) / len(ss) if all(not isinstance(x, T) for x in ss) else ss)
    yield "MulticlassAUPRC", lambda: check_rows(cls_run(M.MulticlassAUPRC, {"num_classes": C, "average": None}, logits, tgt),
                                                [lambda c=c: F.binary_auprc(*ovr[c]) for c in range(C)])
    yield "multiclass_precision_recall_curve", lambda: check_rows(lambda: [list(x) for x in zip(*F.multiclass_precision_recall_curve(logits, tgt, num_classes=C))],
                                                                  [lambda c=c: list(F.binary_precision_recall_curve(*ovr[c])) for c in range(C)])
    pred = logits.argmax(dim=1)
    for nm, f, bf in (("multiclass_precision", F.multiclass_precision, F.binary_precision), ("multiclass_recall", F.multiclass_recall, F.binary_recall),
                      ("multiclass_f1_score", F.multiclass_f1_score, F.binary_f1_score)):
        yield nm + "(None)", lambda f=f, bf=bf: check_rows(lambda: f(pred, tgt, num_classes=C, average=None),
                                                           [lambda c=c: bf((pred == c).float(), (tgt == c).long()) for c in range(C)])
    # ---- multilabel per label
    L = rng.choice([2, 3]) if not wide else rng.choice([129, 130])
    ls = torch.tensor([scores(rng, n, rng.choice(STY_S)) for _ in range(L)]).T.contiguous()
    ly = torch.tensor([labels(rng, n, rng.choice(STY_L)) for _ in range(L)]).T.contiguous()
    yield "MultilabelAUPRC", lambda: check_rows(cls_run(M.MultilabelAUPRC, {"num_labels": L, "average": None}, ls, ly),
                                                [lambda l=l: F.binary_auprc(ls[:, l], ly[:, l]) for l in range(L)])
    yield "multilabel_precision_recall_curve", lambda: check_rows(lambda: [list(x) for x in zip(*F.multilabel_precision_recall_curve(ls, ly, num_labels=L))],
                                                                  [lambda l=l: list(F.binary_precision_recall_curve(ls[:, l], ly[:, l])) for l in range(L)])
    mp = rng.choice([0.0, 0.25, 0.5, 0.75, 1.0])
    yield "multilabel_recall_at_fixed_precision", lambda: check_rows(lambda: [list(x) for x in zip(*F.multilabel_recall_at_fixed_precision(ls, ly, num_labels=L, min_precision=mp))],
                                                                     [lambda l=l: list(F.binary_recall_at_fixed_precision(ls[:, l], ly[:, l], min_precision=mp)) for l in range(L)])
    # ---- toolkit.classwise_converter: entry i of the un-averaged result under the key of class i
    from torcheval.metrics.toolkit import classwise_converter
    res = F.multiclass_precision(pred, tgt, num_classes=C, average=None)
    labs = [f"L{rng.randrange(1000)}_{c}" for c in range(C)]

    def conv_ok():
        a = classwise_converter(res, "p")
        b = classwise_converter(res, "p", labs)
        if list(a) != [f"p_{i}" for i in range(C)] or list(b) != [f"p_{x}" for x in labs]:
            return "classwise_converter: wrong keys / key order"
        for i in range(C):
            if not torch.equal(a[f"p_{i}"], res[i]) or not torch.equal(b[f"p_{labs[i]}"], res[i]):
                return f"classwise_converter: entry of class {i} is not result[{i}]"
        for wrong in (labs[:-1], labs + ["x"]):
            try:
                classwise_converter(res, "p", wrong)
                return "classwise_converter accepted a label list whose length differs from the number of classes"
            except ValueError:
                pass
        two = torch.stack([res, res + 1], dim=1)                 # (C, 2): split along the FIRST dimension
        c2 = classwise_converter(two, "q")
        if len(c2) != C or not torch.equal(c2[f"q_{C - 1}"], two[C - 1]):
            return "classwise_converter: 2-D input not split along its first dimension"
        return None
    yield "classwise_converter", conv_ok
    # ---- multi-output regression
    D = rng.choice([2, 3]) if not wide else 130
    a = torch.tensor([[rng.randint(-8, 8) / 4 for _ in range(D)] for _ in range(max(n, 2))])
    b = torch.tensor([[rng.randint(-8, 8) / 4 for _ in range(D)] for _ in range(max(n, 2))])
    sw = torch.tensor([rng.choice([0.5, 1.0, 2.0]) for _ in range(max(n, 2))])
    yield "mean_squared_error(raw_values)", lambda: check_rows(lambda: F.mean_squared_error(a, b, sample_weight=sw, multioutput="raw_values"),
                                                               [lambda d=d: F.mean_squared_error(a[:, d], b[:, d], sample_weight=sw) for d in range(D)])
    yield "R2Score(raw_values)", lambda: check_rows(cls_run(M.R2Score, {"multioutput": "raw_values"}, a, b),
                                                    [cls_run(M.R2Score, {}, a[:, d], b[:, d]) for d in range(D)])
    # ---- retrieval queries
    Q = rng.choice([2, 3]) if not wide else 130
    k = rng.choice([1, 2, 3, 5, 8])           # often more than the documents of the shorter queries
    lim = rng.random() < 0.5
    idx = torch.tensor([rng.randrange(Q) for _ in range(n)] + list(range(Q)))
    rs = torch.tensor(rng.sample(range(1, 2000), n + Q)) / 2048
    ry = torch.tensor([rng.randint(0, 1) for _ in range(n + Q)])
    for nm, cls in (("RetrievalPrecision", M.RetrievalPrecision), ("RetrievalRecall", M.RetrievalRecall)):
        yield nm, lambda cls=cls: check_rows(cls_run(cls, {"k": k, "num_queries": Q, "avg": "none", "limit_k_to_size": lim}, rs, ry, indexes=idx),
                                             [lambda q=q: cls_run(cls, {"k": k, "limit_k_to_size": lim}, rs[idx == q], ry[idx == q])() for q in range(Q)],
                                             first)


def _job(seeds):
    global core_tol
    from ..compare import TOL32
    core_tol = TOL32
    out = []
    for seed in seeds:
        rng = random.Random(seed)
        for name, thunk in cases(rng):
            try:
                d = thunk()
            except Exception as ex:
                d = f"harness exception {type(ex).__name__}: {ex}"
            out.append((name, seed, d))
    return out


def run(ctx):
    s = ctx.stream("multi-slice vs single-slice (implementation only)")
    seeds = [ctx.rng.randrange(10 ** 9) for _ in range(ctx.n(60, 1200))]
    chunks = [seeds[i::12] for i in range(12)]
    res = sandbox.run_jobs(_job, chunks, timeout=ctx.n(150, 1200), workers=12)
    bad = {}
    for ch, (status, val_) in zip(chunks, res):
        if status != "ok":
            ctx.violation("failing-input", "C16-stream", {"check": "c16", "observed": f"worker {status}: {val_}", "seeds": ch[:5], "broken": "tie:c16"})
            continue
        for name, seed, d in val_:
            s.case((name, seed), True, sample={"metric": name, "seed": seed})
            s.count("metric:" + name)
            if d and name not in bad:
                bad[name] = {"check": "c16", "metric": name, "seed": seed, "observed": d}
    for name, b in sorted(bad.items()):
        ctx.violation("failing-input", name, {**b, "broken": f"decompose:{name}"},
                      finding_id=core.match_finding("C16", name, str(b["observed"])))


def replay(d):
    if d.get("check") != "c16":
        return NotImplemented
    r = [x for x in _job([d["seed"]]) if x[0] == d["metric"] and x[2]]
    return r[0][2] if r else None
