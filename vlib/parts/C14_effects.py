"""C14 item 1 -- commit discipline of update(), static effect layer (L-eff)."""
import re

from .. import core
from .. import effects_check as EC
from .. import effects_parts as P

GENERATORS = ["tr_effects.py"]
LEVEL_NOTE = ("L-eff commit order: commit_discipline_sound proved for structured skeletons; per-class verdicts by vm_compute over "
              "skeletons regenerated from the Python AST; a statement may raise iff it contains a call outside the whitelist "
              "(.to/.detach/.clone/.size/.dim/.numel/len/range/isinstance, in-place accumulation of an already computed statistic onto a field whose shape is fixed by the constructor; "
              "an in-place write onto a DATA-SHAPED field -- one that update() itself re-binds to a computed tensor -- is fallible: "
              "MayRaise 'inplace:f', accepted only as the first state write of a path); "
              "discharge list (calls assumed total after whole-tensor validation): BinaryBinnedAUPRC per-task _update, "
              "RetrievalPrecision/Recall per-query cat/get_topk/gather, PeakSignalNoiseRatio target.min/max; "
              "native-kernel memory safety is not claimed by this part")
TABLE = "Props/C14_effects_table.v"


def discharge_list():
    txt = (core.COQ / "Models" / "EffectsTables.v").read_text()
    m = re.search(r"Definition commit_discharge[^:]*:[^=]*:=\s*\[(.*?)\]\.", txt, re.S)
    return [(a, b) for a, b in re.findall(r'\("([^"]+)",\s*"([^"]+)"\)', m.group(1))] if m else []


def run(ctx):
    from .. import effects_dyn as D
    rep = P.load_report()
    aborted = P.ties(ctx, rep, ["update"], base=False)
    P.stale_notes(ctx, rep, "C14")
    classes = D.classes()
    dis = discharge_list()
    s = ctx.stream("effects:commit-order of update() (static verdict per class + search on flagged classes)")
    flagged, explained = set(), bool(aborted - {"functional", "Metric"})
    for cls, ent in rep["classes"].items():
        sk = ent["methods"].get("update")
        if sk is None:
            s.count("commit:untranslated")
            continue
        d = [l for c, l in dis if c == cls]
        raw = EC.dirty_raises(sk)
        labels = [l for l in raw if l not in d]
        s.case((cls, "commit-static"), any(a for a in EC.atoms(sk)), sample={"class": cls, "calls_after_write": raw, "discharged": d})
        if not labels:
            s.count("commit:ok" if not raw else "commit:ok-by-discharge")
            continue
        flagged.add(cls)
        groups = {}
        for l in labels:
            groups.setdefault(P.excuse_for(rep, "commit", "C14", cls, l), []).append(l)
        for fid, items in groups.items():
            s.count("commit:excused(known-finding)" if fid else "commit:OFFENDER")
            explained = explained or fid is None
            P.report_offence(ctx, s, "C14", cls, "commit_discipline_all_classes",
                             {"check": "commit order (no fallible call after a state write)", "calls_after_state_write": items,
                              "where": [x for x in P.sites_of(rep, cls, method="update")][:8]},
                             (lambda c=cls: D.probe_atomic(c, classes[c])) if cls in classes else (lambda: (0, None)), fid, "commit")
    P.mark_collateral(ctx, [TABLE], explained)
    P.dynamic_validation(ctx, "effects:dyn raising-update-leaves-state-unchanged (all classes, malformed calls)", D.probe_atomic,
                         flagged, "tie:dyn-atomic")
