"""C03, retrieval classes: class vs functional on the concatenated data, with precise attribution of
the two known defects (the entries opt out of the generic stream with has_functional=False because
the generic stream can only attribute by class name)."""
from ..compare import close
from ..model import T
from ..families import ranking as R
from . import C08_ranking as P8

LEVEL_NOTE = ("retrieval classes: class = functional(concatenation) holds exactly where Props/C08_ranking.v "
              "retrieval_precision_class_eq / retrieval_recall_class_eq_partial say so; other disagreements are attributed "
              "only when the as-is Coq model predicts the class value and every disagreeing query matches a known pattern")

MAP = {P8.F_D3: "C03-retrieval-recall-retained-denominator", P8.F_D4: "C03-retrieval-empty-target-after-pruning"}


def run(ctx):
    s = ctx.stream("retrieval class-vs-functional(concatenation)")
    for e in R.ENTRIES:
        if e.family != "pruned":
            continue
        cfgs = [c for c in e.configs(ctx.rng, ctx.quick)]
        found = set()
        for t in range(ctx.n(60, 600)):
            cfg = dict(cfgs[t % len(cfgs)])
            cfg["num_queries"], cfg["avg"] = 1, None if cfg["avg"] == "macro" else cfg["avg"]   # the functional has no queries
            nb = ctx.rng.choice([1, 2, 3, 5, 8])
            batches = [e.gen_batch(ctx.rng, cfg, ctx.rng.choice([1, 2, 3, 7, 16])) for _ in range(nb)]
            cat = e.concat(cfg, batches)
            if cat is None or not e.defined(cfg, batches):
                continue
            a = P8.impl_class(e, cfg, batches)
            try:
                f = e.fn_val(e.functional(cfg, cat))
            except Exception:
                f = T("err")
            d = None if (isinstance(a, T) and isinstance(f, T) and a.tag == f.tag == "err") else close(f, a, e.tol)
            s.case((e.name, repr(cfg), repr(batches)), len(batches) >= 2, sample={"class": e.name, "cfg": cfg, "batches": len(batches)})
            s.count("class:" + e.name)
            if not d:
                continue
            fid = MAP.get(P8.attribute(e, cfg, batches, f, a))
            s.count("disagree:" + str(fid))
            if fid in found:
                continue
            found.add(fid)
            s.mismatches.append({"class": e.name, "finding": fid})
            ctx.violation("failing-input", e.name,
                          {"check": "class_vs_functional", "class": e.name, "cfg": cfg, "batches": batches, "functional": f,
                           "class_result": a, "observed": d, "broken": f"class=functional:{e.name}"}, finding_id=fid)
        ctx.oblige(f"class=functional:{e.name}", not found, detail="disagreements attributed to: " + ", ".join(map(str, found)))
