"""C11 -- non-interference, static effect layer (L-eff): alias check, compute purity and functional
argument immutability over the skeletons regenerated from the Python AST on every run."""
from .. import effects_check as EC
from .. import effects_parts as P

GENERATORS = ["tr_effects.py"]
LEVEL_NOTE = ("L-eff: alias_check_sound / compute_pure_sound proved over an abstract tensor heap; per-class verdicts are "
              "vm_compute over skeletons regenerated from the Python AST (fail-closed translator tools/tr_effects.py); "
              "soundness is relative to the torch alias-classification table of the translator (view/.to/.detach = alias, "
              "other calls = fresh), which the dynamic probes (merge/update/compute on the real classes) exercise on every run; "
              "field kinds (tensor / list / number) come from instantiating the classes")
ALIAS = "Props/C11_effects_alias.v"
PURE = "Props/C11_effects_pure.v"
FNARGS = "Props/C11_effects_fnargs.v"


def alias_search(D, name, cls, items):
    """a write through an alias of an argument is searched with the argument probe first"""
    n = 0
    if any(a[0] == "Clobber" and a[1][0] == "ArgAlias" for a in items):
        n, w = D.probe_args(name, cls)
        if w:
            return n, w
    n2, w = D.probe_alias(name, cls)
    return n + n2, w


def run(ctx):
    from .. import effects_dyn as D
    rep = P.load_report()
    aborted = P.ties(ctx, rep, P.ENTRY, functionals=True)
    P.stale_notes(ctx, rep, "C11")
    classes = D.classes()
    base = rep["base"]

    # ---- alias check ---------------------------------------------------------------------------
    s = ctx.stream("effects:alias-check (static verdict per class + search on flagged classes)")
    flagged, explained = set(), bool(aborted - {"functional"})
    flagged_args = set()
    base_caused = {}
    for cls, ent in rep["classes"].items():
        atoms = EC.class_atoms(ent, base)
        offs = EC.alias_offences(atoms)
        own = set(EC.class_atoms(ent, {}))
        for a in [a for a in offs if a not in own]:        # offence introduced by a metric.py method
            base_caused.setdefault(cls, []).append(a)
        offs = [a for a in offs if a in own]
        ip = sorted(EC.ip_fields(atoms))
        s.case((cls, "alias-static"), bool(ip), sample={"class": cls, "in_place_fields": ip, "offences": [list(a) for a in offs]})
        if not offs:
            s.count("alias:ok")
            continue
        flagged.add(cls)
        groups = {}
        for a in offs:
            groups.setdefault(P.excuse_for(rep, "alias", "C11", cls, a), []).append(a)
        for fid, items in groups.items():
            s.count("alias:excused(known-finding)" if fid else "alias:OFFENDER")
            explained = explained or fid is None
            P.report_offence(ctx, s, "C11", cls, "noninterference_all_classes",
                             {"check": "alias (C1/C1'/C2)", "offending_statements": [list(a) for a in items],
                              "where": sum((P.sites_of(rep, cls, atom=a) for a in items), [])},
                             (lambda c=cls, it=items: alias_search(D, c, classes[c], it)) if cls in classes else (lambda: (0, None)), fid, "alias")
            if any(a[0] == "Clobber" and a[1][0] == "ArgAlias" for a in items):
                flagged_args.add(cls)
    if base_caused:
        s.count("alias:OFFENDER(base class)", len(base_caused))
        explained = True
        first = next(iter(base_caused))
        w = None
        for mode in ("reset", "load", "state_dict", "add_state"):
            for c in list(base_caused)[:6]:
                try:
                    _, w = D.probe_copies(c, classes[c], mode)
                except Exception:  # noqa: BLE001
                    w = None
                if w:
                    break
            if w:
                break
        detail = {"broken": "noninterference_all_classes", "check": "alias (C1/C1'/C2) -- offence introduced by a base-class method of metric.py",
                  "affected_classes": sorted(base_caused), "offending_statements": [list(a) for a in base_caused[first]],
                  "where": [f"{x['method']}[{x.get('kind')}]:{x['line']}: {x['src']}" for x in rep["sites"].get("Metric", [])
                            if any(tuple(P.tup(x["atom"]))[0] == a[0] and len(a) > 2 and P.tup(x["atom"])[-1][0] == a[2][0] for a in base_caused[first])][:6]}
        if w:
            ctx.violation("failing-input", "Metric (base class)", dict(detail, **w))
        else:
            ctx.violation("no-failing-input-found", "Metric (base class)", detail)
    P.mark_collateral(ctx, [ALIAS], explained)

    # ---- compute purity ------------------------------------------------------------------------
    s2 = ctx.stream("effects:compute-purity (static verdict per class + search on flagged classes)")
    flagged_p, explained_p = set(), bool(aborted - {"functional"})
    for cls, ent in rep["classes"].items():
        sk = ent["methods"].get("compute")
        offs = EC.purity_offences(sk, {f for f, _ in ent["registered"]}) if sk is not None else []
        s2.case((cls, "pure-static"), sk is not None and bool(EC.atoms(sk)))
        if not offs:
            s2.count("pure:ok")
            continue
        flagged_p.add(cls)
        groups = {}
        for a in offs:
            groups.setdefault(P.excuse_for(rep, "pure", "C11", cls, a), []).append(a)
        for fid, items in groups.items():
            s2.count("pure:excused(known-finding)" if fid else "pure:OFFENDER")
            explained_p = explained_p or fid is None
            P.report_offence(ctx, s2, "C11", cls, "compute_pure_all_classes",
                             {"check": "compute purity", "offending_statements": [list(a) for a in items],
                              "where": sum((P.sites_of(rep, cls, atom=a, method="compute") for a in items), [])},
                             (lambda c=cls: D.probe_pure(c, classes[c])) if cls in classes else (lambda: (0, None)), fid, "pure")
    P.mark_collateral(ctx, [PURE], explained_p)

    # ---- functional arguments ------------------------------------------------------------------
    s3 = ctx.stream("effects:functional-args (static verdict per function)")
    s3.exhaustive = True
    bad = False
    for fn, mut in rep["functionals"].items():
        s3.case((fn,), True)
        if mut is None:
            s3.count("fn:untranslated")
            bad = True
        elif mut:
            s3.count("fn:OFFENDER")
            bad = True
            ctx.violation("no-failing-input-found", fn,
                          {"broken": "functional_args_unmodified", "function": fn, "mutated_parameters": mut,
                           "explanation": "a statement of this function (or of a torcheval callee) writes in place into a parameter or a local alias of one"})
        else:
            s3.count("fn:ok")
    P.mark_collateral(ctx, [FNARGS], bad and "functional" in aborted)

    # ---- dynamic validation of the static verdicts on every class --------------------------------
    P.dynamic_validation(ctx, "effects:dyn merge-leaves-sources-unchanged (all classes)", D.probe_alias, flagged, "tie:dyn-alias")
    P.dynamic_validation(ctx, "effects:dyn compute-pure-and-idempotent (all classes)", D.probe_pure, flagged_p, "tie:dyn-pure")
    P.dynamic_validation(ctx, "effects:dyn update-leaves-arguments-unchanged (all classes)", D.probe_args, flagged_args, "tie:dyn-args")
