"""C11 -- syncing leaves the local metric's results unchanged and can be repeated with the same outcome (every class,
checking transport); using the synced metric never reaches the local one."""
from .. import syncdirect

LEVEL_NOTE = ("sync non-interference: every catalogue class, W = 2..4 on the checking transport: local compute() before vs after "
              "sync_and_compute / get_synced_metric, first vs second sync, updates of the synced metric vs the local one")


def run(ctx):
    syncdirect.stream(ctx, {"c11-local", "c11-repeat"}, "sync leaves the local metric unchanged and is repeatable, every class (implementation only)", ctx.n(6, 60))


replay = syncdirect.replay
