"""C11 -- syncing leaves the local metric's results unchanged and can be repeated with the same outcome (every class,
checking transport); using the synced metric never reaches the local one.

Theorems: coq/Props/C11_sync.v (proofs in Proofs/SyncNonInterfP.v, Proofs/SyncInstancesP.v).  Streams here:
  * the implementation-level sync stream of vlib/syncdirect.py (every catalogue class);
  * a prep-heavy history correspondence for the classes that override _prepare_for_merge_state: the model's `prep`
    (the thing PrepLaws talks about) against the real hook, state by state;
  * a table obligation: the set of catalogue classes overriding the hook is exactly the set whose model has a
    non-identity prep and a <Class>_PrepLaws theorem (a new override in an additive / hand-written class would make
    the identity-prep instance describe the wrong thing)."""
from .. import syncdirect, streams
from ..catalogue import entries

LEVEL_NOTE = ("Props/C11_sync.v: PrepLaws M c (prep idempotent; cmp (prep s) = cmp s; every later history -- updates, merges with "
              "arbitrary sources, computes, preps -- and every object the local one is later merged into show the same results and "
              "raises) gives sync_leaves_local_results_unchanged (effect of k syncs on the local object modelled as "
              "local_after_syncs = prep^k, identity for world size 1), sync_repeatable (toolkit model of C02 instantiated with the "
              "value model: the repeated sync is the same per-rank program, same outcome incl. mismatch), sync_repeatable_merged / "
              "sync_collection_repeatable (with C02 sync_equals_local_merge_exact), synced_metric_is_independent / "
              "synced_metric_use_keeps_local_results (pool frame). PrepLaws instances: additive functor, cache functor, score caches, "
              "AUC, all identity-prep models; one <Class>_PrepLaws per overriding class. Assumed/tied, not proved: that the toolkit "
              "writes the local object only through _prepare_for_merge_state and that clone_metric shares no storage (skeletons of "
              "tr_effects + the sync stream below on W = 2..4: local compute() and states before vs after sync, first vs second "
              "sync, updates of the synced metric vs the local one); model prep = real hook (prep-heavy history correspondence)")

# classes with a non-identity prep in their model and a per-class theorem in Props/C11_sync.v
PREP_CLASSES = ["Cat", "AUC", "BinaryBinnedAUROC", "MulticlassBinnedAUROC", "BinaryAUROC", "MulticlassAUROC", "BinaryAUPRC",
                "MulticlassAUPRC", "MultilabelAUPRC", "BinaryPrecisionRecallCurve", "MulticlassPrecisionRecallCurve",
                "MultilabelPrecisionRecallCurve", "BinaryRecallAtFixedPrecision", "MultilabelRecallAtFixedPrecision",
                "HitRate", "ReciprocalRank"]


def _overriding():
    from torcheval.metrics.metric import Metric
    return [e for e in entries() if getattr(e.cls, "_prepare_for_merge_state", None) is not Metric._prepare_for_merge_state]


def run(ctx):
    syncdirect.stream(ctx, {"c11-local", "c11-repeat"}, "sync leaves the local metric unchanged and is repeatable, every class (implementation only)", ctx.n(6, 60))
    ov = _overriding()
    names = sorted(e.name for e in ov)
    ctx.oblige("tie:prep-override-set", names == sorted(PREP_CLASSES),
               detail=f"classes overriding _prepare_for_merge_state: {names}; classes with a non-identity prep model and theorem: {sorted(PREP_CLASSES)}")
    streams.hist_corr(ctx, ents=ov, mix={"upd": 8, "merge": 3, "compute": 4, "prep": 6, "clone": 1, "reset": 0.5},
                      name="prep-correspondence (classes overriding _prepare_for_merge_state)", nhist=ctx.n(8, 80))


replay = syncdirect.replay
