"""C19 -- addend PATHS: storage kind + the kinds an addend passes through inside update().

The table coq/Generated/AccPaths.v (class, state, update-call layout, storage kind, effective path kind) is probed
from the real classes on every run (tools/introspect_path.py); Props/C19_path_table.v proves by vm_compute that every
row is wide or a recorded finding, and that every recorded exception is still live.  This part
  * reports each narrow row with its failing input (fresh object, one update whose addend is edge + 1);
  * ties the path model to the real code, bit-exactly through the extracted model: every row's class is started from
    an injected (large) state, one update of the layout with a (large, also negative) addend is applied, and the state
    is compared element by element with acc_add_via [path kind] storage (acc_add_fused [] storage for the rows whose
    in-place add torch computes in the promoted kind);
  * states the property on the implementation: the observed total must be injected + addend exactly.
"""
from __future__ import annotations
import re

from .. import accpath as P, core
from ..model import run_model, crosscheck_in_coq

GENERATORS = ["introspect_path.py"]
LEVEL_NOTE = ("addend paths: effective kind of every (class, state, update-call layout) probed dynamically with addends 2^k+1; "
              "single-addend model (batches that sum several large addends in a narrow intermediate are outside acc_add_via); "
              "layouts come from C19_addends.table() and from the floating / numeric arguments of vlib/basecalls.py")


def table():
    txt = (core.COQ / "Generated" / "AccPaths.v").read_text()
    rows = re.findall(r'\("(\w+)", "(\w+)", "([^"]+)", (\w+), (\w+)\)', txt)
    fused = set(re.findall(r'^\s*\("(\w+)", "(\w+)", "([^"]+)"\)', txt, re.M))
    return rows, fused


def known_maps():
    paths, accs = {}, {}
    for f in core.load_findings():
        if f.get("property") == "C19" and f.get("status") == "known":
            for c, s, l, k in f.get("pattern", {}).get("paths", []):
                paths[(c, s, l, k)] = f["id"]
            for c, s, k in f.get("pattern", {}).get("accumulators", []):
                accs[(c, s, k)] = f["id"]
    return paths, accs


def finding_of(row, paths, accs):
    c, s, l, sk, pk = row
    fid = paths.get((c, s, l, pk))
    if fid is None and sk == pk:
        fid = accs.get((c, s, sk))
    return fid


def broken_name(row, fid):
    """A narrow row that is NOT recorded breaks the table theorem.  A recorded row does not (the theorem excuses it);
    what it refutes is the wideness hypothesis of totals_exact_for_wide_paths for that row, named per row."""
    c, st, l, sk, pk = row
    return "all_paths_wide_or_known" if fid is None else f"wide-path:{c}.{st}:{l}"


def bases(sk, rng, quick):
    e = P.EDGE[sk] if sk not in P.WIDE else 2 ** 53
    if sk in P.WIDE:
        b = [0, 3, 2 ** 24 - 1, 2 ** 24 + 1, 2 ** 31 + 1, 2 ** 40 + 3, 2 ** 52 + 1]
    else:
        b = [0, 1, e - 2, e, e + 2, 2 * e + 4]
    b += [rng.randrange(2 ** rng.choice([10, 23, 25, 33, 47, 52])) for _ in range(2 if quick else 8)]
    return b


def addends(sk, pk, rng, quick):
    e = P.EDGE[pk] if pk not in P.WIDE else 2 ** 24
    v = [e + 1, e + 3, 2 * e + 2, 40000001, 2 ** 31 + 1, 2 ** 40 + 3, 5, -(e + 1), -(2 ** 31 + 3)]
    v += [rng.randrange(2 ** 24, 2 ** rng.choice([26, 33, 45, 51])) | 1 for _ in range(2 if quick else 8)]
    return v


def run(ctx):
    rows, fused = table()
    kpaths, kaccs = known_maps()
    lays = {lay.name: lay for lay in P.all_layouts()[0]}

    # ---- the narrow rows, each with a failing input --------------------------------------------------------------
    s1 = ctx.stream("addend-path table (fresh object, one update with addend edge+1, real class vs exact integers)")
    s1.dist["rows"] = len(rows)
    fits = {}
    for row in rows:
        c, st, l, sk, pk = row
        lay = lays.get(l)
        if lay is None:
            ctx.oblige(f"tie:accpath-layout:{l}", False, detail="layout named by AccPaths.v is not produced by vlib/accpath.py")
            continue
        f = P.fit(lay)
        if st not in f:
            ctx.oblige(f"tie:accpath-fit:{c}.{st}:{l}", False, detail="no exact affine dependence of the state on the addend")
            continue
        fits[row] = f[st]
        s1.count("path:" + pk)
        s1.count("storage:" + sk)
        if pk in P.WIDE:
            s1.case((c, st, l), True)
            continue
        a, b = f[st]
        V = P.EDGE[pk] + 1
        try:
            obs = P.apply(lay, V)[st][1]
        except Exception as ex:
            ctx.oblige(f"tie:accpath-probe:{c}.{st}:{l}", False, detail=f"{type(ex).__name__}: {ex}")
            continue
        want = [aa + bb * V for aa, bb in zip(a, b)]
        s1.case((c, st, l), True, sample={"class": c, "state": st, "layout": l, "storage": sk, "path": pk, "addend": V,
                                            "observed": obs[:4], "expected": want[:4]})
        fid = finding_of(row, kpaths, kaccs)
        if obs != want:
            ctx.violation("failing-input", f"{c}.{st}",
                          {"check": "c19_path", "class": c, "state": st, "layout": l, "storage_kind": sk, "path_kind": pk,
                           "base": 0, "addend": V, "observed": obs[:8], "expected": want[:8], "broken": broken_name(row, fid)},
                          finding_id=fid)
        elif fid is None:
            ctx.violation("no-failing-input-found", f"{c}.{st}",
                          {"broken": "all_paths_wide_or_known", "class": c, "state": st, "layout": l, "path_kind": pk,
                           "explanation": "row classified narrow but the addend edge+1 was kept"})

    # ---- correspondence: injected state + large addend, real class vs extracted acc_add_via / acc_add_fused -------
    s2 = ctx.stream("addend-path injection (real class from an injected state plus one large addend vs acc_add_via, bit-exact)")
    mcases, meta = [], []
    for row in rows:
        if row not in fits:
            continue
        c, st, l, sk, pk = row
        a, b = fits[row]
        lay = lays[l]
        mode = "fused" if (c, st, l) in fused else "conv"
        bs, vs = bases(sk, ctx.rng, ctx.quick), addends(sk, pk, ctx.rng, ctx.quick)
        pairs = [(bs[i % len(bs)], v) for i, v in enumerate(vs)] + [(bb, vs[i % 3]) for i, bb in enumerate(bs)]
        if not ctx.quick:
            pairs = [(bb, v) for bb in bs for v in vs]
        done = 0
        for base, V in pairs:
            xs = [aa + bb * V for aa, bb in zip(a, b)]
            if max(abs(x) for x in xs) >= P.LIMIT or (sk in ("U8",) and base < 0):
                continue
            try:
                inj, obs = P.run_from(lay, st, base, V)
            except Exception:
                s2.count("rejected-by-update" if V < 0 else "rejected")
                continue
            if not all(isinstance(o, int) for o in inj + obs):
                ctx.oblige(f"tie:accpath:{c}.{st}:{l}", False, detail=f"non-integer state: base {base} addend {V} -> {obs[:4]}")
                continue
            done += 1
            for i, x, o in zip(inj, xs, obs):
                mcases.append(P.model_case(sk, pk, mode, i, [x]))
                meta.append((row, mode, base, V, i, x, o))
        if done == 0:
            ctx.oblige(f"tie:accpath:{c}.{st}:{l}", False, detail="no injection case could be run")
    outs = run_model(mcases)
    bad, lost = {}, {}
    for (row, mode, base, V, i, x, o), mo in zip(meta, outs):
        c, st, l, sk, pk = row
        s2.case((c, st, l, i, x), abs(x) >= 2 ** 8 or i >= 2 ** 8,
                sample={"class": c, "state": st, "layout": l, "storage": sk, "path": pk, "add": mode,
                        "injected": i, "addend": x, "observed": o, "model": mo})
        s2.count("mode:" + mode)
        s2.count("negative-addend" if x < 0 else "positive-addend")
        if mo != o and row not in bad:
            bad[row] = {"layout": l, "state": st, "storage": sk, "path": pk, "add": mode, "injected": i, "addend": x,
                        "observed": o, "model": mo}
        if o != i + x and abs(i + x) < P.LIMIT and row not in lost:
            lost[row] = {"check": "c19_path", "class": c, "state": st, "layout": l, "storage_kind": sk, "path_kind": pk,
                         "base": base, "addend": V, "injected": i, "element_addend": x, "observed": o, "expected": i + x}
    for row in rows:
        if row in fits:
            c, st, l, sk, pk = row
            m = bad.get(row)
            ctx.oblige(f"tie:accpath:{c}.{st}:{l}", m is None, detail=repr(m) if m else "")
    n, dis = crosscheck_in_coq(mcases, outs, "C19path", limit=ctx.n(80, 300))
    ctx.oblige("tie:extraction-vs-vm_compute:accpath", dis == 0, detail=f"{dis} of {n}")
    # the property itself on the implementation: the total changes by exactly the addend
    for row, w in sorted(lost.items()):
        c, st, l, sk, pk = row
        narrow = pk not in P.WIDE
        fid = finding_of(row, kpaths, kaccs) if narrow else None
        ctx.violation("failing-input", f"{c}.{st}",
                      {**w, "broken": broken_name(row, fid) if narrow else "totals_exact_for_wide_paths"}, finding_id=fid)
    synthetic_stream(ctx)
    stale = [k for k in kpaths if k not in {(c, s, l, pk) for c, s, l, sk, pk in rows}]
    if stale:
        ctx.notes.append(f"stale known-finding paths (not narrow on this tree; path_excuses_are_live fails): {stale[:6]}")


def synthetic_stream(ctx):
    """The classifier and round_kind on every tensor kind: a float64 accumulator fed through one torch cast."""
    s3 = ctx.stream("synthetic paths (float64 accumulator behind one torch cast to each kind: classifier self-test, round_kind vs torch)")
    mcases, meta = [], []
    for lay, kind in P.synthetic_layouts():
        want = kind if kind not in P.WIDE else "F64"
        f = P.fit(lay)
        if "total" not in f:
            ctx.oblige(f"tie:accpath-classifier:{kind}", False, detail="synthetic layout not fitted")
            continue
        a, b = f["total"]
        sk, pk, kept, prob = P.classify(lay, "total", a, b)
        ctx.oblige(f"tie:accpath-classifier:{kind}", prob is None and sk == "F64" and pk == want,
                   detail=f"classified storage {sk} path {pk} ({prob}); kept {kept}")
        e = P.EDGE[kind]
        top = 60000 if kind == "F16" else 2 ** 52
        vs = [e - 1, e, e + 1, e + 3, 2 * e + 1, 2 * e + 3, 3 * e + 5, 2 ** 24 + 1, 2 ** 31 + 1, 2 ** 40 + 3, -(e + 1), -(e + 3), -(2 * e + 1), -5]
        vs += [ctx.rng.randrange(-top, top) for _ in range(ctx.n(12, 60))]
        for i, V in enumerate(v for v in vs if abs(v) <= top):
            base = [0, 3, 2 ** 24 + 1, 2 ** 40 + 3][i % 4]
            try:
                inj, obs = P.run_from(lay, "total", base, V)
            except Exception as ex:
                ctx.oblige(f"tie:accpath-synthetic:{kind}", False, detail=f"{type(ex).__name__}: {ex}")
                break
            mcases.append(P.model_case("F64", kind, "conv", inj[0], [V]))
            meta.append((kind, inj[0], V, obs[0]))
    outs = run_model(mcases)
    bad = {}
    for (kind, i, V, o), mo in zip(meta, outs):
        s3.case((kind, i, V), True, sample={"path": kind, "injected": i, "addend": V, "observed": o, "model": mo})
        s3.count("path:" + kind)
        s3.count("lost" if o != i + V else "kept")
        if mo != o and kind not in bad:
            bad[kind] = {"path": kind, "injected": i, "addend": V, "observed": o, "model": mo}
    for kind in sorted({m[0] for m in meta}):
        ctx.oblige(f"tie:accpath-synthetic:{kind}", kind not in bad, detail=repr(bad.get(kind, "")))


def replay(d):
    if d.get("check") != "c19_path":
        return NotImplemented
    lays = {lay.name: lay for lay in P.all_layouts()[0]}
    lay = lays[d["layout"]]
    f = P.fit(lay).get(d["state"])
    if f is None:
        return None
    a, b = f
    inj, obs = P.run_from(lay, d["state"], d.get("base", 0), d["addend"])
    want = [i + aa + bb * d["addend"] for i, aa, bb in zip(inj, a, b)]
    return f"observed {obs[:4]} expected {want[:4]}" if obs != want else None
