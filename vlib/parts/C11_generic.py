"""C11 -- non-interference: merge / compute / update never disturb other metrics or caller data."""
from .. import core, basecalls, direct, streams, sandbox

LEVEL_NOTE = ("value-model frame theorems (merge leaves sources unchanged, compute pure); the absence of shared storage in the real "
              "objects is decided by the alias analysis over regenerated skeletons (C11_effects) and exercised here on every class")


def run(ctx):
    s = ctx.stream("merge/compute/update non-interference (implementation only, every class)")
    cases = basecalls.all_cases()
    jobs = []
    for ci, case in enumerate(cases):
        trials = []
        for t in range(ctx.n(6, 60)):
            trials.append({"seed": ctx.rng.randrange(10 ** 9), "pre": direct.gen_pre(ctx.rng), "ncont": ctx.rng.choice([1, 3, 7]),
                           "how": direct.RESTORES[t % len(direct.RESTORES)], "layout": LAYOUTS[t % len(LAYOUTS)]})
        jobs.append((ci, trials))
    res = sandbox.run_jobs(_job, jobs, timeout=ctx.n(120, 900), workers=12)
    for (ci, trials), (status, val) in zip(jobs, res):
        label, name = cases[ci][0], cases[ci][1]
        cfg = cases[ci][2] if cases[ci][2] != "FAD" else "fad"
        bad = None
        if status != "ok":
            bad = {"check": "c11_case", "class": label, "cfg": cfg, "observed": f"worker {status}: {val}", "trials": trials[:3]}
            val = []
        for tr, d in zip(trials, val):
            s.case((label, repr(tr)), tr["pre"]["updates"] > 0, sample={"class": label, **tr})
            s.count("variant:" + str(tr.get("layout")))
            if d and bad is None:
                bad = {"check": "c11_case", "class": label, "cfg": cfg, **tr, "observed": d}
        if bad:
            s.mismatches.append(bad)
            ctx.violation("failing-input", name, {**bad, "broken": f"c11:{name}"},
                          finding_id=core.match_finding("C11", name, bad["observed"], how=bad.get("how"), layout=bad.get("layout")))


LAYOUTS = ("fresh-target", "updated-target", "reset-target")


def _job(job):
    ci, trials = job
    case = basecalls.all_cases()[ci]
    out = []
    for tr in trials:
        try:
            d = _one(case, tr)
        except Exception as ex:
            d = f"exception {type(ex).__name__}: {ex}"
        out.append(d)
    return out


def _one(case, tr):
    return direct.c11_case(case, tr["seed"], None, tr["layout"])
