"""C10 -- reset() returns a metric to the behaviour of a freshly constructed one (all classes)."""
from .. import core, basecalls, direct, streams, sandbox

LEVEL_NOTE = ("value-level theorem reset ~ fresh for models whose attributes are all registered; tie = history correspondence with "
              "reset ops + class-generic reset-vs-fresh checks on every class")


def run(ctx):
    mix = {"upd": 8, "merge": 2, "compute": 3, "reset": 4, "clone": 1, "save": 0.5, "load": 0.5, "prep": 1, "new": 1}
    streams.hist_corr(ctx, mix=mix, name="history-correspondence(reset-heavy)", nhist=ctx.n(6, 60))
    s = ctx.stream("reset-vs-fresh (implementation only, every class)")
    cases = basecalls.all_cases()
    jobs = []
    for ci, case in enumerate(cases):
        trials = []
        for t in range(ctx.n(6, 60)):
            trials.append({"seed": ctx.rng.randrange(10 ** 9), "pre": direct.gen_pre(ctx.rng), "ncont": ctx.rng.choice([1, 3, 7]),
                           "how": direct.RESTORES[t % len(direct.RESTORES)], "layout": LAYOUTS[t % len(LAYOUTS)]})
        jobs.append((ci, trials))
    res = sandbox.run_jobs(_job, jobs, timeout=ctx.n(120, 900), workers=12)
    for (ci, trials), (status, val) in zip(jobs, res):
        label, name = cases[ci][0], cases[ci][1]
        cfg = cases[ci][2] if cases[ci][2] != "FAD" else "fad"
        bad = None
        if status != "ok":
            bad = {"check": "c10_case", "class": label, "cfg": cfg, "observed": f"worker {status}: {val}", "trials": trials[:3]}
            val = []
        for tr, d in zip(trials, val):
            s.case((label, repr(tr)), tr["pre"]["updates"] > 0, sample={"class": label, **tr})
            s.count("variant:" + str(tr.get("how")))
            if d and bad is None:
                bad = {"check": "c10_case", "class": label, "cfg": cfg, **tr, "observed": d}
        if bad:
            s.mismatches.append(bad)
            ctx.violation("failing-input", name, {**bad, "broken": f"c10:{name}"},
                          finding_id=core.match_finding("C10", name, bad["observed"], how=bad.get("how"), layout=bad.get("layout")))


LAYOUTS = ("fresh-target", "updated-target", "reset-target")


def _job(job):
    ci, trials = job
    case = basecalls.all_cases()[ci]
    out = []
    for tr in trials:
        try:
            d = _one(case, tr)
        except Exception as ex:
            d = f"exception {type(ex).__name__}: {ex}"
        out.append(d)
    return out


def _one(case, tr):
    return direct.c10_case(case, tr["seed"], tr["pre"], tr["ncont"])
