"""C01, ranking family: the retrieval classes need their own, precisely attributed, merge-tree stream
(their entries opt out of the generic one with merge_exact=False because merged != single instance is
a genuine defect there, see Props/C01_ranking.v retrieval_*_merge_refuted), plus a deterministic probe
of merge_state(<generator>) (D18)."""
from .. import core, history, generic
from ..compare import state_val
from ..families import ranking as R

LEVEL_NOTE = ("ranking: ordered-cache / additive Alg instances (Props/C01_ranking.v); retrieval classes: merged = single "
              "instance is refuted by the faithful model, disagreements are attributed only when the as-is Coq model "
              "predicts both values exactly")

F_MERGE = "C01-retrieval-merge-not-repruned"
F_GEN = "C01-retrieval-merge-generator"


def listify(t):
    if t[0] == "shard":
        return t
    return ("merge", listify(t[1]), [listify(o) for o in t[2]], t[3], t[4] if len(t) > 4 else "list")


def tree_ops(t):
    """A merge tree as a pool history: (nobj, ops, index of the root object)."""
    ops, n = [], [0]

    def build(t):
        if t[0] == "shard":
            i = n[0]
            n[0] += 1
            ops.extend(("upd", i, b) for b in t[1])
            return i
        i = build(t[1])
        js = [build(o) for o in t[2]]
        ops.append(("merge", i, js, t[4]))
        ops.extend(("upd", i, b) for b in t[3])
        return i
    root = build(t)
    ops.append(("compute", root))
    return n[0], ops, root


def model_agrees(e, cfg, t):
    nobj, ops, _ = tree_ops(t)
    if history.check_history(e, cfg, nobj, ops) is not None:
        return False
    single = [("upd", 0, b) for b in generic.tree_stream(t)] + [("compute", 0)]
    return history.check_history(e, cfg, 1, single) is None


def something_pruned(e, cfg, t):
    """The single instance prunes a relevant item of some query (the only situation in which the
    un-pruned merged state can make compute() differ)."""
    k = cfg["k"]
    if k is None:
        return False
    for d in e.per_query(cfg, generic.tree_stream(t)):
        kept = sorted(d, key=lambda p: -p[0])[:k]
        if sum(y for _, y in d) > sum(y for _, y in kept):
            return True
    return False


def retrieval_trees(ctx):
    s = ctx.stream("retrieval merge-tree-vs-single-instance")
    for e in R.ENTRIES:
        if e.family != "pruned":
            continue
        cfgs = e.configs(ctx.rng, ctx.quick)
        found = set()
        for h in range(ctx.n(40, 500)):
            cfg = cfgs[h % len(cfgs)]
            t = listify(generic.gen_tree(ctx.rng, e, cfg, depth=ctx.rng.choice([1, 2, 2, 3])))
            try:
                d = generic.tree_vs_single(e, cfg, t)
            except Exception as ex:
                d = f"exception {type(ex).__name__}: {ex}"
            s.case((e.name, repr(cfg), repr(t)), generic.tree_size(t) >= 3,
                   sample={"class": e.name, "cfg": cfg, "tree_size": generic.tree_size(t)})
            s.count("class:" + e.name)
            if not d:
                continue
            fid = F_MERGE if (something_pruned(e, cfg, t) and model_agrees(e, cfg, t)) else None
            s.count("disagree:" + str(fid))
            if fid in found:
                continue
            found.add(fid)

            def fails(v, e=e, cfg=cfg):
                try:
                    return generic.tree_vs_single(e, cfg, v) is not None
                except Exception:
                    return True
            small = generic.shrink_tree(e, cfg, t, fails)
            s.mismatches.append({"class": e.name, "finding": fid})
            ctx.violation("failing-input", e.name,
                          {"check": "tree_vs_single", "class": e.name, "cfg": cfg, "tree": small, "observed": d,
                           "broken": f"merged=single:{e.name}"}, finding_id=fid)
        ctx.oblige(f"merged=single:{e.name}", not found, detail="disagreements attributed to: " + ", ".join(map(str, found)))


def generator_probe(ctx):
    """merge_state(<generator>) must equal merge_state(<list>) (before fix b5c0c50 the argument was
    iterated once per state and per query: topk/target got different lengths and compute() raised)."""
    import torch
    s = ctx.stream("retrieval merge_state(generator)")
    for e in R.ENTRIES:
        if e.family != "pruned":
            continue
        cfg = {"empty_target_action": "neg", "k": 2, "limit_k_to_size": False, "num_queries": 1, "avg": None}
        b1, b2 = {"z": [900, 800], "y": [1, 0]}, {"z": [500, 400], "y": [1, 1]}
        res = {}
        for form in ("list", "gen"):
            a, b = e.make(cfg), e.make(cfg)
            e.update(a, cfg, b1)
            e.update(b, cfg, b2)
            a.merge_state([b] if form == "list" else (m for m in [b]))
            res[form] = (state_val(a), generic.safe_compute(e, a))
        s.case((e.name, "gen"), True, sample={"class": e.name, "list": repr(res["list"]), "generator": repr(res["gen"])})
        ok = res["list"] == res["gen"]
        ctx.oblige(f"merge-argument-form:{e.name}", ok, detail=f"list: {res['list']!r}  generator: {res['gen']!r}"[:480])
        if not ok:
            s.mismatches.append({"class": e.name})
            ctx.violation("failing-input", e.name,
                          {"check": "merge_state(generator) vs merge_state(list)", "class": e.name, "cfg": cfg,
                           "updates": {"target": b1, "source": b2}, "list": repr(res["list"]), "generator": repr(res["gen"]),
                           "broken": f"merge-argument-form:{e.name}"}, finding_id=F_GEN)


def run(ctx):
    retrieval_trees(ctx)
    generator_probe(ctx)
