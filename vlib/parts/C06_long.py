"""C06 -- long threshold lists (hundreds of thresholds): the two optimisation modes of the real code
against each other and against explicit per-threshold counting done with elementary tensor
comparisons (implementation-level; the counting theorem binned_counts_spec is size-independent)."""
import random
import torch
from .. import core, sandbox
from ..compare import close, impl_val

LEVEL_NOTE = "long threshold lists are compared implementation-vs-implementation and against direct counting, not through the extracted model (cost)"


def _job(seeds):
    import torcheval.metrics.functional as F
    out = []
    for seed in seeds:
        rng = random.Random(seed)
        T = rng.choice([257, 300, 513, 1000])
        C = rng.choice([2, 3])
        n = rng.choice([1, 3, 8])
        D = 16
        vals = sorted(rng.randint(0, D) for _ in range(T))
        thr = torch.tensor([v / D for v in vals])
        scores = torch.tensor([[rng.randint(0, D) / D for _ in range(C)] for _ in range(n)])
        for kind in ("multiclass", "multilabel"):
            d = None
            try:
                if kind == "multiclass":
                    tgt = torch.tensor([rng.randrange(C) for _ in range(n)])
                    onehot = torch.nn.functional.one_hot(tgt, C).bool()
                    rv = F.multiclass_binned_precision_recall_curve(scores, tgt, num_classes=C, threshold=thr, optimization="vectorized")
                    rm = F.multiclass_binned_precision_recall_curve(scores, tgt, num_classes=C, threshold=thr, optimization="memory")
                else:
                    oh = torch.tensor([[rng.randint(0, 1) for _ in range(C)] for _ in range(n)])
                    onehot = oh.bool()
                    rv = F.multilabel_binned_precision_recall_curve(scores, oh, num_labels=C, threshold=thr, optimization="vectorized")
                    rm = F.multilabel_binned_precision_recall_curve(scores, oh, num_labels=C, threshold=thr, optimization="memory")
                d = close(impl_val([rv[0], rv[1]]), impl_val([rm[0], rm[1]]), 0)
                if d:
                    d = "vectorized vs memory: " + d
                else:
                    ge = scores.unsqueeze(0) >= thr.view(-1, 1, 1)                 # (T, N, C)
                    tp = (ge & onehot.unsqueeze(0)).sum(1).double()
                    fp = (ge & ~onehot.unsqueeze(0)).sum(1).double()
                    for c in range(C):
                        pv = rv[0][c][:-1].double()
                        den = tp[:, c] + fp[:, c]
                        ok = den > 0
                        if not torch.allclose(pv[ok], (tp[:, c] / den)[ok], atol=1e-6):
                            d = f"class {c}: precision differs from tp/(tp+fp) obtained by counting samples scored >= each threshold"
                            break
                        P = onehot[:, c].sum().double()
                        if P > 0 and not torch.allclose(rv[1][c][:-1].double(), tp[:, c] / P, atol=1e-6):
                            d = f"class {c}: recall differs from tp/P obtained by counting samples scored >= each threshold"
                            break
            except Exception as ex:
                d = f"exception {type(ex).__name__}: {ex}"
            out.append((kind, seed, T, d))
    return out


def _job_huge(seeds):
    """thresholds x samples x classes above 2^24 elements in ONE call (implementations switch algorithms on size):
    scores on the threshold grid; vectorized vs memory and vs direct counting at a sample of thresholds"""
    import torcheval.metrics.functional as F
    out = []
    for seed in seeds:
        rng = random.Random(seed)
        T, C = 1000, rng.choice([6, 8])
        n = (2 ** 24) // (T * C) + rng.choice([5, 40])
        D = 64
        g = torch.Generator().manual_seed(seed)
        thr = torch.sort(torch.randint(0, D + 1, (T,), generator=g).float() / D).values
        scores = torch.randint(0, D + 1, (n, C), generator=g).float() / D
        for kind in ("multilabel", "multiclass"):
            d = None
            try:
                if kind == "multiclass":
                    tgt = torch.randint(0, C, (n,), generator=g)
                    onehot = torch.nn.functional.one_hot(tgt, C).bool()
                    rv = F.multiclass_binned_precision_recall_curve(scores, tgt, num_classes=C, threshold=thr, optimization="vectorized")
                    rm = F.multiclass_binned_precision_recall_curve(scores, tgt, num_classes=C, threshold=thr, optimization="memory")
                else:
                    oh = torch.randint(0, 2, (n, C), generator=g)
                    onehot = oh.bool()
                    rv = F.multilabel_binned_precision_recall_curve(scores, oh, num_labels=C, threshold=thr, optimization="vectorized")
                    rm = F.multilabel_binned_precision_recall_curve(scores, oh, num_labels=C, threshold=thr, optimization="memory")
                d = close(impl_val([rv[0], rv[1]]), impl_val([rm[0], rm[1]]), 0)
                if d:
                    d = "vectorized vs memory: " + d
                else:
                    for ti in rng.sample(range(T), 12):
                        ge = scores >= thr[ti]
                        tp = (ge & onehot).sum(0).double()
                        fp = (ge & ~onehot).sum(0).double()
                        for c in range(C):
                            if tp[c] + fp[c] > 0 and abs(float(rv[0][c][ti]) - float(tp[c] / (tp[c] + fp[c]))) > 1e-5:
                                d = f"class {c}, threshold #{ti}: precision differs from tp/(tp+fp) obtained by counting samples scored >= the threshold"
                                break
                        if d:
                            break
            except Exception as ex:
                d = f"exception {type(ex).__name__}: {ex}"
            out.append((kind + "-huge", seed, T, d))
    return out


def _near(rng, thr64):
    """float32 scores sitting on / one float32 ulp below / above the float32 rounding of float64 thresholds"""
    out = []
    for _ in range(rng.choice([1, 3, 6])):
        t = torch.tensor(float(rng.choice(thr64.tolist())), dtype=torch.float32)
        k = rng.choice([0, 0, -1, 1])
        v = t if k == 0 else torch.nextafter(t, torch.tensor(-1.0 if k < 0 else 2.0))
        out.append(float(v.clamp(0.0, 1.0)))
    return out


def _job_ulp(seeds):
    """non-dyadic float64 thresholds with float32 scores within one ulp of them: both optimisation modes,
    direct counting in float64, and binned AUROC vs the exact AUROC of the floored scores (binned_auroc_floor)"""
    import torcheval.metrics.functional as F
    out = []
    for seed in seeds:
        rng = random.Random(seed)
        inner = sorted({rng.randint(1, 9) / 10 for _ in range(rng.randint(1, 5))})
        thr = torch.tensor([0.0] + inner + [1.0], dtype=torch.float64)
        C = rng.choice([2, 3])
        n = rng.choice([2, 4, 7])
        scores = torch.tensor([_near(rng, thr)[:1] * 0 + [rng.choice(_near(rng, thr)) for _ in range(C)] for _ in range(n)], dtype=torch.float32)
        tgt = torch.tensor([rng.randrange(C) for _ in range(n)])
        d = None
        try:
            rv = F.multiclass_binned_precision_recall_curve(scores, tgt, num_classes=C, threshold=thr, optimization="vectorized")
            rm = F.multiclass_binned_precision_recall_curve(scores, tgt, num_classes=C, threshold=thr, optimization="memory")
            d = close(impl_val([rv[0], rv[1]]), impl_val([rm[0], rm[1]]), 0)
            if d:
                d = "vectorized vs memory: " + d
            else:
                onehot = torch.nn.functional.one_hot(tgt, C).bool()
                ge = scores.double().unsqueeze(0) >= thr.view(-1, 1, 1)
                tp = (ge & onehot.unsqueeze(0)).sum(1).double()
                fp = (ge & ~onehot.unsqueeze(0)).sum(1).double()
                for c in range(C):
                    den = tp[:, c] + fp[:, c]
                    ok = den > 0
                    if not torch.allclose(rv[0][c][:-1].double()[ok], (tp[:, c] / den)[ok], atol=1e-6):
                        d = f"class {c}: precision differs from counting samples scored >= each threshold (exact comparison of float32 scores with float64 thresholds)"
                        break
        except Exception as ex:
            d = f"exception {type(ex).__name__}: {ex}"
        out.append(("multiclass-ulp", seed, len(thr), d))
        # binned AUROC = exact AUROC of the scores rounded down to the nearest threshold
        d = None
        try:
            m = rng.choice([3, 6, 10])
            sc = torch.tensor([rng.choice(_near(rng, thr)) for _ in range(m)], dtype=torch.float32)
            y = torch.tensor([rng.randint(0, 1) for _ in range(m)])
            b = F.binary_binned_auroc(sc, y, threshold=thr)[0]
            idx = (sc.double().unsqueeze(1) >= thr.unsqueeze(0)).sum(1) - 1
            floored = thr[idx]
            ex = F.binary_auroc(floored, y)
            if abs(float(b.reshape(-1)[0]) - float(ex)) > 1e-6:
                d = f"binned AUROC {float(b.reshape(-1)[0])} vs exact AUROC of floored scores {float(ex)} (scores {sc.tolist()}, labels {y.tolist()}, thresholds {thr.tolist()})"
        except Exception as ex_:
            d = f"exception {type(ex_).__name__}: {ex_}"
        out.append(("binned-auroc-ulp", seed, len(thr), d))
    return out


def run(ctx):
    s2 = ctx.stream("scores within one float32 ulp of non-dyadic float64 thresholds (implementation only)")
    seeds2 = [ctx.rng.randrange(10 ** 9) for _ in range(ctx.n(150, 2000))]
    chunks2 = [seeds2[i::6] for i in range(6)]
    bad2 = {}
    for ch, (status, val) in zip(chunks2, sandbox.run_jobs(_job_ulp, chunks2, timeout=ctx.n(120, 900), workers=6)):
        if status != "ok":
            ctx.violation("failing-input", "C06-ulp", {"check": "c06_ulp", "observed": f"worker {status}: {val}", "broken": "tie:c06-ulp"})
            continue
        for kind, seed, T, d in val:
            s2.case((kind, seed), True, sample={"form": kind, "thresholds": T, "seed": seed})
            s2.count(kind)
            if d and kind not in bad2:
                bad2[kind] = {"check": "c06_ulp", "form": kind, "seed": seed, "observed": d}
    for kind, b in sorted(bad2.items()):
        ctx.violation("failing-input", kind, {**b, "broken": f"binned_counts_spec:{kind}"},
                      finding_id=core.match_finding("C06", kind, str(b["observed"])))
    s3 = ctx.stream("more than 2^24 elements (thresholds x samples x classes) in one call (implementation only)")
    hseeds = [ctx.rng.randrange(10 ** 9) for _ in range(ctx.n(1, 4))]
    for (status, val) in sandbox.run_jobs(_job_huge, [[x] for x in hseeds], timeout=ctx.n(300, 900), workers=2):
        if status != "ok":
            ctx.violation("failing-input", "C06-huge", {"check": "c06_huge", "observed": f"worker {status}: {val}", "broken": "tie:c06-huge"})
            continue
        for kind, seed, T, d in val:
            s3.case((kind, seed), True, sample={"form": kind, "thresholds": T, "seed": seed})
            s3.count(kind)
            if d:
                ctx.violation("failing-input", kind.replace("-huge", "") + "_binned_precision_recall_curve",
                              {"check": "c06_huge", "form": kind, "seed": seed, "thresholds": T, "observed": d, "broken": f"binned_modes_agree:{kind}"},
                              finding_id=core.match_finding("C06", kind, str(d)))
    s = ctx.stream("long threshold lists: both modes vs direct counting (implementation only)")
    seeds = [ctx.rng.randrange(10 ** 9) for _ in range(ctx.n(24, 300))]
    chunks = [seeds[i::6] for i in range(6)]
    res = sandbox.run_jobs(_job, chunks, timeout=ctx.n(120, 900), workers=6)
    bad = {}
    for ch, (status, val) in zip(chunks, res):
        if status != "ok":
            ctx.violation("failing-input", "C06-long", {"check": "c06_long", "observed": f"worker {status}: {val}", "broken": "tie:c06-long"})
            continue
        for kind, seed, T, d in val:
            s.case((kind, seed), True, sample={"form": kind, "thresholds": T, "seed": seed})
            s.count(f"T={T}")
            if d and kind not in bad:
                bad[kind] = {"check": "c06_long", "form": kind, "seed": seed, "thresholds": T, "observed": d}
    for kind, b in sorted(bad.items()):
        ctx.violation("failing-input", f"{kind}_binned_precision_recall_curve", {**b, "broken": f"binned_modes_agree:{kind}"},
                      finding_id=core.match_finding("C06", kind, str(b["observed"])))


def replay(d):
    if d.get("check") == "c06_huge":
        r = [x for x in _job_huge([d["seed"]]) if x[0] == d["form"] and x[3]]
        return r[0][3] if r else None
    if d.get("check") == "c06_ulp":
        r = [x for x in _job_ulp([d["seed"]]) if x[0] == d["form"] and x[3]]
        return r[0][3] if r else None
    if d.get("check") != "c06_long":
        return NotImplemented
    r = [x for x in _job([d["seed"]]) if x[0] == d["form"] and x[3]]
    return r[0][3] if r else None
