"""C17 -- invariance under monotone rescaling, weight scaling, duplication, relabelling.

Implementation-only metamorphic stream on inputs up to thousands of samples (the theorems are
corollaries of the specs: order-only dependence, homogeneity of degree 0, count_occ under
permutation)."""
from __future__ import annotations
import random
import logging
import warnings

import torch

from .. import core, sandbox
from ..compare import close, impl_val, TOL32
from ..model import T

logging.disable(logging.CRITICAL)
warnings.simplefilter("ignore")
LEVEL_NOTE = "metamorphic pairs executed on the real code; maps x->(x+1)/2, x^2, 1-(1-x)^2 are exact and strictly increasing on the dyadic grid used; power-of-two weight factors"

MAPS = {"affine": lambda x: (x + 1) / 2, "square": lambda x: x * x, "concave": lambda x: 1 - (1 - x) * (1 - x),
        # exact power-of-two rescalings: still strictly increasing, scores stay distinct but become tiny / close together
        "tiny": lambda x: x * 2.0 ** -30, "near-one": lambda x: 1 - (1 - x) * 2.0 ** -20,
        # all scores within 2^-30 of 1: distinct in float64 (the dtype used here), ONE value in float32
        "squeezed": lambda x: 1 - (1 - x) * 2.0 ** -30, "squeezed-at-1024": lambda x: 1024 + x * 2.0 ** -20,
        # negative scores (logits, log-probabilities): exact shifts / scalings
        "negative": lambda x: x - 2, "negative-large": lambda x: (x - 1) * 1024}


def val(f):
    try:
        return impl_val(f())
    except Exception:
        return T("err")


def same(a, b, tol=TOL32):
    if isinstance(a, T) and isinstance(b, T) and a.tag == b.tag == "err":
        return None
    return close(a, b, tol)


def cases(rng, big):
    import torcheval.metrics.functional as F
    n = rng.choice([1, 2, 3, 5, 8, 13, 40] if not big else [1000, 2000, 5000])
    den = rng.choice([4, 16, 64]) if not big else rng.choice([16, 256])
    s = torch.tensor([rng.randint(0, den) / den for _ in range(n)], dtype=torch.float64)
    y = torch.tensor([rng.randint(0, 1) for _ in range(n)])
    if rng.random() < 0.1:
        y = torch.ones_like(y)
    w = torch.tensor([rng.choice([0.25, 0.5, 1.0, 2.0, 3.0]) for _ in range(n)], dtype=torch.float64)
    mname = rng.choice(sorted(MAPS))
    g = MAPS[mname]
    gs = g(s)
    # --- strictly increasing maps on rank-based metrics
    yield f"monotone[{mname}]:binary_auroc", lambda: same(val(lambda: F.binary_auroc(s, y, weight=w)), val(lambda: F.binary_auroc(gs, y, weight=w)))
    yield f"monotone[{mname}]:binary_auprc", lambda: same(val(lambda: F.binary_auprc(s, y)), val(lambda: F.binary_auprc(gs, y)))

    def prc(x):
        p, r, t = F.binary_precision_recall_curve(x, y)
        return [p, r]
    yield f"monotone[{mname}]:binary_precision_recall_curve", lambda: same(val(lambda: prc(s)), val(lambda: prc(gs)))
    yield f"monotone[{mname}]:pr_thresholds_mapped", lambda: same(val(lambda: g(F.binary_precision_recall_curve(s, y)[2])), val(lambda: F.binary_precision_recall_curve(gs, y)[2]))
    mp = rng.choice([0.0, 0.25, 0.5, 0.75, 1.0])
    yield f"monotone[{mname}]:binary_recall_at_fixed_precision", lambda: same(val(lambda: F.binary_recall_at_fixed_precision(s, y, min_precision=mp)[0]),
                                                                             val(lambda: F.binary_recall_at_fixed_precision(gs, y, min_precision=mp)[0]))
    C = rng.choice([2, 3, 5])
    m = min(n, 400)
    sc = torch.tensor([[rng.randint(0, den) / den for _ in range(C)] for _ in range(m)], dtype=torch.float64)
    tg = torch.tensor([rng.randrange(C) for _ in range(m)])
    gsc = g(sc)
    k = rng.choice([1, 2, C])
    yield f"monotone[{mname}]:multiclass_auroc", lambda: same(val(lambda: F.multiclass_auroc(sc, tg, num_classes=C, average=None)), val(lambda: F.multiclass_auroc(gsc, tg, num_classes=C, average=None)))
    yield f"monotone[{mname}]:multiclass_auprc", lambda: same(val(lambda: F.multiclass_auprc(sc, tg, num_classes=C, average=None)), val(lambda: F.multiclass_auprc(gsc, tg, num_classes=C, average=None)))
    yield f"monotone[{mname}]:hit_rate", lambda: same(val(lambda: F.hit_rate(sc, tg, k=k)), val(lambda: F.hit_rate(gsc, tg, k=k)))
    yield f"monotone[{mname}]:reciprocal_rank", lambda: same(val(lambda: F.reciprocal_rank(sc, tg, k=k)), val(lambda: F.reciprocal_rank(gsc, tg, k=k)))
    # top-k accuracy: ties inside the top-k make torch.topk's choice unspecified; use tie-free rows
    scd = torch.tensor([rng.sample(range(0, 64), C) for _ in range(m)], dtype=torch.float64) / 64
    yield f"monotone[{mname}]:topk_accuracy", lambda: same(val(lambda: F.multiclass_accuracy(scd, tg, num_classes=C, k=min(k, C), average="micro")),
                                                         val(lambda: F.multiclass_accuracy(g(scd), tg, num_classes=C, k=min(k, C), average="micro")))
    # top-k with TIED rows: correctness of a sample must not depend on the target's column position
    if C > 2:
        perm0 = list(range(C))
        rng.shuffle(perm0)
        p0 = torch.tensor(perm0)
        inv0 = torch.argsort(p0)
        kk2 = rng.choice([2, C - 1])
        yield "relabel-ties:topk_accuracy", lambda: same(val(lambda: F.multiclass_accuracy(sc, tg, num_classes=C, k=kk2, average="micro")),
                                                         val(lambda: F.multiclass_accuracy(sc[:, inv0], p0[tg], num_classes=C, k=kk2, average="micro")))
    rn = min(n, 150)
    rs = torch.tensor(rng.sample(range(1, 256), rn), dtype=torch.float64) / 256
    ry = torch.tensor([rng.randint(0, 1) for _ in range(rn)])
    kk = rng.choice([1, 2, 5, None])
    yield f"monotone[{mname}]:retrieval_precision", lambda: same(val(lambda: F.retrieval_precision(rs, ry, k=kk)), val(lambda: F.retrieval_precision(g(rs), ry, k=kk)))
    yield f"monotone[{mname}]:retrieval_recall", lambda: same(val(lambda: F.retrieval_recall(rs, ry, k=kk)), val(lambda: F.retrieval_recall(g(rs), ry, k=kk)))
    # class forms of the retrieval metrics (pruned top-k state, empty_target_action): few relevant items, often all below the top-k
    import torcheval.metrics as M
    order = torch.argsort(rs)
    ry2 = torch.zeros_like(ry)
    ry2[order[: rng.choice([0, 1, 2])]] = 1                      # relevant items among the LOWEST scores only
    if rng.random() < 0.3:
        ry2 = ry
    cut = rng.randint(0, rn)
    for cnm, rcls in (("RetrievalPrecision", M.RetrievalPrecision), ("RetrievalRecall", M.RetrievalRecall)):
        for eta in ("neg", "pos", "skip"):
            def rrun(x, rcls=rcls, eta=eta):
                mm = rcls(k=kk, empty_target_action=eta)
                if cut > 0:
                    mm.update(x[:cut], ry2[:cut])
                if cut < rn:
                    mm.update(x[cut:], ry2[cut:])
                return mm.compute()
            yield f"monotone[{mname}]:{cnm}[class,{eta}]", lambda rrun=rrun: same(val(lambda: rrun(rs)), val(lambda: rrun(g(rs))))
    # --- weight scaling by an exact positive factor
    c = rng.choice([0.25, 0.5, 2.0, 4.0, 8.0, 2.0 ** -40, 2.0 ** -30, 2.0 ** 30, 2.0 ** 40])     # exact powers of two, tiny and huge totals included
    x = torch.tensor([rng.randint(-16, 16) / 8 for _ in range(n)], dtype=torch.float64)
    t = torch.tensor([rng.randint(-16, 16) / 8 for _ in range(n)], dtype=torch.float64)
    yield "weights*c:mean", lambda: same(val(lambda: F.mean(x, w)), val(lambda: F.mean(x, w * c)), 2 ** -40)
    yield "weights*c:mean_squared_error", lambda: same(val(lambda: F.mean_squared_error(x, t, sample_weight=w)), val(lambda: F.mean_squared_error(x, t, sample_weight=w * c)), 2 ** -40)
    yield "weights*c:binary_auroc", lambda: same(val(lambda: F.binary_auroc(s, y, weight=w)), val(lambda: F.binary_auroc(s, y, weight=w * c)))
    p = s * 0.75 + 0.125
    yield "weights*c:binary_normalized_entropy", lambda: same(val(lambda: F.binary_normalized_entropy(p, y.double(), weight=w)), val(lambda: F.binary_normalized_entropy(p, y.double(), weight=w * c)), 2 ** -30)
    yield "weights*c:click_through_rate", lambda: same(val(lambda: F.click_through_rate(y, w)), val(lambda: F.click_through_rate(y, w * c)), 2 ** -40)
    yield "weights*c:weighted_calibration", lambda: same(val(lambda: F.weighted_calibration(p, y.double(), w)), val(lambda: F.weighted_calibration(p, y.double(), w * c)), 2 ** -40)
    # class forms (compute() may treat small totals specially): two updates, all weights scaled by c
    import torcheval.metrics as M2
    cut2 = rng.randint(0, n)

    def crun(cls, kw, cols, wname, wv, pos=None):
        mm = cls(**kw)
        for sl in (slice(0, cut2), slice(cut2, n)):
            if sl.stop - sl.start <= 0:
                continue
            a = [x[sl] for x in cols]
            if pos is not None:
                a.insert(pos, wv[sl])
                mm.update(*a)
            else:
                mm.update(*a, **{wname: wv[sl]})
        return mm.compute()
    for nm, cls, kw, cols, wname, pos, tol_ in (
            ("Mean", M2.Mean, {}, [x], "weight", None, 2 ** -40),
            ("MeanSquaredError", M2.MeanSquaredError, {}, [x, t], "sample_weight", None, 2 ** -17),
            ("BinaryAUROC", M2.BinaryAUROC, {}, [s, y], "weight", None, 2 ** -17),
            ("BinaryNormalizedEntropy", M2.BinaryNormalizedEntropy, {}, [p, y.double()], "weight", None, 2 ** -30),
            ("ClickThroughRate", M2.ClickThroughRate, {}, [y], None, 1, 2 ** -17),
            ("WeightedCalibration", M2.WeightedCalibration, {}, [p, y.double()], None, 2, 2 ** -30)):
        yield f"weights*c:{nm}[class]", lambda cls=cls, kw=kw, cols=cols, wname=wname, pos=pos, tol_=tol_: same(
            val(lambda: crun(cls, kw, cols, wname, w, pos)), val(lambda: crun(cls, kw, cols, wname, w * c, pos)), tol_)
    # --- duplication of the whole data set (ratio metrics)
    def dup(z):
        return torch.cat([z, z])
    pr = (s >= 0.5).long()
    yield "duplicate:binary_accuracy", lambda: same(val(lambda: F.binary_accuracy(s, y)), val(lambda: F.binary_accuracy(dup(s), dup(y))))
    yield "duplicate:binary_f1_score", lambda: same(val(lambda: F.binary_f1_score(s, y)), val(lambda: F.binary_f1_score(dup(s), dup(y))))
    yield "duplicate:binary_auroc", lambda: same(val(lambda: F.binary_auroc(s, y, weight=w)), val(lambda: F.binary_auroc(dup(s), dup(y), weight=dup(w))))
    yield "duplicate:binary_auprc", lambda: same(val(lambda: F.binary_auprc(s, y)), val(lambda: F.binary_auprc(dup(s), dup(y))))
    yield "duplicate:mean_squared_error", lambda: same(val(lambda: F.mean_squared_error(x, t)), val(lambda: F.mean_squared_error(dup(x), dup(t))), 2 ** -40)
    yield "duplicate:mean", lambda: same(val(lambda: F.mean(x, w)), val(lambda: F.mean(dup(x), dup(w))), 2 ** -40)
    yield "duplicate:binary_normalized_entropy", lambda: same(val(lambda: F.binary_normalized_entropy(p, y.double())), val(lambda: F.binary_normalized_entropy(dup(p), dup(y.double()))), 2 ** -30)
    pc = sc.argmax(dim=1)
    for nm, f in (("multiclass_accuracy", F.multiclass_accuracy), ("multiclass_precision", F.multiclass_precision), ("multiclass_recall", F.multiclass_recall), ("multiclass_f1_score", F.multiclass_f1_score)):
        for avg in ("micro", "macro", None):
            yield f"duplicate:{nm}({avg})", lambda f=f, avg=avg: same(val(lambda: f(pc, tg, num_classes=C, average=avg)), val(lambda: f(dup(pc), dup(tg), num_classes=C, average=avg)))
    # --- consistent renaming of the classes
    perm = list(range(C))
    rng.shuffle(perm)
    pt = torch.tensor(perm)
    inv = torch.argsort(pt)
    for nm, f in (("multiclass_accuracy", F.multiclass_accuracy), ("multiclass_precision", F.multiclass_precision), ("multiclass_recall", F.multiclass_recall), ("multiclass_f1_score", F.multiclass_f1_score)):
        yield f"relabel:{nm}(None)", lambda f=f: same(val(lambda: f(pc, tg, num_classes=C, average=None)), val(lambda: f(pt[pc], pt[tg], num_classes=C, average=None)[pt]))
        for avg in ("micro", "macro"):
            yield f"relabel:{nm}({avg})", lambda f=f, avg=avg: same(val(lambda: f(pc, tg, num_classes=C, average=avg)), val(lambda: f(pt[pc], pt[tg], num_classes=C, average=avg)))
    yield "relabel:multiclass_confusion_matrix", lambda: same(val(lambda: F.multiclass_confusion_matrix(pc, tg, num_classes=C)),
                                                              val(lambda: F.multiclass_confusion_matrix(pt[pc], pt[tg], num_classes=C)[pt][:, pt]))
    # many classes with labels stored in a narrow integer dtype (index arithmetic in the label dtype must not wrap);
    # predictions as a score matrix (label-form uint8 predictions are rejected by sparse_coo_tensor: not a disagreement)
    C2 = rng.choice([17, 20, 40, 100])
    m2 = min(n, 200)
    sc2 = torch.tensor([rng.sample(range(0, 4 * C2), C2) for _ in range(m2)], dtype=torch.float32) / (4 * C2)     # tie-free rows
    tg2 = torch.tensor([rng.randrange(C2) for _ in range(m2)], dtype=torch.uint8)
    perm2 = list(range(C2))
    rng.shuffle(perm2)
    pl2 = torch.tensor(perm2)
    inv2 = torch.argsort(pl2)
    yield "relabel[uint8 labels]:multiclass_confusion_matrix", lambda: same(
        val(lambda: F.multiclass_confusion_matrix(sc2, tg2, num_classes=C2)),
        val(lambda: F.multiclass_confusion_matrix(sc2[:, inv2], pl2[tg2.long()].to(torch.uint8), num_classes=C2)[pl2][:, pl2]))

    def narrow_vs_wide():
        a = val(lambda: F.multiclass_confusion_matrix(sc2, tg2, num_classes=C2))
        if isinstance(a, T) and a.tag == "err":
            return None                      # the code may refuse a label dtype; it must not miscount when it accepts it
        return same(a, val(lambda: F.multiclass_confusion_matrix(sc2, tg2.long(), num_classes=C2)))
    yield "dtype[uint8 vs int64 labels]:multiclass_confusion_matrix", narrow_vs_wide
    yield "relabel:logits:multiclass_accuracy", lambda: same(val(lambda: F.multiclass_accuracy(scd, tg, num_classes=C)), val(lambda: F.multiclass_accuracy(scd[:, inv], pt[tg], num_classes=C)))


def huge_cases(rng):
    """duplication at sizes where count products exceed 2^31 (narrow integer accumulators)"""
    import torcheval.metrics.functional as F
    n = rng.choice([70000, 90000])
    C = 2
    sc = torch.rand((n, C), generator=torch.Generator().manual_seed(rng.randrange(10 ** 9)))
    tg = torch.tensor([i % C for i in range(n)])

    def dup(z):
        return torch.cat([z, z])
    yield "duplicate-huge:multiclass_auroc", lambda: same(val(lambda: F.multiclass_auroc(sc, tg, num_classes=C, average=None)),
                                                           val(lambda: F.multiclass_auroc(dup(sc), dup(tg), num_classes=C, average=None)), 2 ** -12)
    s1 = sc[:, 0].double()
    y1 = tg
    yield "duplicate-huge:binary_auroc", lambda: same(val(lambda: F.binary_auroc(s1, y1)), val(lambda: F.binary_auroc(dup(s1), dup(y1))), 2 ** -12)
    yield "duplicate-huge:binary_auprc", lambda: same(val(lambda: F.binary_auprc(s1, y1)), val(lambda: F.binary_auprc(dup(s1), dup(y1))), 2 ** -12)


def _job(arg):
    seeds, big = arg
    if big == "huge":
        out = []
        for seed in seeds:
            rng = random.Random(seed)
            for name, thunk in huge_cases(rng):
                try:
                    d = thunk()
                except Exception as ex:
                    d = f"harness exception {type(ex).__name__}: {ex}"
                out.append((name, seed, d))
        return out
    out = []
    for seed in seeds:
        rng = random.Random(seed)
        for name, thunk in cases(rng, big):
            try:
                d = thunk()
            except Exception as ex:
                d = f"harness exception {type(ex).__name__}: {ex}"
            out.append((name, seed, d))
    return out


def run(ctx):
    s = ctx.stream("metamorphic pairs (implementation only)")
    seeds = [ctx.rng.randrange(10 ** 9) for _ in range(ctx.n(60, 600))]
    bigs = [ctx.rng.randrange(10 ** 9) for _ in range(ctx.n(2, 40))]
    jobs = [(seeds[i::10], False) for i in range(10)] + [(bigs[i::2], True) for i in range(2)] + [([ctx.rng.randrange(10 ** 9)], "huge")]
    res = sandbox.run_jobs(_job, jobs, timeout=ctx.n(170, 1500), workers=12)
    bad = {}
    for (ch, big), (status, val_) in zip(jobs, res):
        if status != "ok":
            ctx.violation("failing-input", "C17-stream", {"check": "c17", "observed": f"worker {status}: {val_}", "seeds": ch[:5], "broken": "tie:c17"})
            continue
        for name, seed, d in val_:
            s.case((name, seed), True, sample={"pair": name, "seed": seed, "large": big})
            s.count("kind:" + name.split(":")[0].split("[")[0])
            s.count("large" if big else "small")
            key = name.split(":")[0].split("[")[0] + ":" + name.split(":")[-1]
            if d and key not in bad:
                bad[key] = {"check": "c17", "pair": name, "seed": seed, "large": big, "observed": d}
    for key, b in sorted(bad.items()):
        ctx.violation("failing-input", key, {**b, "broken": f"metamorphic:{key}"},
                      finding_id=core.match_finding("C17", key, str(b["observed"])))


def replay(d):
    if d.get("check") != "c17":
        return NotImplemented
    r = [x for x in _job(([d["seed"]], d.get("large", False))) if x[0] == d["pair"] and x[2]]
    return r[0][2] if r else None
