"""C19 -- audit of narrowing cast sites: tools/tr_casts.py regenerates coq/Generated/CastSites.v from the Python AST of
/repo/torcheval/metrics on every run; Props/C19_casts.v proves that every site is in the reviewed list (Models/CastAudit.v).
This part names the un-reviewed sites (so that the broken obligation says WHERE) -- the failing input, when there is one,
comes from the C19_addends / C19_path / presentation streams."""
import re
from .. import core

GENERATORS = ["tr_casts.py"]
LEVEL_NOTE = ("cast audit: every dtype-narrowing expression of torcheval/metrics (AST, regenerated each run) is a reviewed site "
              "(mask / final result / state kind / unit weights / counts kind / known finding): all_cast_sites_reviewed")


def _sites(path, pat):
    txt = path.read_text()
    return set(re.findall(pat, txt))


def run(ctx):
    s = ctx.stream("narrowing cast sites (AST of torcheval/metrics vs the reviewed list)")
    s.exhaustive = True
    pat = r'\("([^"]*)",\s*"([^"]*)",\s*"((?:[^"]|"")*)",\s*(\d+)\)'
    gen = _sites(core.COQ / "Generated" / "CastSites.v", pat)
    rev = _sites(core.COQ / "Models" / "CastAudit.v", pat)
    for g in sorted(gen):
        s.case(g, True, sample={"module": g[0], "function": g[1], "cast": g[2], "occurrences": int(g[3])})
        ok = g in rev
        if not ok:
            ctx.oblige(f"tie:cast-site-reviewed:{g[0]}:{g[1]}:{g[2]}", False,
                       detail=f"un-reviewed narrowing cast in {g[0]}, function {g[1]}: `{g[2]}` (x{g[3]}); all_cast_sites_reviewed no longer holds")
    ctx.oblige("tie:cast-sites-translated", bool(gen), detail="no cast sites were generated")
    stale = sorted(rev - gen)
    if stale:
        ctx.notes.append(f"reviewed cast sites no longer present in the tree (harmless): {stale[:6]}")
