"""C14 -- class-generic atomicity stream: individually valid but history-inconsistent updates."""
from .. import core, basecalls, direct, sandbox

LEVEL_NOTE = "updates that pass the per-call checks but disagree with the accumulated shapes must be accepted or leave the metric untouched"


def _job(job):
    ci, trials = job
    case = basecalls.all_cases()[ci]
    out = []
    for tr in trials:
        try:
            out.append(direct.c14_case(case, tr["seed"], tr["pre"]))
        except Exception as ex:
            out.append(f"exception {type(ex).__name__}: {ex}")
    return out


def run(ctx):
    s = ctx.stream("history-inconsistent updates are atomic (implementation only, every class)")
    cases = basecalls.all_cases()
    jobs = []
    for ci, case in enumerate(cases):
        trials = [{"seed": ctx.rng.randrange(10 ** 9), "pre": {"updates": ctx.rng.choice([1, 2, 3]), "merge": 0}} for _ in range(ctx.n(4, 40))]
        jobs.append((ci, trials))
    res = sandbox.run_jobs(_job, jobs, timeout=ctx.n(120, 900), workers=12)
    for (ci, trials), (status, val) in zip(jobs, res):
        label, name = cases[ci][0], cases[ci][1]
        cfg = cases[ci][2] if cases[ci][2] != "FAD" else "fad"
        bad = None
        if status != "ok":
            bad = {"check": "c14_case", "class": label, "cfg": cfg, "observed": f"worker {status}: {val}"}
            val = []
        for tr, d in zip(trials, val):
            s.case((label, repr(tr)), True, sample={"class": label, **tr})
            if d and bad is None:
                bad = {"check": "c14_case", "class": label, "cfg": cfg, **tr, "observed": d}
        if bad:
            ctx.violation("failing-input", name, {**bad, "broken": f"atomic:{name}"},
                          finding_id=core.match_finding("C14", name, bad["observed"]))
