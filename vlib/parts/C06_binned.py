"""C06 -- binned metrics equal per-threshold counting; optimisation modes agree."""
from .. import core, streams
from ..families import binned as B

LEVEL_NOTE = "wip"


def run(ctx):
    streams.hist_corr(ctx, ents=B.ENTRIES)
    streams.fn_corr(ctx, ents=B.ENTRIES)
