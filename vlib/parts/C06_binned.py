"""C06 -- binned metrics equal exhaustive per-threshold counting; optimisation modes agree.

Streams (all against the REAL torcheval code):
  history / functional correspondence of the 8 binned classes with their Coq models (state level);
  both-modes: the same input through optimization="vectorized" and "memory" (class state = the three count
      tensors, and the public functionals), compared with each other exactly, with the Coq model of each
      mode and with the per-cell counting spec;
  exhaustive: all binary inputs with <= 4 samples over a 5-point score grid (below the first threshold, ON a
      threshold, between, ON a duplicated threshold, above the last) x all label vectors: counts = per-threshold
      counting spec, curve = model, binned AUROC / AUPRC = exact AUROC / AUPRC of the floored scores (Coq spec
      AND the real exact functionals); all multiclass / multilabel inputs with <= 2 samples, 2 columns, both modes;
  floor (random): per task / per class binned AUROC, AUPRC vs exact quantities on floored scores;
  param: threshold parameter (int / list / tensor; unsorted, out of range, missing 0 or 1) accepted <=> model accepts.
"""
from __future__ import annotations
import itertools
import warnings
import torch
from torcheval import metrics as M
from torcheval.metrics import functional as Fn
from .. import core, streams
from ..compare import close, impl_val, state_val, TOL32
from ..model import run_model, crosscheck_in_coq, T
from ..families import binned as B

warnings.simplefilter("ignore")
D = B.D
FINDING_MROC = "C06-multiclass-binned-auroc-per-sample"
LEVEL_NOTE = ("Coq theorems over executable models of both optimisation modes and of the compute functions; models tied to "
              "the code by state-level history correspondence, functional correspondence, a both-modes stream and an "
              "exhaustive small-domain stream; thresholds and scores are dyadic (k/8), an integer threshold n is only "
              "used with n-1 a power of two so that linspace(0,1,n) is exactly i/(n-1): the float32 rounding of other "
              "linspace grids is visible only at scores within one ulp of a threshold and is not modelled; "
              "binned_auroc_floor and binned_auprc_floor are proved in full (Props/C06.v) and identified with the C05 specs (Props/C06_vs_C05.v); the multiclass AUROC per-class statement is refuted (known finding)")


def cfgv(Tn, mem=False, C=1, macro=True):
    return [D, list(Tn), mem, C, macro]


def thr_of(Tn):
    return [t / D for t in Tn]


def fail(ctx, target, name, detail, finding=None):
    detail = dict(detail)
    detail["broken"] = name
    ctx.violation("failing-input", target, detail, finding_id=finding)


class Obl:
    """one obligation per (kind, target); first failing input is kept as the located violation"""

    def __init__(self, ctx):
        self.ctx, self.bad, self.names = ctx, {}, []

    def declare(self, name):
        if name not in self.names:
            self.names.append(name)

    def check(self, name, target, d, detail, finding=None):
        self.declare(name)
        if d and name not in self.bad:
            self.bad[name] = (target, dict(detail, observed=str(d)[:600]), finding)

    def flush(self, stream):
        for n in self.names:
            b = self.bad.get(n)
            self.ctx.oblige(n, b is None, detail=repr(core.canon(b[1]))[:1200] if b else "")
            if b:
                stream.mismatches.append({"obligation": n})
                fail(self.ctx, b[0], n, b[1], b[2])


# -------------------------------------------------------------------------------------------------
def modes_stream(ctx):
    s = ctx.stream("both-optimisation-modes (real code, same input)")
    ob = Obl(ctx)
    ents = [e for e in B.ENTRIES if e.has_opt]
    cases, meta = [], []
    for e in ents:
        kind = "mc" if isinstance(e, B._MC) else "ml"
        for k in range(ctx.n(60, 600)):
            cfg0 = dict(e.configs(ctx.rng, True)[0])
            n = ctx.rng.choice([1, 2, 3, 5, 8, 13])
            b = e.gen_batch(ctx.rng, cfg0, n)
            res = {}
            for opt in ("vectorized", "memory"):
                cfg = dict(cfg0, optimization=opt)
                m = e.make(cfg)
                e.update(m, cfg, b)
                res[opt] = (state_val(m), e.out_val(m.compute()), e.fn_val(e.functional(cfg, b)))
                cases.append((f"binned_{kind}_counts", [e.cfg_val(cfg), e.batch_val(cfg, b)]))
            cases.append((f"binned_{kind}_counts_spec", [e.cfg_val(cfg0), e.batch_val(cfg0, b)]))
            meta.append((e, cfg0, b, res))
            s.case((e.name, repr(cfg0), repr(b)), n >= 2, sample={"class": e.name, "cfg": cfg0, "batch": b})
            s.count("class:" + e.name)
            s.count("thr:" + cfg0["thr"]["kind"])
    outs = run_model(cases)
    for k, (e, cfg0, b, res) in enumerate(meta):
        mv, mm, sp = outs[3 * k], outs[3 * k + 1], outs[3 * k + 2]
        det = {"class": e.name, "cfg": cfg0, "batch": b}
        v, m = res["vectorized"], res["memory"]
        ob.check(f"tie:modes-agree:state:{e.name}", e.name, close(v[0], m[0], 0), det)
        ob.check(f"tie:modes-agree:compute:{e.name}", e.name, close(v[1], m[1], 0), det)
        ob.check(f"tie:modes-agree:functional:{e.name}", e.name, close(v[2], m[2], 0), det)
        ob.check(f"tie:counts:vectorized:{e.name}", e.name, close(mv, v[0], 0), det)
        ob.check(f"tie:counts:memory:{e.name}", e.name, close(mm, m[0], 0), det)
        ob.check(f"model:counts-algo=spec:{e.name}", e.name, close(sp, mv, 0) or close(sp, mm, 0), det)
    n, dis = crosscheck_in_coq(cases, outs, ctx.prop + "m", limit=ctx.n(30, 150))
    ctx.oblige("tie:extraction-vs-vm_compute:both-modes", dis == 0, detail=f"{dis} of {n}")
    ob.flush(s)


# -------------------------------------------------------------------------------------------------
def floorT(Tn, sc):
    return max(t for t in Tn if t <= sc)


def exhaustive_stream(ctx):
    s = ctx.stream("exhaustive-small-domain")
    s.exhaustive = True
    nmax = ctx.n(4, 5)
    T1, G1 = [2, 4, 4, 6], [1, 2, 3, 4, 7]           # neither 0 nor 1 a member; duplicate; grid: below/on/between/on dup/above
    T2, G2 = [0, 4, 4, 8], [0, 3, 4, 7, 9]           # AUPRC-admissible; all scores >= T_0: floor theorems apply
    s.note = (f"binary: all score vectors over {G1} (thresholds {T1}, /8) and over {G2} (thresholds {T2}, /8) x all label "
              f"vectors, 1..{nmax} samples; multiclass and multilabel: 2 columns, 1..2 samples over {G2} x all targets, both modes")
    ob = Obl(ctx)
    cases, meta = [], []
    th1, th2 = thr_of(T1), thr_of(T2)
    for n in range(1, nmax + 1):
        for ss in itertools.product(range(5), repeat=n):
            for ys in itertools.product([0, 1], repeat=n):
                y = torch.tensor(ys)
                # (a) counts and curve, thresholds T1
                sc = [G1[i] for i in ss]
                x = torch.tensor([v / D for v in sc], dtype=torch.float32)
                m = M.BinaryBinnedPrecisionRecallCurve(threshold=th1)
                m.update(x, y)
                bv = [sc, list(ys)]
                cases.append(("binned_counts_spec", [cfgv(T1), bv]))
                cases.append(("binned_bprc_fn", [cfgv(T1), bv]))
                r1 = (state_val(m), impl_val(m.compute()))
                # (b) AUROC / AUPRC, thresholds T2
                sc2 = [G2[i] for i in ss]
                x2 = torch.tensor([v / D for v in sc2], dtype=torch.float32)
                xf = torch.tensor([floorT(T2, v) / D for v in sc2], dtype=torch.float32)
                bv2 = [sc2, list(ys)]
                cases.append(("binned_auroc_floor_spec", [cfgv(T2), bv2]))
                cases.append(("binned_auprc_floor_spec", [cfgv(T2), bv2]))
                r2 = (impl_val(Fn.binary_binned_auroc(x2, y, threshold=th2)[0][0]),
                      impl_val(Fn.binary_binned_auprc(x2, y, threshold=th2)[0]),
                      impl_val(Fn.binary_auroc(xf, y)), impl_val(Fn.binary_auprc(xf, y)))
                meta.append((sc, sc2, ys, r1, r2))
                s.case(("bin", ss, ys), n >= 2, sample={"scores/8": sc, "labels": list(ys), "thresholds/8": T1})
                s.count("binary:n=%d" % n)
    outs = run_model(cases)
    for k, (sc, sc2, ys, r1, r2) in enumerate(meta):
        cs, cu, ar, ap = outs[4 * k: 4 * k + 4]
        d1 = {"function": "BinaryBinnedPrecisionRecallCurve", "threshold/8": T1, "scores/8": sc, "labels": list(ys)}
        d2 = {"threshold/8": T2, "scores/8": sc2, "labels": list(ys)}
        ob.check("spec:per-threshold-counting:BinaryBinnedPrecisionRecallCurve", "BinaryBinnedPrecisionRecallCurve", close(cs, r1[0], 0), d1)
        ob.check("tie:curve:BinaryBinnedPrecisionRecallCurve", "BinaryBinnedPrecisionRecallCurve", close(cu, r1[1], TOL32), d1)
        ob.check("spec:binned-auroc=exact-on-floored:binary_binned_auroc", "BinaryBinnedAUROC", close(ar, r2[0], TOL32), dict(d2, function="binary_binned_auroc"))
        ob.check("spec:binned-auprc=exact-on-floored:binary_binned_auprc", "BinaryBinnedAUPRC", close(ap, r2[1], TOL32), dict(d2, function="binary_binned_auprc"))
        ob.check("impl:binned-auroc=binary_auroc(floored)", "BinaryBinnedAUROC", close(r2[2], r2[0], TOL32), dict(d2, function="binary_binned_auroc vs binary_auroc"))
        ob.check("impl:binned-auprc=binary_auprc(floored)", "BinaryBinnedAUPRC", close(r2[3], r2[1], TOL32), dict(d2, function="binary_binned_auprc vs binary_auprc"))
    # multiclass / multilabel, both modes, 2 columns
    cases, meta = [], []
    C = 2
    for n in (1, 2):
        for ss in itertools.product(range(5), repeat=n * C):
            rows = [[G2[ss[j * C + c]] for c in range(C)] for j in range(n)]
            x = B.ft(rows)
            for kind, targets in (("mc", itertools.product(range(C), repeat=n)),
                                  ("ml", itertools.product([0, 1], repeat=n * C))):
                for tg in targets:
                    tv = list(tg) if kind == "mc" else [list(tg[j * C:(j + 1) * C]) for j in range(n)]
                    y = torch.tensor(tv)
                    st = {}
                    for opt in ("vectorized", "memory"):
                        m = (M.MulticlassBinnedPrecisionRecallCurve(num_classes=C, threshold=th2, optimization=opt) if kind == "mc"
                             else M.MultilabelBinnedPrecisionRecallCurve(num_labels=C, threshold=th2, optimization=opt))
                        m.update(x, y)
                        st[opt] = state_val(m)
                    cases.append((f"binned_{kind}_counts_spec", [cfgv(T2, False, C), [rows, tv]]))
                    meta.append((kind, rows, tv, st))
                    s.case((kind, ss, tg), n >= 2)
                    s.count(f"{kind}:n={n}")
    outs = run_model(cases)
    for (kind, rows, tv, st), sp in zip(meta, outs):
        nm = "MulticlassBinnedPrecisionRecallCurve" if kind == "mc" else "MultilabelBinnedPrecisionRecallCurve"
        d = {"class": nm, "threshold/8": T2, "scores/8": rows, "target": tv}
        ob.check(f"spec:per-cell-counting:vectorized:{nm}", nm, close(sp, st["vectorized"], 0), d)
        ob.check(f"spec:per-cell-counting:memory:{nm}", nm, close(sp, st["memory"], 0), d)
        ob.check(f"tie:modes-agree:exhaustive:{nm}", nm, close(st["vectorized"], st["memory"], 0), d)
    ob.flush(s)


# -------------------------------------------------------------------------------------------------
def floor_stream(ctx):
    """per task / per class: binned AUROC, AUPRC = exact quantities of the floored scores (T_0 = 0, scores >= 0)"""
    s = ctx.stream("binned-equals-exact-on-floored-scores (per task, per class)")
    ob = Obl(ctx)
    cases, meta = [], []
    rng = ctx.rng
    for k in range(ctx.n(150, 1500)):
        t = B.gen_threshold(rng, True)
        Tn = B.thr_numerators(t)
        thr = B.thr_param(t)
        C = rng.randint(2, 4)
        n = rng.choice([1, 2, 3, 5, 8, 13, 21])
        cols = [[max(0, v) for v in B.gen_scores(rng, Tn, n)] for _ in range(C)]
        kind = rng.choice(["tasks", "mc", "ml"])
        if kind == "mc":
            y = [rng.randrange(C) for _ in range(n)]
            hits = [[int(y[j] == c) for j in range(n)] for c in range(C)]
        else:
            hits = [B.gen_labels(rng, n) for _ in range(C)]
        for c in range(C):
            cases.append(("binned_auroc_floor_spec", [cfgv(Tn), [cols[c], hits[c]]]))
            cases.append(("binned_auprc_floor_spec", [cfgv(Tn), [cols[c], hits[c]]]))
        rows = [[cols[c][j] for c in range(C)] for j in range(n)]
        opt = rng.choice(["vectorized", "memory"])
        if kind == "tasks":
            roc = impl_val(Fn.binary_binned_auroc(B.ft(cols), B.it(hits), num_tasks=C, threshold=thr)[0])
            prc = impl_val(Fn.binary_binned_auprc(B.ft(cols), B.it(hits), num_tasks=C, threshold=thr)[0])
        elif kind == "mc":
            roc = None      # multiclass_binned_auroc: see the finding stream
            prc = impl_val(Fn.multiclass_binned_auprc(B.ft(rows), B.it(y), num_classes=C, threshold=thr, average=None, optimization=opt)[0])
        else:
            roc = None      # there is no multilabel binned AUROC
            prc = impl_val(Fn.multilabel_binned_auprc(B.ft(rows), B.it([[hits[c][j] for c in range(C)] for j in range(n)]),
                                                      num_labels=C, threshold=thr, average=None, optimization=opt)[0])
        ex = []
        for c in range(C):
            xf = torch.tensor([floorT(Tn, v) / D for v in cols[c]], dtype=torch.float32)
            ex.append((impl_val(Fn.binary_auroc(xf, B.it(hits[c]))), impl_val(Fn.binary_auprc(xf, B.it(hits[c])))))
        meta.append((kind, t, cols, hits, roc, prc, ex, opt))
        s.case((kind, repr(t), repr(cols), repr(hits)), n >= 2, sample={"kind": kind, "thr": t, "cols/8": cols, "hits": hits})
        s.count("kind:" + kind)
        s.count("thr:" + t["kind"])
    outs = run_model(cases)
    pos = 0
    for (kind, t, cols, hits, roc, prc, ex, opt) in meta:
        C = len(cols)
        sp = outs[pos: pos + 2 * C]
        pos += 2 * C
        det = {"kind": kind, "thr": t, "cols/8": cols, "hits": hits, "optimization": opt}
        tgt = {"tasks": "BinaryBinnedAUPRC", "mc": "MulticlassBinnedAUPRC", "ml": "MultilabelBinnedAUPRC"}[kind]
        ob.check(f"spec:binned-auprc=exact-on-floored:{kind}", tgt, close([sp[2 * c + 1] for c in range(C)], prc, TOL32), det)
        ob.check(f"impl:binned-auprc=binary_auprc(floored):{kind}", tgt, close([e[1] for e in ex], prc, TOL32), det)
        if roc is not None:
            ob.check(f"spec:binned-auroc=exact-on-floored:{kind}", "BinaryBinnedAUROC", close([sp[2 * c] for c in range(C)], roc, TOL32), det)
            ob.check(f"impl:binned-auroc=binary_auroc(floored):{kind}", "BinaryBinnedAUROC", close([e[0] for e in ex], roc, TOL32), det)
    ob.flush(s)


# -------------------------------------------------------------------------------------------------
def param_stream(ctx):
    """threshold parameter: the real constructor / functional raise exactly when the model's parameter check fails"""
    s = ctx.stream("threshold-parameter-check")
    ob = Obl(ctx)
    rng = ctx.rng
    cases, meta = [], []
    for e in B.ENTRIES:
        for k in range(ctx.n(25, 200)):
            cfg = dict(e.configs(rng, True)[0])
            t = B.gen_threshold(rng, rng.random() < 0.5)
            mut = rng.choice(["none", "swap", "low", "high", "drop0", "drop1"])
            if t["kind"] != "int":
                v = list(t["vals"])
                if mut == "swap" and len(v) >= 2:
                    i = rng.randrange(len(v) - 1)
                    v[i], v[i + 1] = v[i + 1], v[i]
                elif mut == "low":
                    v[0] = -1
                elif mut == "high":
                    v[-1] = D + 1
                elif mut == "drop0" and len(v) >= 2:
                    v = v[1:]
                elif mut == "drop1" and len(v) >= 2:
                    v = v[:-1]
                t = dict(t, vals=v)
            cfg["thr"] = t
            Tn = B.thr_numerators(t)
            b = e.gen_batch(rng, dict(cfg, thr={"kind": "list", "vals": sorted(Tn)}), 2)
            cases.append((e.fn_model, [e.cfg_val(cfg), e.batch_val(cfg, b)]))
            try:
                e.make(cfg)
                ctor = "ok"
            except ValueError:
                ctor = "raise"
            try:
                e.functional(cfg, b)
                fn = "ok"
            except ValueError:
                fn = "raise"
            meta.append((e, cfg, b, ctor, fn))
            s.case((e.name, repr(cfg)), mut != "none", sample={"class": e.name, "cfg": cfg})
            s.count("mutation:" + mut)
            s.count("thr:" + t["kind"])
    outs = run_model(cases)
    for (e, cfg, b, ctor, fn), mo in zip(meta, outs):
        want = "raise" if (isinstance(mo, T) and mo.tag == "err") else "ok"
        s.count("model:" + want)
        det = {"class": e.name, "cfg": cfg, "model": want, "constructor": ctor, "functional": fn}
        ob.check(f"tie:param-check:ctor:{e.name}", e.name, None if ctor == want else f"constructor {ctor}, model {want}", det)
        ob.check(f"tie:param-check:fn:{e.name}", e.name, None if fn == want else f"functional {fn}, model {want}", det)
    ob.flush(s)


# -------------------------------------------------------------------------------------------------
def match_mroc_finding(impl, asis, spec):
    """attributed only when the real result IS the per-sample quantity of the as-is model and differs from the
    per-class one-vs-rest quantity"""
    for f in core.load_findings():
        if f.get("id") == FINDING_MROC and f.get("property") == "C06":
            if close(asis, impl, TOL32) is None and close(spec, impl, TOL32) is not None:
                return FINDING_MROC
    return None


def mroc_stream(ctx):
    """multiclass_binned_auroc / MulticlassBinnedAUROC against the documented per-class (one-vs-rest) quantity"""
    s = ctx.stream("multiclass-binned-auroc-per-class")
    rng = ctx.rng
    e = [x for x in B.ENTRIES if x.name == "MulticlassBinnedAUROC"][0]
    inputs = [({"thr": {"kind": "list", "vals": [0, D]}, "C": 2, "average": None}, {"s": [[D, 0]], "y": [0]}),   # the Coq witness
              ({"thr": {"kind": "int", "n": 5}, "C": 2, "average": None}, {"s": [[6, 2], [2, 6]], "y": [0, 0]})]
    for k in range(ctx.n(60, 600)):
        cfg = dict(e.configs(rng, True)[0])
        inputs.append((cfg, e.gen_batch(rng, cfg, rng.choice([1, 2, 3, 5, 8]))))
    cases = []
    for cfg, b in inputs:
        cases.append(("binned_mroc_spec", [e.cfg_val(cfg), e.batch_val(cfg, b)]))
        cases.append(("binned_mroc_fn", [e.cfg_val(cfg), e.batch_val(cfg, b)]))
    outs = run_model(cases)
    name = "spec:binned-auroc-per-class:MulticlassBinnedAUROC"
    first = None
    for k, (cfg, b) in enumerate(inputs):
        sp, asis = outs[2 * k], outs[2 * k + 1]
        r = e.fn_val(e.functional(cfg, b))
        m = e.make(cfg)
        e.update(m, cfg, b)
        rc = e.out_val(m.compute())
        d = close(sp, r, TOL32) or close(sp, rc, TOL32)
        s.case((repr(cfg), repr(b)), len(b["y"]) >= 2, sample={"cfg": cfg, "batch": b})
        s.count("agree" if d is None else "differ")
        if d and first is None:
            first = (cfg, b, d, match_mroc_finding(r, asis, sp))
    ctx.oblige(name, first is None, detail=repr(core.canon(first[:3]))[:1200] if first else "")
    if first:
        s.mismatches.append({"obligation": name})
        cfg, b, d, fid = first
        fail(ctx, "MulticlassBinnedAUROC", name,
             {"function": "multiclass_binned_auroc", "cfg": cfg, "batch": b, "observed": d,
              "expected": "one value per CLASS (one-vs-rest binned AUROC); got one value per SAMPLE"}, fid)


def run(ctx):
    streams.hist_corr(ctx, ents=B.ENTRIES)
    streams.fn_corr(ctx, ents=B.ENTRIES)
    streams.presentation_variants(ctx, fn_ents=B.ENTRIES, hist_ents=B.ENTRIES)
    streams.wide_corr(ctx, B.ENTRIES, values=(129, 130), ncases=ctx.n(2, 12), sizes=(2, 3))
    modes_stream(ctx)
    exhaustive_stream(ctx)
    floor_stream(ctx)
    param_stream(ctx)
    mroc_stream(ctx)
