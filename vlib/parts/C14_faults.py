"""C14 (dynamic half) -- fault-injection stream: failure atomicity and memory safety of update() and functionals.

For every class constructible from the catalogue-independent base table (vlib/shapes_lib.py) a sandboxed worker
process (multiprocessing, timeout; exit status recorded: crash / hang = violation) injects malformed calls --
mismatched / extra / missing dimensions, empty and 0-dim tensors, wrong dtypes, labels < 0 or >= num_classes,
NaN/inf scores, wrong Python types, missing / unexpected arguments -- at EVERY position of a short valid history:
  * the call either returns or raises a Python exception;
  * when update() RAISES: state_dict(), every attribute in vars(metric) and the result of compute() are exactly what
    they were before the call, and the metric keeps working: a subsequent valid update succeeds and compute() equals
    that of a control instance that never saw the fault;
  * a label outside [0, num_classes) handed to an index-writing kernel must raise (index safety, DESIGN C14 item 3);
  * functional calls leave their argument tensors bit-identical (contiguous, strided views, expanded views) and
  * functionals given the same faults either return or raise.
Partial w.r.t. native kernels (DESIGN C14 Limits): exit status is evidence, not a theorem.
"""
from __future__ import annotations
import collections
import copy
import multiprocessing as mp
import traceback

import torch

from .. import core
from .. import shapes_lib as SL

GENERATORS = ["tr_shapes.py"]
LEVEL_NOTE = ("C14 dynamic half: fault injection at every position of short valid histories, sandboxed per class; "
              "native-kernel memory safety is only observed through the worker's exit status (partial)")

TIMEOUT = 240
INDEX_WRITING = {"MulticlassConfusionMatrix", "multiclass_confusion_matrix", "MulticlassAccuracy", "multiclass_accuracy",
                 "MulticlassPrecision", "multiclass_precision", "MulticlassRecall", "multiclass_recall",
                 "MulticlassF1Score", "multiclass_f1_score", "HitRate", "hit_rate", "ReciprocalRank", "reciprocal_rank",
                 "Perplexity", "perplexity"}


# ------------------------------------------------------------------------------------------------
# snapshots
# ------------------------------------------------------------------------------------------------
def snap(x, depth=0):
    if isinstance(x, torch.Tensor):
        return ("tensor", str(x.dtype), tuple(x.shape), x.detach().clone())
    if isinstance(x, (list, tuple, collections.deque)):
        return (type(x).__name__, [snap(v, depth + 1) for v in x])
    if isinstance(x, dict):
        if depth > 4:
            return ("dict", len(x))
        return ("dict", {repr(k): snap(v, depth + 1) for k, v in x.items()})
    if isinstance(x, (int, float, str, bool)) or x is None:
        return ("py", type(x).__name__, x if x == x else "nan")
    if isinstance(x, torch.device):
        return ("device", str(x))
    return ("obj", type(x).__name__)


def same(a, b) -> bool:
    if a[0] != b[0]:
        return False
    if a[0] == "tensor":
        if a[1] != b[1] or a[2] != b[2]:
            return False
        x, y = a[3], b[3]
        if x.is_floating_point() or x.is_complex():
            return bool(((x == y) | (x.isnan() & y.isnan())).all())
        return bool(torch.equal(x, y))
    if a[0] in ("list", "tuple", "deque"):
        return len(a[1]) == len(b[1]) and all(same(u, v) for u, v in zip(a[1], b[1]))
    if a[0] == "dict":
        if not isinstance(a[1], dict):
            return a[1] == b[1]
        return a[1].keys() == b[1].keys() and all(same(a[1][k], b[1][k]) for k in a[1])
    return a == b


def full_state(m):
    return {"state_dict": snap(m.state_dict()), "vars": snap({k: v for k, v in vars(m).items()})}


def compute_obs(m):
    try:
        with torch.no_grad():
            return ("value", snap(m.compute()))
    except Exception as ex:   # noqa: BLE001
        return ("exception", type(ex).__name__)


def same_obs(a, b):
    if a[0] != b[0]:
        return False
    return same(a[1], b[1]) if a[0] == "value" else a[1] == b[1]


# ------------------------------------------------------------------------------------------------
# faults
# ------------------------------------------------------------------------------------------------
def faults_for(args: dict, kw: dict) -> list[tuple[str, dict]]:
    """Malformed variants of a valid keyword-argument dict (tensor arguments in `args`)."""
    out = []
    names = list(args)
    for a in names:
        t = args[a]
        shp = list(t.shape)
        shapes = [("drop0", shp[1:]), ("lead1", [1] + shp), ("trail1", shp + [1]), ("plus1", [shp[0] + 1] + shp[1:]),
                  ("empty", [0] + shp[1:]), ("zero-dim", [])]
        for tag, new in shapes:
            f = dict(args)
            f[a] = SL.reshape_cyclic(t, new)
            out.append((f"shape:{a}:{tag}", f))
        for tag, conv in (("dtype-float64", lambda x: x.double()), ("dtype-int32", lambda x: x.to(torch.int32)),
                          ("dtype-bool", lambda x: x > 0), ("dtype-float16", lambda x: x.half()),
                          ("dtype-complex", lambda x: x.to(torch.complex64))):
            f = dict(args)
            try:
                f[a] = conv(t)
            except Exception:   # noqa: BLE001
                continue
            if f[a].dtype != t.dtype:
                out.append((f"dtype:{a}:{tag}", f))
        if t.numel() > 0 and not t.is_floating_point():
            for tag, v in (("label-negative", -1), ("label-too-large", 1000)):
                f = dict(args)
                x = t.clone()
                x.view(-1)[min(1, x.numel() - 1)] = v
                f[a] = x
                out.append((f"label:{a}:{tag}", f))
        if t.numel() > 0 and t.is_floating_point():
            for tag, v in (("nan", float("nan")), ("inf", float("inf")), ("neg-inf", float("-inf")), ("huge", 1e38), ("negative", -3.0)):
                f = dict(args)
                x = t.clone()
                x.view(-1)[min(1, x.numel() - 1)] = v
                f[a] = x
                out.append((f"value:{a}:{tag}", f))
        for tag, v in (("none", None), ("str", "abc"), ("float", 3.5), ("list", t.tolist()), ("int", 7)):
            f = dict(args)
            f[a] = v
            out.append((f"type:{a}:{tag}", f))
        f = dict(args)
        del f[a]
        out.append((f"missing:{a}", f))
    f = {a: SL.reshape_cyclic(t, [0] + list(t.shape)[1:]) for a, t in args.items()}
    out.append(("all-empty", f))
    f = {a: SL.reshape_cyclic(t, []) for a, t in args.items()}
    out.append(("all-zero-dim", f))
    f = dict(args)
    f["__unexpected__"] = torch.zeros(1)
    out.append(("unexpected-argument", f))
    # JOINT re-layouts: every data argument changed consistently, so that the shared helper checks (sizes agree) pass and
    # only the metric's own layout contract (number of tasks / dimensions) can reject the call -- possibly late
    data = [a for a in names if isinstance(args[a], torch.Tensor) and a != "threshold"]
    if data:
        sh0 = list(args[data[0]].shape)
        same = [a for a in data if list(args[a].shape) == sh0]
        joint = []
        if len(sh0) == 1:
            joint = [("unsqueeze-last", lambda x: x.unsqueeze(-1)), ("unsqueeze-first", lambda x: x.unsqueeze(0)),
                     ("two-columns", lambda x: torch.stack([x, x], dim=-1)), ("two-rows", lambda x: torch.stack([x, x], dim=0))]
        elif len(sh0) == 2:
            joint = [("flatten", lambda x: x.reshape(-1)), ("first-row", lambda x: x[0]), ("transpose", lambda x: x.T.contiguous()),
                     ("unsqueeze-first", lambda x: x.unsqueeze(0)), ("one-more-row", lambda x: torch.cat([x, x[:1]], dim=0))]
        for tag, g in joint:
            nonw = [a for a in same if "weight" not in a]
            done = []
            for grp, gname in ((same, "same-shaped"), (data, "all"), (nonw, "non-weight")):
                if not grp or grp in done:
                    continue
                done.append(grp)
                f = dict(args)
                try:
                    for a in grp:
                        f[a] = g(args[a])
                except Exception:   # noqa: BLE001
                    continue
                out.append((f"joint:{gname}:{tag}", f))
    return out


def legal_alternatives(cls, ctor, tens: dict, rest: dict, limit: int = 3):
    """Valid update() argument sets of a DIFFERENT legal shape than the base call: single-argument and joint shape
    perturbations that a fresh instance accepts (e.g. another number of classes when num_classes=None, another batch
    size).  Width changes first."""
    cands = []
    names = list(tens)
    for a in names:
        for tag, new in SL.shape_perturbations(list(tens[a].shape)):
            if 0 in new:
                continue
            f = dict(tens)
            f[a] = SL.reshape_cyclic(tens[a], new)
            cands.append((f"single:{a}:{tag}", f))
    first = tens[names[0]]
    group = [a for a in names if list(tens[a].shape) == list(first.shape)]
    if len(group) > 1:
        for tag, new in SL.shape_perturbations(list(first.shape)):
            if 0 in new:
                continue
            f = dict(tens)
            for a in group:
                f[a] = SL.reshape_cyclic(tens[a], new)
            cands.append((f"joint:{'+'.join(group)}:{tag}", f))

    def prio(c):
        t = c[0].rsplit(":", 1)[1]
        return (0 if t.startswith(("dim1", "dim2")) and t.endswith(("plus1", "minus1")) else 1 if t.endswith(("plus1", "minus1")) else 2)
    cands.sort(key=prio)
    out = []
    for tag, f in cands:
        if len(out) >= limit:
            break
        try:
            m = cls(**ctor)
            with torch.no_grad():
                m.update(**{**f, **rest})
                m.compute()
        except Exception:   # noqa: BLE001
            continue
        out.append((tag, {**f, **rest}))
    return out


def must_raise(target: str, tag: str, row) -> bool:
    """index safety: labels outside [0, C) reaching an index-writing kernel must raise."""
    if not (target in INDEX_WRITING and tag.startswith("label:")):
        return False
    # label-mode accuracy / precision / recall / F1 without num_classes (micro average) only compare input == target:
    # no index-writing kernel is involved, out-of-range labels are harmless there
    return "num_classes" in row["kw"] or target.lower().replace("_", "") in ("perplexity", "hitrate", "reciprocalrank")


# ------------------------------------------------------------------------------------------------
# worker
# ------------------------------------------------------------------------------------------------
def _class_stream(row_index: int, q):
    import warnings, logging
    warnings.simplefilter("ignore")
    logging.disable(logging.CRITICAL)
    torch.set_num_threads(1)
    res = {"row": row_index, "cases": 0, "raised": 0, "returned": 0, "problems": [], "dist": {}}
    try:
        row = SL.base_calls()[row_index]
        cls = SL.resolve_cls(row["cls"])
        cname = row["cls"].rpartition(".")[2]
        ctor, upd = SL.split_class_args(cls, row)
        tens = {k: v for k, v in upd.items() if isinstance(v, torch.Tensor)}
        rest = {k: v for k, v in upd.items() if not isinstance(v, torch.Tensor)}
        valid = [upd, {**{k: SL.reshape_cyclic(v.flip(0) if v.ndim else v, list(v.shape)) for k, v in tens.items()}, **rest}]
        flts = faults_for(tens, rest)
        alts = legal_alternatives(cls, ctor, tens, rest)
        res["dist"]["legal-alternative-shapes"] = len(alts)
        # what a never-faulted control does with each alternative legal update, per history position
        ctl_alt = {}
        for pos in (0, len(valid)):
            for ai, (atag, aargs) in enumerate(alts):
                c2 = cls(**ctor)
                for v in valid[:pos]:
                    c2.update(**v)
                try:
                    with torch.no_grad():
                        c2.update(**aargs)
                    ctl_alt[(pos, ai)] = ("returns", full_state(c2)["state_dict"], compute_obs(c2))
                except Exception as ex:   # noqa: BLE001
                    ctl_alt[(pos, ai)] = ("raises", type(ex).__name__, None)
        for pos in range(len(valid) + 1):
            for tag, f in flts:
                m = cls(**ctor)
                ctl = cls(**ctor)
                for v in valid[:pos]:
                    m.update(**v)
                    ctl.update(**v)
                before = full_state(m)
                obs_before = compute_obs(m)
                # compute() itself must not disturb the state (else the comparison below is meaningless)
                after_compute = full_state(m)
                res["cases"] += 1
                kind = tag.split(":")[0]
                try:
                    with torch.no_grad():
                        m.update(**{**f, **rest})
                    raised = None
                except Exception as ex:   # noqa: BLE001
                    raised = f"{type(ex).__name__}: {str(ex)[:120]}"
                key = f"{kind}:{'raises' if raised else 'returns'}"
                res["dist"][key] = res["dist"].get(key, 0) + 1
                desc = {"class": cname, "tag": row["tag"], "ctor": {k: SL.describe(v) for k, v in ctor.items()},
                        "position": pos, "fault": tag, "fault_args": {k: SL.describe(v) for k, v in f.items()}}
                if raised is None:
                    res["returned"] += 1
                    if must_raise(cname, tag, row):
                        res["problems"].append({**desc, "problem": "label-out-of-range-accepted",
                                                "fault_tensors": {k: v for k, v in f.items() if isinstance(v, torch.Tensor) and v.numel() <= 64}})
                    continue
                res["raised"] += 1
                after = full_state(m)
                ref = after_compute
                bad = [part for part in ("state_dict", "vars") if not same(ref[part], after[part])]
                if bad:
                    changed = []
                    if "vars" in bad and isinstance(ref["vars"][1], dict):
                        changed = [k for k in ref["vars"][1] if k not in after["vars"][1] or not same(ref["vars"][1][k], after["vars"][1][k])]
                    res["problems"].append({**desc, "problem": "state-changed-by-failed-update", "raised": raised,
                                            "changed": bad, "attributes": changed[:8]})
                    continue
                obs_after = compute_obs(m)
                if not same_obs(obs_before, obs_after):
                    res["problems"].append({**desc, "problem": "compute-changed-by-failed-update", "raised": raised})
                    continue
                # keeps working -- also for a subsequent VALID update of a DIFFERENT legal shape: exactly as the control
                alt_bad = False
                for ai, (atag, aargs) in enumerate(alts):
                    if (pos, ai) not in ctl_alt:
                        continue
                    m2 = copy.deepcopy(m)
                    want = ctl_alt[(pos, ai)]
                    try:
                        with torch.no_grad():
                            m2.update(**aargs)
                        got = ("returns", full_state(m2)["state_dict"], compute_obs(m2))
                    except Exception as ex:   # noqa: BLE001
                        got = ("raises", f"{type(ex).__name__}: {str(ex)[:120]}", None)
                    okalt = got[0] == want[0] and (got[0] == "raises" or (same(got[1], want[1]) and same_obs(got[2], want[2])))
                    if not okalt:
                        res["problems"].append({**desc, "problem": "later-valid-update-differs-from-control", "raised": raised,
                                                "then_valid_update": {"kind": atag, "args": {k: SL.describe(v) for k, v in aargs.items()}},
                                                "metric_after_failed_update": got[0] + (": " + got[1] if got[0] == "raises" else ""),
                                                "control_never_faulted": want[0]})
                        alt_bad = True
                        break
                if alt_bad:
                    continue
                try:
                    nxt = valid[pos % len(valid)]
                    m.update(**nxt)
                    ctl.update(**nxt)
                    if not same_obs(compute_obs(m), compute_obs(ctl)) or not same(full_state(m)["state_dict"], full_state(ctl)["state_dict"]):
                        res["problems"].append({**desc, "problem": "differs-from-control-after-recovery", "raised": raised})
                except Exception as ex:   # noqa: BLE001
                    res["problems"].append({**desc, "problem": "unusable-after-failed-update", "raised": raised,
                                            "then": f"{type(ex).__name__}: {str(ex)[:120]}"})
    except Exception:   # noqa: BLE001
        res["problems"].append({"problem": "harness-error", "class": SL.base_calls()[row_index].get("cls"), "trace": traceback.format_exc()[-1500:]})
    q.put(_compact(res))


def _compact(res):
    """JSON-able, at most 2 instances per (problem, fault) -- keeps the queue payload small."""
    seen, keep = {}, []
    for p in res["problems"]:
        k = (p.get("problem"), p.get("fault"), p.get("argument_form"))
        seen[k] = seen.get(k, 0) + 1
        if seen[k] <= 2:
            keep.append(p)
    res["problems"] = keep
    return core.canon(res)


def _variants(t: torch.Tensor):
    """contiguous / strided view / expanded view holding the same values."""
    yield "contiguous", t.clone(), None
    if t.ndim >= 1 and t.numel() > 0:
        big = torch.repeat_interleave(t, 2, dim=t.ndim - 1).clone()
        yield "strided-view", big[..., ::2], big
    if t.ndim >= 1 and t.shape[0] > 0:
        base = t[:1].clone()
        yield "expanded-view", base.expand(t.shape), base


def _functional_stream(row_index: int, q):
    import warnings, logging
    warnings.simplefilter("ignore")
    logging.disable(logging.CRITICAL)
    torch.set_num_threads(1)
    res = {"row": row_index, "cases": 0, "raised": 0, "returned": 0, "problems": [], "dist": {}}
    try:
        row = SL.base_calls()[row_index]
        fn = SL.resolve_fn(row["fn"])
        name = row["fn"].rpartition(".")[2]
        # (1) argument tensors are left bit-identical
        for a, t in row["t"].items():
            for vtag, view, backing in _variants(t):
                args = {k: v.clone() for k, v in row["t"].items()}
                args[a] = view
                keep = {k: snap(v) for k, v in args.items()}
                keep_backing = snap(backing) if backing is not None else None
                meta_before = (view.stride(), view.storage_offset(), tuple(view.shape))
                res["cases"] += 1
                try:
                    with torch.no_grad():
                        fn(**args, **row["kw"])
                    out = "returns"
                except Exception as ex:   # noqa: BLE001
                    out = "raises"
                res["dist"][f"immutability:{vtag}:{out}"] = res["dist"].get(f"immutability:{vtag}:{out}", 0) + 1
                changed = [k for k, v in args.items() if not same(keep[k], snap(v))]
                if backing is not None and not same(keep_backing, snap(backing)):
                    changed.append(a + "(backing storage)")
                if (view.stride(), view.storage_offset(), tuple(view.shape)) != meta_before:
                    changed.append(a + "(view metadata)")
                if changed:
                    res["problems"].append({"problem": "functional-mutated-argument", "functional": name, "tag": row["tag"],
                                            "argument_form": vtag, "perturbed": a, "changed": changed,
                                            "kw": {k: SL.describe(v) for k, v in row["kw"].items()}})
        # (2) faults: return or raise (index-writing kernels: out-of-range labels must raise)
        tens = dict(row["t"])
        for tag, f in faults_for(tens, row["kw"]):
            res["cases"] += 1
            keep = {k: snap(v) for k, v in f.items() if isinstance(v, torch.Tensor)}
            try:
                with torch.no_grad():
                    fn(**f, **row["kw"])
                raised = None
            except Exception as ex:   # noqa: BLE001
                raised = type(ex).__name__
            kind = tag.split(":")[0]
            key = f"{kind}:{'raises' if raised else 'returns'}"
            res["dist"][key] = res["dist"].get(key, 0) + 1
            res["raised" if raised else "returned"] += 1
            if raised is None and must_raise(name, tag, row):
                res["problems"].append({"problem": "label-out-of-range-accepted", "functional": name, "tag": row["tag"], "fault": tag,
                                        "kw": {k: SL.describe(v) for k, v in row["kw"].items()},
                                        "fault_tensors": {k: v for k, v in f.items() if isinstance(v, torch.Tensor) and v.numel() <= 64}})
            changed = [k for k, v in keep.items() if not same(v, snap(f[k]))]
            if changed:
                res["problems"].append({"problem": "functional-mutated-argument", "functional": name, "fault": tag, "changed": changed})
    except Exception:   # noqa: BLE001
        res["problems"].append({"problem": "harness-error", "functional": SL.base_calls()[row_index].get("fn"), "trace": traceback.format_exc()[-1500:]})
    q.put(_compact(res))


def run_sandboxed(jobs, parallel=4):
    """jobs: list of (label, target fn, row index).  Returns list of (label, exit status, result | None)."""
    ctxm = mp.get_context("fork")
    pending = list(jobs)
    running = []
    done = []
    import time
    while pending or running:
        while pending and len(running) < parallel:
            label, fn, ri = pending.pop(0)
            q = ctxm.Queue()
            p = ctxm.Process(target=fn, args=(ri, q), daemon=True)
            p.start()
            running.append((label, p, q, time.time(), None))
        still = []
        for label, p, q, t0, got in running:
            if got is None:
                try:
                    got = q.get(timeout=0.05)
                except Exception:   # noqa: BLE001
                    got = None
            if p.is_alive() and got is None and time.time() - t0 > TIMEOUT:
                p.kill()
                p.join()
                done.append((label, "timeout", None))
                continue
            if not p.is_alive() or got is not None:
                if got is None:
                    try:
                        got = q.get(timeout=1.0)
                    except Exception:   # noqa: BLE001
                        got = None
                p.join(timeout=10)
                if p.is_alive():
                    p.kill()
                    p.join()
                code = p.exitcode
                done.append((label, "ok" if (code == 0 and got is not None) else f"exit:{code}", got))
                continue
            still.append((label, p, q, t0, got))
        running = still
    return done


def match_finding(ctx, prob):
    for f in core.load_findings():
        if f.get("property") != ctx.prop or f.get("status") != "known":
            continue
        p = f.get("pattern", {})
        if p.get("problem") != prob.get("problem"):
            continue
        tgt = prob.get("class") or prob.get("functional")
        if tgt not in p.get("targets", []):
            continue
        if p.get("fault") and prob.get("fault") not in p["fault"]:
            continue
        if p.get("fault_suffix") and not str(prob.get("fault", "")).endswith(p["fault_suffix"]):
            continue
        return f["id"]
    return None


def run(ctx):
    rows = SL.base_calls()
    jobs = []
    seen_cls = set()
    for i, r in enumerate(rows):
        if r.get("cls"):
            jobs.append((f"class:{r['cls'].rpartition('.')[2]}:{r['tag'] or 'default'}", _class_stream, i))
            seen_cls.add(r["cls"].rpartition(".")[2])
        if r.get("fn"):
            jobs.append((f"functional:{r['fn'].rpartition('.')[2]}:{r['tag'] or 'default'}", _functional_stream, i))
    results = run_sandboxed(jobs, parallel=6)
    s = ctx.stream("fault injection at every position of valid histories (sandboxed workers)")
    s.note = "faults enumerated completely per class (finite list); histories of length 0..2"
    reported = set()
    counts = {}
    for label, status, res in sorted(results, key=lambda x: x[0]):
        ok = status == "ok"
        ctx.oblige(f"sandbox-exit:{label}", ok, detail=status)
        if not ok:
            ctx.violation("failing-input", label, {"check": "worker process must exit normally (no crash, no hang)", "worker": label,
                                                   "status": status, "broken": f"sandbox-exit:{label}"})
            continue
        s.evaluations += res["cases"]
        s.traces += res["raised"]
        for k, v in res["dist"].items():
            s.count(k, v)
        s.count("worker:" + label.split(":")[0])
        s.nontrivial.update(f"{label}:{i}" for i in range(res["raised"]))
        if len(s.samples) < 3:
            s.samples.append({"worker": label, "cases": res["cases"], "raised": res["raised"], "returned": res["returned"]})
        for prob in res["problems"]:
            tgt = prob.get("class") or prob.get("functional") or label
            fid = match_finding(ctx, prob)
            key = (tgt, prob["problem"], prob.get("fault", "").split(":")[-1] if prob["problem"] == "label-out-of-range-accepted" else prob.get("fault"), fid)
            if fid and (tgt, prob["problem"], fid) in reported:
                continue
            if key in reported:
                continue
            per = (tgt, prob["problem"], "count")
            counts[per] = counts.get(per, 0) + 1
            if counts[per] > 3:            # at most 3 replays per (target, kind of problem)
                continue
            reported.add(key)
            reported.add((tgt, prob["problem"], fid))
            s.mismatches.append({"target": tgt, "problem": prob["problem"]})
            ctx.violation("failing-input", tgt, {"check": "C14 fault injection", **prob, "broken": f"fault-atomicity:{tgt}"},
                          finding_id=fid)
    ctx.notes.append(f"classes with a fault-injection stream: {len(seen_cls)}; not constructible here: FrechetAudioDistance / "
                     "FrechetInceptionDistance (need an embedding model), text / aggregation classes without tensor shape checks")
