"""C19 -- accumulated counts stay exact over long histories."""
from __future__ import annotations
import random
import re
import logging
import warnings

import torch

from .. import core, basecalls
from ..model import run_model, crosscheck_in_coq, T

logging.disable(logging.CRITICAL)
warnings.simplefilter("ignore")

GENERATORS = ["introspect_acc.py"]
LEVEL_NOTE = ("RNE accumulator model on integer-valued increments; exactness theorem for wide kinds up to 2^53; the table "
              "of accumulator kinds is re-introspected from /repo on every run; non-integer weights are outside the exactness theorem")

KNAME = {"F16": "float16", "BF16": "bfloat16", "F32": "float32", "F64": "float64", "I8": "int8", "U8": "uint8",
         "I16": "int16", "I32": "int32", "I64": "int64", "PyInt": "pyint", "PyFloat": "pyfloat"}
WIDE = {"F64", "I64", "PyInt", "PyFloat"}
# where a kind first loses integer increments
EDGE = {"F16": 2 ** 11, "BF16": 2 ** 8, "F32": 2 ** 24, "I8": 2 ** 7, "U8": 2 ** 8, "I16": 2 ** 15, "I32": 2 ** 31,
        "F64": 2 ** 53, "I64": 2 ** 53, "PyInt": 2 ** 53, "PyFloat": 2 ** 53}


def rows():
    txt = (core.COQ / "Generated" / "AccKinds.v").read_text()
    return [(c, s, k, i == "true") for c, s, k, i in re.findall(r'\("(\w+)", "(\w+)", (\w+), (true|false)\)', txt)]


def known_triples():
    out = {}
    for f in core.load_findings():
        if f.get("property") == "C19" and f.get("status") == "known":
            for c, s, k in f.get("pattern", {}).get("accumulators", []):
                out[(c, s, k)] = f["id"]
    return out


def bases(kind, quick):
    e = EDGE[kind]
    if kind in WIDE:
        b = [2 ** 24 - 1, 2 ** 24, 2 ** 24 + 1, 2 ** 31 - 1, 2 ** 31 + 1, 2 ** 40 + 3, e - 64, e - 16]
    else:
        b = [e - 4, e - 2, e - 1, e, e + 2 * max(1, e // 2 ** 23), 2 * e] if kind.startswith(("F", "BF")) else [e - 6, e - 3]
    return b if not quick else b[:6]


def inject(name, kw, cls, call, state, base, seed=7):
    """Load a state dict in which `state` is `base` everywhere, apply one update, return
    (injected values, per-element increments, observed values) as python ints (flattened)."""
    r = random.Random(seed)
    a, k = call(r, 4)
    probe = basecalls.make(name, kw, cls)
    probe.update(*a, **k)
    sd = probe.state_dict()
    fresh = basecalls.make(name, kw, cls).state_dict()
    v1 = sd[state]
    v0 = fresh[state]
    if isinstance(v1, torch.Tensor):
        z = v0.to(torch.float64)
        if z.shape != v1.shape:
            z = z.reshape(()).expand(v1.shape)
        d = (v1.to(torch.float64) - z)
        sd[state] = torch.full_like(v1, base)
    else:
        d = torch.tensor(float(v1 - v0), dtype=torch.float64)
        sd[state] = type(v1)(base)
    m = basecalls.make(name, kw, cls)
    m.load_state_dict(sd)
    inj = getattr(m, state)
    injv = inj.to(torch.float64).flatten().tolist() if isinstance(inj, torch.Tensor) else [float(inj)]
    m.update(*a, **k)
    got = getattr(m, state)
    gotv = got.to(torch.float64).flatten().tolist() if isinstance(got, torch.Tensor) else [float(got)]
    return [int(x) for x in injv], [int(x) for x in d.flatten().tolist()], [int(x) for x in gotv]


def inject_merge(name, kw, cls, call, state, vals, seed=7):
    """Objects whose `state` is vals[i] everywhere; merge objects 1.. into object 0; return observed ints."""
    r = random.Random(seed)
    a, k = call(r, 4)
    probe = basecalls.make(name, kw, cls)
    probe.update(*a, **k)
    objs = []
    for v in vals:
        sd = probe.state_dict()
        cur = sd[state]
        sd[state] = torch.full_like(cur, v) if isinstance(cur, torch.Tensor) else type(cur)(v)
        m = basecalls.make(name, kw, cls)
        m.load_state_dict(sd)
        objs.append(m)
    injected = []
    for m in objs:
        x = getattr(m, state)
        injected.append(int(x.to(torch.float64).flatten()[0].item()) if isinstance(x, torch.Tensor) else int(x))
    objs[0].merge_state(objs[1:])
    got = getattr(objs[0], state)
    gotv = got.to(torch.float64).flatten().tolist() if isinstance(got, torch.Tensor) else [float(got)]
    return injected, [int(x) for x in gotv]


def merge_vals(kind):
    e = EDGE[kind]
    if kind in WIDE:
        return [[3, 2 ** 24] + [1] * 8, [2 ** 24 + 1, 2 ** 24 + 1, 5], [7, 2 ** 31 - 1, 1, 1], [e - 64, 3, 4, 5]]
    return [[e - 2, 1, 1, 1], [1, e - 1, 1, 1]] if kind.startswith(("F", "BF")) else [[e - 6, 1, 2]]


def merge_stream(ctx, table, cases_by_class, known):
    s = ctx.stream("merge-injection (merge_state of large accumulators vs acc_run model, bit-exact)")
    mcases, meta = [], []
    for (c, st, kind, integer) in table:
        if not integer:
            continue
        for (label, kw, call, cls) in cases_by_class.get(c, [])[:1]:
            for vals in merge_vals(kind):
                try:
                    inj, got = inject_merge(c, kw, cls, call, st, vals)
                except KeyError:
                    break
                except Exception as ex:
                    ctx.oblige(f"tie:inject-merge:{c}.{st}", False, detail=f"{type(ex).__name__}: {ex}")
                    break
                mcases.append(("acc", [T(KNAME[kind]), inj[0], inj[1:]]))
                meta.append((c, st, kind, label, kw, inj, got))
    outs = run_model(mcases)
    bad, lost = {}, {}
    for (c, st, kind, label, kw, inj, got), mo in zip(meta, outs):
        s.case((c, st, kind, tuple(inj)), True, sample={"class": c, "state": st, "kind": kind, "merged_values": inj, "observed": got[0], "model": mo})
        s.count("kind:" + kind)
        cfg = kw if kw != "FAD" else "fad"
        if any(g != mo for g in got) and (c, st) not in bad:
            bad[(c, st)] = {"class": label, "cfg": cfg, "state": st, "kind": kind, "merged_values": inj, "observed": got[0], "model_acc_run": mo}
        if any(g != sum(inj) for g in got) and sum(inj) <= 2 ** 53 and (c, st, kind) not in lost:
            lost[(c, st, kind)] = {"check": "inject-and-merge", "class": label, "cfg": cfg, "state": st, "kind": kind,
                                   "merged_values": inj, "observed": got[0], "expected": sum(inj)}
    for (c, st, kind, integer) in table:
        if integer:
            m = bad.get((c, st))
            ctx.oblige(f"tie:acc-merge:{c}.{st}", m is None, detail=repr(m) if m else "")
    for (c, st, kind), w in sorted(lost.items()):
        ctx.violation("failing-input", f"{c}.{st}", {**w, "broken": f"tie:acc-merge:{c}.{st}"}, finding_id=known.get((c, st, kind)))


def run(ctx):
    table = rows()
    known = known_triples()
    cases_by_class = {}
    for label, name, kw, call, cls in basecalls.all_cases():
        cases_by_class.setdefault(name, []).append((label, kw, call, cls))
    s = ctx.stream("boundary-injection (real class vs acc_add model, bit-exact)")
    s.dist["accumulators"] = len(table)
    s.dist["narrow"] = sum(1 for r in table if r[2] not in WIDE)
    mcases, meta = [], []
    for (c, st, kind, integer) in table:
        if not integer:
            s.count("skipped:non-integer-increment")
            continue
        done = False
        for (label, kw, call, cls) in cases_by_class.get(c, []):
            if done:
                break
            for b in bases(kind, ctx.quick):
                try:
                    inj, d, got = inject(c, kw, cls, call, st, b)
                except KeyError:
                    break       # this configuration does not have the state
                except Exception as ex:
                    ctx.oblige(f"tie:inject:{c}.{st}", False, detail=f"{type(ex).__name__}: {ex}")
                    break
                done = True
                for x, dd, g in zip(inj, d, got):
                    mcases.append(("acc", [T(KNAME[kind]), x, [dd]]))
                    meta.append((c, st, kind, label, kw, b, x, dd, g))
    outs = run_model(mcases)
    bad_tie, lost = {}, {}
    for (c, st, kind, label, kw, b, x, dd, g), mo in zip(meta, outs):
        s.case((c, st, kind, x, dd), dd != 0 and x >= 2 ** 8,
               sample={"class": c, "state": st, "kind": kind, "injected": x, "increment": dd, "observed": g, "model": mo})
        s.count("kind:" + kind)
        if mo != g and (c, st) not in bad_tie:
            bad_tie[(c, st)] = {"class": label, "cfg": kw if kw != "FAD" else "fad", "state": st, "kind": kind,
                                "injected": x, "increment": dd, "observed": g, "model_acc_add": mo}
        if g != x + dd and x + dd <= 2 ** 53 and (c, st, kind) not in lost:
            lost[(c, st, kind)] = {"class": label, "cfg": kw if kw != "FAD" else "fad", "state": st, "kind": kind,
                                   "injected": x, "increment": dd, "observed": g, "expected": x + dd}
    for (c, st, kind, integer) in table:
        if integer:
            m = bad_tie.get((c, st))
            ctx.oblige(f"tie:acc:{c}.{st}", m is None, detail=repr(m) if m else "")
    n, dis = crosscheck_in_coq(mcases, outs, "C19", limit=ctx.n(80, 300))
    ctx.oblige("tie:extraction-vs-vm_compute:acc", dis == 0, detail=f"{dis} of {n}")
    # the property itself, on the implementation: increments must never be lost below 2^53
    for (c, st, kind), w in sorted(lost.items()):
        ctx.violation("failing-input", f"{c}.{st}",
                      {"check": "inject-and-update", **w, "broken": "all_accumulators_wide_or_known",
                       "replay_hint": "load_state_dict with the state set to 'injected' everywhere, one update with the probe input, read the state"},
                      finding_id=known.get((c, st, kind)))
    # narrow accumulators with non-integer increments are decided by the table theorem alone
    for (c, st, kind, integer) in table:
        if kind not in WIDE and (c, st, kind) not in lost:
            if (c, st, kind) in known:
                ctx.violation("failing-input", f"{c}.{st}", {"state": st, "kind": kind}, finding_id=known[(c, st, kind)])
            else:
                ctx.violation("no-failing-input-found", f"{c}.{st}",
                              {"broken": "all_accumulators_wide_or_known", "class": c, "state": st, "kind": kind,
                               "explanation": "accumulator stored in a narrow kind; increments are not integer-valued on the probe input so no exact witness was produced"})
    merge_stream(ctx, table, cases_by_class, known)
    stale = [k for k in known if k not in {(c, st, kd) for c, st, kd, _ in table}]
    if stale:
        ctx.notes.append(f"stale known-finding accumulators (no longer narrow on this tree): {stale[:8]}")
