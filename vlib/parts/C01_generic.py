"""C01 -- sharded accumulation: merge trees equal a single instance."""
from .. import core, history, generic
from ..catalogue import entries
from .. import streams

LEVEL_NOTE = ("generic merge-tree theorem + per-class Alg instances; tie = history correspondence (state-level) "
              "of the Coq pool model against the real classes; exact arithmetic, float re-association absorbed by tolerance")


def tree_stream(ctx):
    s = ctx.stream("merge-tree-vs-single-instance (implementation only)")
    for e in entries():
        if not e.merge_exact:
            continue
        cfgs = e.configs(ctx.rng, ctx.quick)
        found = False
        for h in range(ctx.n(15, 200)):
            cfg = cfgs[h % len(cfgs)]
            t = generic.gen_tree(ctx.rng, e, cfg, depth=ctx.rng.choice([1, 2, 2, 3]))
            try:
                d = generic.tree_vs_single(e, cfg, t)
            except Exception as ex:
                d = f"exception {type(ex).__name__}: {ex}"
            s.case((e.name, repr(cfg), repr(t)), generic.tree_size(t) >= 3,
                   sample={"class": e.name, "cfg": cfg, "tree_size": generic.tree_size(t), "batches": len(generic.tree_stream(t))})
            s.count("class:" + e.name)
            if d and not found:
                found = True

                def fails(v, e=e, cfg=cfg):
                    try:
                        return generic.tree_vs_single(e, cfg, v) is not None
                    except Exception:
                        return True
                small = generic.shrink_tree(e, cfg, t, fails)
                try:
                    d2 = generic.tree_vs_single(e, cfg, small)
                except Exception as ex:
                    d2 = f"exception {type(ex).__name__}: {ex}"
                s.mismatches.append({"class": e.name})
                ctx.violation("failing-input", e.name,
                              {"check": "tree_vs_single", "class": e.name, "cfg": cfg, "tree": small,
                               "observed": d2 or d, "broken": f"tie:corr:{e.name}"},
                              finding_id=match_finding(ctx, e.name, cfg, small))


def match_finding(ctx, cls, cfg, tree):
    for f in core.load_findings():
        if f.get("property") != ctx.prop or f.get("status") != "known":
            continue
        pat = f.get("pattern", {})
        if pat.get("trigger"):
            continue               # findings with a trigger are attributed by the part that knows the trigger
        if cls in pat.get("classes", []):
            if pat.get("merge_form") and not _has_form(tree, pat["merge_form"]):
                continue
            return f["id"]
    return None


def _has_form(t, form):
    if t[0] == "shard":
        return False
    return (len(t) > 4 and t[4] == form) or _has_form(t[1], form) or any(_has_form(o, form) for o in t[2])


def run(ctx):
    streams.hist_corr(ctx)
    tree_stream(ctx)
