"""C03 -- class metric equals functional metric on the concatenated data."""
import inspect
from .. import core, streams, sandbox, variation
from ..catalogue import entries
from ..compare import close
from ..model import T

LEVEL_NOTE = ("generic theorem class = gamma(beta(concatenation)) for monoid-abstracted metrics; tie = functional and history "
              "correspondence of every catalogue class with its Coq model; presentation differences (leading num_tasks dim, dtype width) normalised by the entries")


def ctor_defaults(ctx):
    """Every class whose constructor has no required argument must be constructible with its defaults."""
    import torcheval.metrics as M
    from torcheval.metrics.statistical import Wasserstein1D
    s = ctx.stream("constructor-defaults")
    s.exhaustive = True
    names = [n for n in M.__all__ if n not in ("Metric", "functional", "FrechetInceptionDistance", "StructuralSimilarity")]
    for n in sorted(names) + ["Wasserstein1D"]:
        cls = getattr(M, n, None) or Wasserstein1D
        sig = inspect.signature(cls.__init__)
        req = [p for k, p in list(sig.parameters.items())[1:] if p.default is inspect.Parameter.empty and p.kind in (p.POSITIONAL_OR_KEYWORD, p.KEYWORD_ONLY)]
        s.case(n, not req, sample={"class": n, "required": [p.name for p in req]})
        if req:
            continue
        try:
            cls()
        except Exception as ex:
            ctx.violation("failing-input", n, {"check": "ctor_defaults", "class": n, "observed": f"{type(ex).__name__}: {ex}",
                                               "broken": f"ctor_defaults:{n}"},
                          finding_id=core.match_finding("C03", n, "ctor_defaults"))


MODES = ["f64", "u8", "f64+i8", "i32", "nc", "i16", "rg"]


def squeeze(v):
    """documented presentation difference: a leading num_tasks dimension of size one"""
    while isinstance(v, list) and len(v) == 1:
        v = v[0]
    return v


def _job(job):
    name, trials = job
    from ..catalogue import entry
    e = entry(name)
    out = []
    for cfg, batches, prior, mode in trials:
      rej0 = variation.rejected()
      for attempt in (mode, None):
        try:
          with variation.variant(attempt):
              m = e.make(cfg)
              if prior is not None:
                  # the object is reused across epochs: same number of batches of OTHER data, compute, reset
                  for b in prior:
                      e.update(m, cfg, b)
                  try:
                      m.compute()
                  except Exception:
                      pass
                  m.reset()
              for b in batches:
                  e.update(m, cfg, b)
              try:
                  a = e.out_val(m.compute())
              except Exception:
                  a = T("err")
              t1 = e.tol          # entries may choose the tolerance per configuration (float32 class states)
              cat = e.concat(cfg, batches)
              try:
                  f = e.fn_val(e.functional(cfg, cat))
              except Exception:
                  f = T("err")
              tol = max(t1, e.tol)
              d = None if (isinstance(a, T) and isinstance(f, T) and a.tag == f.tag == "err") else close(squeeze(f), squeeze(a), tol)
          if attempt is not None and variation.rejected() != rej0:
              continue       # the real code refused this presentation in one of the two forms: both forms must see the same tensors
          out.append(d)
          break
        except Exception as ex:
            out.append(f"harness exception {type(ex).__name__}: {ex}")
            break
    return out


def run(ctx):
    ctor_defaults(ctx)
    ents = [e for e in entries() if e.has_functional]
    streams.fn_corr(ctx, ents=ents, ncases=ctx.n(20, 300))
    s = ctx.stream("class-vs-functional(concatenation) (implementation only)")
    jobs = []
    for e in ents:
        cfgs = e.configs(ctx.rng, ctx.quick)
        trials = []
        for t in range(ctx.n(60, 400)):
            cfg = cfgs[t % len(cfgs)]
            nb = ctx.rng.choice([1, 2, 3, 5, 8])
            batches = [e.gen_batch(ctx.rng, cfg, max(e.min_batch, ctx.rng.choice([1, 2, 3, 7, 16]))) for _ in range(nb)]
            if e.concat(cfg, batches) is None or not e.defined(cfg, batches):
                continue
            prior = None
            if t % 3 == 0:
                prior = [e.gen_batch(ctx.rng, cfg, max(e.min_batch, ctx.rng.choice([1, 2, 3, 7]))) for _ in range(nb)]
            mode = None if t % 2 == 0 else MODES[(t // 2) % len(MODES)]      # half of the trials: same numbers, other presentation
            trials.append((cfg, batches, prior, mode))
        jobs.append((e.name, trials))
    res = sandbox.run_jobs(_job, jobs, timeout=ctx.n(150, 900), workers=12)
    for (name, trials), (status, val) in zip(jobs, res):
        bad = None
        if status != "ok":
            bad = {"observed": f"worker {status}: {val}"}
            val = []
        for (cfg, batches, prior, mode), d in zip(trials, val):
            s.case((name, repr(cfg), repr(batches)), len(batches) >= 2, sample={"class": name, "cfg": cfg, "batches": len(batches), "prior_epoch": prior is not None, "presentation": mode or "base"})
            s.count("class:" + name)
            s.count("presentation:" + (mode or "base"))
            if d and bad is None:
                bad = {"cfg": cfg, "batches": batches, "prior_epoch": prior, "presentation": mode or "base", "observed": d}
        if bad:
            ctx.violation("failing-input", name, {"check": "class_vs_functional", "class": name, **bad, "broken": f"tie:fn:{name}"},
                          finding_id=core.match_finding("C03", name, str(bad["observed"])))
