"""C08 (ranking / retrieval half): hit rate, reciprocal rank, retrieval precision / recall, CTR,
weighted calibration, collisions, frequency-at-k equal their definitions; class forms report the
definition on ALL data seen so far.

Streams
  history-correspondence     Coq pool models vs the real classes, state after every op (ties the models)
  functional-correspondence  functionals vs the Coq functional models, and algo model vs explicit-ranking
                             spec model (the executable side of the *_spec theorems)
  class-vs-definition        real class after many updates vs the SPEC model applied to all data seen so far
                             (the property's last sentence); known defects are attributed precisely
"""
from fractions import Fraction
from .. import core, history, streams
from ..compare import close
from ..model import run_model, T
from ..families import ranking as R

LEVEL_NOTE = ("ranking/retrieval: theorems over exact models (scores on an integer grid; retrieval statements under the "
              "property's proviso 'scores without ties': torch.topk's order among equal scores is unspecified and the "
              "generators keep retrieval scores pairwise distinct); models tied by state-level history correspondence "
              "(merge arguments as list/tuple/generator) and functional correspondence")

F_D3 = "C08-retrieval-recall-retained-denominator"
F_D4 = "C08-retrieval-empty-target-after-pruning"


# ---------------------------------------------------------------------------------------------
# class vs definition
# ---------------------------------------------------------------------------------------------
def impl_class(e, cfg, batches):
    m = e.make(cfg)
    for b in batches:
        e.update(m, cfg, b)
    try:
        return e.out_val(m.compute())
    except Exception:
        return T("err")


def spec_case(e, cfg, batches):
    return (e.class_spec_model, [e.cfg_val(cfg), e.all_samples_val(cfg, batches)])


def norm_spec(e, cfg, batches, v):
    # WeightedCalibration: when NOTHING was accumulated (every task's weighted input and target sums
    # are 0) the class returns an empty tensor; otherwise per-task IEEE quotients like the functional
    if e.name == "WeightedCalibration":
        c = e.concat(cfg, batches)
        if all(sum(w * y for w, y in zip(c["ws"][i], c[f][i])) == 0 for i in range(cfg["num_tasks"]) for f in ("x", "y")):
            return []
    return v


def topk_data(data, k):
    s = sorted(data, key=lambda p: -p[0])
    return s if k is None else s[:k]


def retrieval_patterns(e, cfg, batches):
    """Per query: which known-defect pattern (if any) the data seen so far falls into."""
    out = []
    for d in e.per_query(cfg, batches):
        rel = sum(y for _, y in d)
        kept = sum(y for _, y in topk_data(d, cfg["k"]))
        if e.recall and kept >= 1 and rel > kept:
            out.append(F_D3)          # relevant items retained AND relevant items pruned: class divides by retained
        elif rel >= 1 and kept == 0 and cfg["empty_target_action"] != "neg":
            out.append(F_D4)          # relevant items seen, all pruned: empty_target_action applied
        elif e.recall and rel >= 1 and kept == 0 and cfg["empty_target_action"] == "neg":
            out.append(None)          # "neg" gives 0.0 = the true recall: no observable difference
        else:
            out.append(None)
    return out


def attribute(e, cfg, batches, spec, impl):
    """Finding id for a class/definition disagreement, or None when it is not exactly a known pattern."""
    if e.family != "pruned":
        return None
    pats = retrieval_patterns(e, cfg, batches)
    flagged = [p for p in pats if p]
    if not flagged:
        return None
    # the faithful (as-is) model must predict the class's value exactly
    ops = [("upd", 0, b) for b in batches] + [("compute", 0)]
    if history.check_history(e, cfg, 1, ops) is not None:
        return None
    if isinstance(spec, list) and isinstance(impl, list) and len(spec) == len(impl):
        for s, i, p in zip(spec, impl, pats):
            if close(s, i, e.tol) and p is None:
                return None           # a query outside the known patterns disagrees
    return flagged[0]


REPLAYS = [
    (F_D3, "RetrievalRecall", {"empty_target_action": "neg", "k": 1, "limit_k_to_size": False, "num_queries": 1, "avg": None},
     [{"z": [921, 102], "y": [1, 1]}]),
    (F_D4, "RetrievalPrecision", {"empty_target_action": "pos", "k": 1, "limit_k_to_size": False, "num_queries": 1, "avg": None},
     [{"z": [921, 102], "y": [0, 1]}]),
    (F_D4, "RetrievalRecall", {"empty_target_action": "pos", "k": 1, "limit_k_to_size": False, "num_queries": 1, "avg": None},
     [{"z": [921, 102], "y": [0, 1]}]),
]


def class_vs_definition(ctx):
    s = ctx.stream("class-vs-definition")
    ents = [e for e in R.ENTRIES if e.class_spec_model]
    byname = {e.name: e for e in ents}
    work = []
    for fid, name, cfg, batches in REPLAYS:
        work.append((byname[name], cfg, batches, fid))
    for e in ents:
        cfgs = e.configs(ctx.rng, ctx.quick)
        for h in range(ctx.n(60, 800)):
            cfg = cfgs[h % len(cfgs)]
            nq = cfg.get("num_queries", 1)
            nb = ctx.rng.randint(1, 5) * (1 if nq == 1 else ctx.rng.randint(1, nq))
            batches = [e.gen_batch(ctx.rng, cfg, max(e.min_batch, ctx.rng.choice([1, 1, 2, 3, 5, 8]))) for _ in range(nb)]
            work.append((e, cfg, batches, None))
    outs = run_model([spec_case(e, cfg, bs) for e, cfg, bs, _ in work])
    bad, reported = {}, set()
    for (e, cfg, batches, expect), spec in zip(work, outs):
        impl = impl_class(e, cfg, batches)
        spec = norm_spec(e, cfg, batches, spec)
        if isinstance(spec, T) and isinstance(impl, T) and spec.tag == impl.tag == "err":
            d = None
        else:
            d = close(spec, impl, e.tol)
        s.case((e.name, repr(cfg), repr(batches)), len(batches) >= 2,
               sample={"class": e.name, "cfg": cfg, "batches": len(batches), "samples": sum(e.size(b) for b in batches)})
        s.count("class:" + e.name)
        s.count("updates:%d" % min(len(batches), 9))
        if e.family == "pruned":
            for p in retrieval_patterns(e, cfg, batches):
                s.count("pattern:" + (p or "none"))
        if expect and not d:
            ctx.notes.append(f"known finding {expect} no longer reproduces on its minimal replay ({e.name}): the defect appears fixed")
        if not d:
            continue
        fid = attribute(e, cfg, batches, spec, impl)
        key = (e.name, fid)
        if key in reported:
            continue
        reported.add(key)
        bad.setdefault(e.name, []).append(fid)
        s.mismatches.append({"class": e.name, "finding": fid})
        ctx.violation("failing-input", e.name,
                      {"check": "class_vs_definition", "class": e.name, "cfg": cfg, "batches": batches,
                       "definition": spec, "class_result": impl, "disagreement": d,
                       "broken": f"class=definition:{e.name}"}, finding_id=fid)
    for e in ents:
        ctx.oblige(f"class=definition:{e.name}", e.name not in bad,
                   detail=("disagreements attributed to: " + ", ".join(str(x) for x in bad.get(e.name, []))))


def run(ctx):
    streams.hist_corr(ctx, ents=R.ENTRIES)
    streams.fn_corr(ctx, ents=[e for e in R.ENTRIES if e.fn_model] + R.FN_ENTRIES)
    streams.presentation_variants(ctx, fn_ents=[e for e in R.ENTRIES if e.fn_model] + R.FN_ENTRIES, hist_ents=R.ENTRIES)
    streams.wide_corr(ctx, [e for e in R.ENTRIES if e.fn_model] + R.FN_ENTRIES)
    class_vs_definition(ctx)
