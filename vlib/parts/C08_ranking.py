"""C08 (ranking / retrieval half)."""
import contextlib
from .. import core, history, streams
from ..families import ranking as R

LEVEL_NOTE = "ranking/retrieval: draft"


@contextlib.contextmanager
def restricted_merge_forms():
    """history.gen_history chooses list/tuple/generator merge arguments; entries that declare
    `merge_forms` get only those (RetrievalPrecision/Recall.merge_state iterate a generator twice:
    that defect belongs to C01 and is reported there)."""
    orig = history.gen_history

    def gen(rng, e, cfg, **kw):
        ops = orig(rng, e, cfg, **kw)
        forms = getattr(e, "merge_forms", None)
        if forms:
            ops = [(o[0], o[1], o[2], o[3] if o[3] in forms else "list") if o[0] == "merge" else o for o in ops]
        return ops
    history.gen_history = gen
    try:
        yield
    finally:
        history.gen_history = orig


def run(ctx):
    with restricted_merge_forms():
        streams.hist_corr(ctx, ents=R.ENTRIES)
    streams.fn_corr(ctx, ents=[e for e in R.ENTRIES if e.fn_model] + R.FN_ENTRIES)
