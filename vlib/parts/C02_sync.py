"""C02 -- distributed sync returns, on every rank, the merge of all ranks' metrics (toolkit.py).
T-trace tie of Models/Toolkit.v + the property itself (toolkit result == local merge with the real classes)."""
from __future__ import annotations
from .. import core, syncutil as su
from ..model import run_model, crosscheck_in_coq, T, NONE

LEVEL_NOTE = ("L-proto: toolkit.get_synced_metric(_collection) and the 4 entry points built on them as per-rank programs "
              "over the synclib model, generic over an abstract merge function; theorems in Props/C02.v; tie = traces and "
              "results of the REAL toolkit on the checking transport (W=1..8, sub-groups) vs the extracted model, whose "
              "answer (self | merge of gathered pseudo-metrics) is executed with the real classes; the property is also "
              "tested directly: toolkit result == clone(local).merge_state(other ranks in rank order); one real-gloo launch; "
              "merge_state/compute of the metric classes are the real code (not modelled here); no-hang = no mismatch in the model / "
              "no CollectiveMismatch on the transports; NCCL / device moves not exercised")

SINGLE = ["Mean", "Sum", "Max", "Min", "Cat", "Cat2d", "Throughput", "MulticlassAccuracy", "MulticlassAccuracyMacro",
          "BinaryAUROC", "MeanSquaredError", "MeanSquaredErrorRaw", "R2ScoreRaw", "Covariance", "DummySumMetric",
          "DummySumListStateMetric", "DictSumMetric", "MixedMetric"]


def gen_toolkit(rng, only_W=None):
    while True:
        W, g = su.gen_group(rng)
        if only_W is None or W == only_W:
            break
    n = len(g)
    entry = rng.choice(su.ENTRIES)
    coll = entry.endswith("_collection")
    names = rng.sample(["acc", "loss", "zz", "Auc", "m1"], rng.randint(1, 3)) if coll else ["metric"]
    chosen = []
    for nm in names:
        ck = rng.choice(SINGLE)
        variant = None
        if ck == "Cat":
            variant = rng.choice(["float32", "int64"])
        elif ck == "DummySumListStateMetric":
            variant = rng.choice([1, 2])
        elif ck == "DictSumMetric":
            variant = rng.choice(["a", None, None])
        chosen.append((nm, ck, variant))
    hist = rng.choice(["any", "any", "some-zero", "all-zero", "uneven"])
    zero_rank = rng.randrange(n)
    # dtype of the update data: all float32 | one dtype per metric for the whole group | one per rank | one per update
    dmode = rng.choice(["f32"] * 11 + ["one"] * 4 + ["per-rank"] * 2 + ["per-update"] * 3)
    one_dt = {nm: rng.choice(su.MIXABLE_DTYPES.get(ck, ["float32"])) for nm, ck, _ in chosen}
    members = []
    for j in range(n):
        member = []
        rank_dt = {nm: rng.choice(su.MIXABLE_DTYPES.get(ck, ["float32"])) for nm, ck, _ in chosen}
        order = rng.sample(chosen, len(chosen)) if coll and rng.random() < 0.3 else chosen   # dict insertion order per rank
        for nm, ck, variant in order:
            if hist == "all-zero":
                k = 0
            elif hist == "some-zero":
                k = 0 if j == zero_rank else rng.randint(1, 3)
            else:
                k = rng.randint(0, 3)
            gen = su.classes()[ck][1]

            def dt_of_update():
                if dmode == "f32":
                    return "float32"
                if dmode == "one":
                    return one_dt[nm]
                if dmode == "per-rank":
                    return rank_dt[nm]
                return rng.choice(su.MIXABLE_DTYPES.get(ck, ["float32"]))
            member.append([nm, ck, [gen(rng, variant, dt_of_update()) for _ in range(k)]])
        members.append(member)
    return {"kind": "toolkit", "W": W, "group": g, "dst": None, "entry": entry, "members": members, "dtypes": dmode}


def features(scn):
    g, n = scn["group"], len(scn["group"])
    f = {"shifted_group": su.shifted(g), "ndim_disagree": [], "dtype_disagree": [], "bcast_root_shifted": [], "dict_unequal_keys": [],
         "list_all_empty": [], "classes": sorted({m[1] for mem in scn["members"] for m in mem})}
    byname = [{m[0]: su.prepared_state_dict(su.build_metric(m)) for m in mem} for mem in scn["members"]]
    cls = {m[0]: m[1] for m in scn["members"][0]}
    for name in byname[0]:
        for s in byname[0][name]:
            vals = [byname[j][name][s] for j in range(n)]
            v0 = vals[0]
            import torch
            if isinstance(v0, torch.Tensor):
                if len({v.ndim for v in vals}) > 1:
                    f["ndim_disagree"].append([cls[name], s])
                if len({v.dtype for v in vals}) > 1:
                    f["dtype_disagree"].append([cls[name], s, sorted({str(v.dtype).replace("torch.", "") for v in vals})])
            elif isinstance(v0, (list, dict)):
                lens = [len(v) for v in vals]
                if max(lens) == 0 and isinstance(v0, list):
                    f["list_all_empty"].append([cls[name], s])
                if min(lens) == 0 and max(lens) > 0:
                    rk = max(j for j in range(n) if lens[j] > 0)
                    if g[rk] != rk:
                        f["bcast_root_shifted"].append([cls[name], s])
                if isinstance(v0, dict) and any(sorted(v) != sorted(v0) for v in vals):
                    f["dict_unequal_keys"].append([cls[name], s])
    return f


def classify(scn, iout):
    """toolkit result vs the local merge; [] when C02 holds on this scenario"""
    g, n = scn["group"], len(scn["group"])
    outcomes = [iout[r] for r in g]
    feat = None
    bad = []
    for j in range(n):
        try:
            want = ("ok", su.local_merge(scn, j))
        except Exception as ex:
            want = ("exc", type(ex).__name__)
        got = outcomes[j]
        if got[:2] == want[:2]:
            continue
        feat = feat or features(scn)
        fid = None
        if got[0] == "mismatch" and not su.detect_variant()["D10"] and feat["ndim_disagree"] and all(c in su.NDIM_BY_FIRST_UPDATE for c, _ in feat["ndim_disagree"]):
            fid = "C02-ndim-first-update"
        elif (got[0] == "mismatch" and not su.detect_variant()["DT"] and feat["dtype_disagree"] and (not feat["ndim_disagree"] or su.detect_variant()["D10"])
              and all(c in su.DTYPE_FOLLOWS_DATA and dts == ["float32", "float64"] for c, _, dts in feat["dtype_disagree"])):
            # Props/C02.v sync_refuted_dtype: a tensor state is float32 on one member and float64 on another, on a tree
            # without the dtype negotiation (fixes/sync-dtype.patch; with it: sync_equals_local_merge_any_dtype)
            fid = "C02-state-dtype-follows-data"
        elif got[0] == "exc" and got[1] in ("TypeError", "ValueError") and feat["bcast_root_shifted"] and not su.detect_variant()["D9"]:
            fid = "C02-subgroup-bcast-root"
        elif got[0] in ("ok", "exc") and feat["dict_unequal_keys"] and (not feat["ndim_disagree"] or su.detect_variant()["D10"]) and (not feat["bcast_root_shifted"] or su.detect_variant()["D9"]):
            fid = "C02-dict-unequal-keys"
        bad.append((fid, f"group rank {j}: toolkit.{scn['entry']} gave {got!r:.220}; local merge gives {want!r:.220}"))
        break
    return bad


def cat_spec(vals):
    return {"dtype": "float32", "shape": [len(vals)], "data": list(vals)}


WITNESSES = {
    "sync_refuted_ndim": ("C02-ndim-first-update",
        {"kind": "toolkit", "W": 2, "group": [0, 1], "dst": None, "entry": "sync_and_compute",
         "members": [[["metric", "MeanSquaredErrorRaw", []]],
                     [["metric", "MeanSquaredErrorRaw",
                       [[{"dtype": "float32", "shape": [2, 2], "data": [[1, 2], [3, 4]]},
                         {"dtype": "float32", "shape": [2, 2], "data": [[0, 0], [0, 0]]}]]]]]}),
    # Max() never updated (float32 -inf) next to Max() updated with float64 data: Props/C02.v sync_refuted_dtype
    "sync_refuted_dtype": ("C02-state-dtype-follows-data",
        {"kind": "toolkit", "W": 2, "group": [0, 1], "dst": None, "entry": "sync_and_compute",
         "members": [[["metric", "Max", []]],
                     [["metric", "Max", [[{"dtype": "float64", "shape": [1], "data": [1]}]]]]]}),
    "sync_refuted_subgroup_root": ("C02-subgroup-bcast-root",
        {"kind": "toolkit", "W": 3, "group": [1, 2], "dst": None, "entry": "sync_and_compute",
         "members": [[["metric", "Cat", []]], [["metric", "Cat", [[cat_spec([5, 6])]]]]]}),
}


_X22 = {"dtype": "float32", "shape": [2, 2], "data": [[1, 2], [3, 4]]}
_Z22 = {"dtype": "float32", "shape": [2, 2], "data": [[0, 0], [0, 0]]}
# D10 witnesses for the real-gloo launches (they join a launch only when the checking transport reports
# no mismatch, i.e. on a tree where D10 is repaired: on gloo a mismatch is an abort)
GLOO_WITNESSES = [
    {"kind": "toolkit", "W": W, "group": list(range(W)), "dst": None, "entry": "sync_and_compute",
     "members": [[["metric", ck, []]]] + [[["metric", ck, [[_X22, _Z22]] if ck != "Covariance" else [[_X22]]]]] * (W - 1)}
    for W in (2, 3, 4) for ck in ("MeanSquaredErrorRaw", "R2ScoreRaw", "Covariance")]
_X22D = {"dtype": "float64", "shape": [2, 2], "data": [[1, 2], [3, 4]]}
_Z22D = {"dtype": "float64", "shape": [2, 2], "data": [[0, 0], [0, 1]]}
# C02-state-dtype-follows-data witnesses (rank 0 never updated, the others updated with float64 data): they join a
# real-gloo launch only on a tree with the dtype negotiation (fixes/sync-dtype.patch)
GLOO_WITNESSES += [
    {"kind": "toolkit", "W": W, "group": list(range(W)), "dst": None, "entry": "sync_and_compute",
     "members": [[["metric", ck, []]]] + [[["metric", ck, upd]]] * (W - 1)}
    for W in (2, 3, 4) for ck, upd in (("Max", [[{"dtype": "float64", "shape": [2], "data": [1, 5]}]]),
                                       ("MeanSquaredErrorRaw", [[_X22D, _Z22D]]), ("Covariance", [[_X22D]]))]


def tie_stream(ctx, count):
    s = ctx.stream("toolkit: trace+result tie (checking transport) and result == local merge")
    scns = [gen_toolkit(ctx.rng) for _ in range(count)]
    cases = [su.model_case(x) for x in scns]
    outs = run_model(cases)
    first_bad = None
    reported = set()
    for k, (scn, mout) in enumerate(zip(scns, outs)):
        delays = {r: ctx.rng.choice([0, 0.0002, 0.0006]) for r in scn["group"]} if k % 7 == 3 else None
        iout, itr = su.run_sim(scn, delays=delays)
        n = len(scn["group"])
        s.traces += n
        nupd = [sum(len(m[2]) for m in mem) for mem in scn["members"]]
        s.case(repr(su.jsonable(scn)), n >= 2 and max(nupd) > 0, sample={"W": scn["W"], "group": scn["group"], "entry": scn["entry"],
                                                                      "classes": [m[1] for m in scn["members"][0]]})
        s.count(f"W={scn['W']}")
        s.count(f"n={n}")
        s.count("entry=" + scn["entry"])
        s.count("group=" + ("world" if scn["group"] == list(range(scn["W"])) else ("shifted" if su.shifted(scn["group"]) else "prefix")))
        for m in scn["members"][0]:
            s.count("class=" + m[1])
        if 0 in nupd and max(nupd) > 0:
            s.count("some-rank-without-data")
        s.count("data-dtypes=" + scn.get("dtypes", "f32"))
        d = su.compare_toolkit(scn, mout, iout, itr)
        if d and first_bad is None:
            first_bad = {"scenario": su.jsonable(scn), "disagreement": d}
            s.mismatches.append(first_bad)
        for fid, desc in classify(scn, iout):
            s.count("property-violated:" + (fid or "UNEXPLAINED"))
            if fid in reported:
                continue
            reported.add(fid)
            ctx.violation("failing-input", "toolkit." + scn["entry"],
                          {"check": "sync-equals-local-merge", "scenario": su.jsonable(scn), "observed": desc,
                           "broken": "property:C02-sync-equals-local-merge"}, finding_id=fid)
    nchk, dis = crosscheck_in_coq(cases, outs, ctx.prop + "tk", limit=ctx.n(30, 150))
    ctx.oblige("tie:extraction-vs-vm_compute:sync_toolkit", dis == 0,
               detail=f"{dis} of {nchk} sampled cases differ between extracted OCaml and in-Coq vm_compute")
    ctx.oblige("tie:trace:sync_toolkit", first_bad is None, detail=repr(core.canon(first_bad))[:1500] if first_bad else "")
    if first_bad:
        ctx.violation("failing-input", "sync_toolkit", {"check": "model-vs-impl", **first_bad, "broken": "tie:trace:sync_toolkit"})


def uninitialised_stream(ctx):
    """without an initialised process group the metric itself is returned (world1_identity)"""
    from torcheval.metrics import toolkit
    s = ctx.stream("uninitialised process group: identity")
    ok = True
    for k in range(ctx.n(20, 100)):
        scn = gen_toolkit(ctx.rng)
        ms = [(m[0], su.build_metric(m)) for m in scn["members"][0]]
        coll = scn["entry"].endswith("_collection")
        arg = dict(ms) if coll else ms[0][1]
        fn = toolkit.get_synced_metric_collection if coll else toolkit.get_synced_metric
        res = fn(arg)
        s.case(repr(su.jsonable(scn["members"][0])), True)
        # initialised, but a world / group of one: the very same object comes back as well
        from .. import simdist
        W1 = ctx.rng.choice([1, 3])
        me = ctx.rng.randrange(W1)
        with simdist.Sim(W1) as sim:
            out1, _ = sim.run(lambda r: fn(arg, None if W1 == 1 else simdist.SimGroup([r])) is arg, ranks=[me])
        if out1[me] != ("ok", True):
            res = None
        if res is not arg:
            ok = False
            ctx.violation("failing-input", "toolkit.get_synced_metric", {"check": "uninitialised-identity",
                          "scenario": su.jsonable(scn), "broken": "property:C02-world1-identity"})
            break
    ctx.oblige("property:C02-world1-identity (uninitialised)", ok)


def schema_stream(ctx):
    """Tie of Models/SyncSchema.v (reach_schema_agree*): the kinds / ndim / DTYPE of the registered states of
    the real classes after generated histories equal the model's schema run on the (shape, dtype) of the update
    data.  Data comes in every dtype of su.UPDATE_DTYPES (float32 / float64 / integer / bool); an update() that
    raises is part of the history (the model says: the schema stays)."""
    import torch
    s = ctx.stream("state-schema correspondence incl. dtypes (per-class reach_schema_agree tie)")

    def kind(v):
        if isinstance(v, torch.Tensor):
            return T("t", v.ndim, su.DTYPES[str(v.dtype).replace("torch.", "")])
        return T("l") if isinstance(v, list) else T("d") if isinstance(v, dict) else T("i") if isinstance(v, int) else T("f")

    def shape_dtype_of(args):
        for a in args:
            if su.is_tspec(a):
                return [list(a["shape"]), su.DTYPES[a["dtype"]]]
        return [[], 0]
    cases, meta = [], []
    for ck in SINGLE:
        gen = su.classes()[ck][1]
        dts = su.UPDATE_DTYPES[ck]
        for _ in range(ctx.n(30, 150)):
            variant = {"Cat": "float32", "DummySumListStateMetric": 1}.get(ck)
            mode = ctx.rng.choice(["f32", "uniform", "mixed", "mixed"])
            d0 = ctx.rng.choice(dts)
            hist = [gen(ctx.rng, variant, "float32" if mode == "f32" else d0 if mode == "uniform" else ctx.rng.choice(dts))
                    for _ in range(ctx.rng.choice([0, 1, 1, 2, 3, 4]))]
            if ck in su.NDIM_BY_FIRST_UPDATE and ck == "Covariance" and ctx.rng.random() < 0.3:
                hist = [[su.gen_tensor(ctx.rng, ctx.rng.choice(["float32", "float64"]), 2, [0, 2])]] + hist       # an empty first batch
            cases.append(("sync_schema", [T(ck), [shape_dtype_of(a) for a in hist]]))
            meta.append((ck, hist))
    outs = run_model(cases)
    bad = {}
    for (ck, hist), mout in zip(meta, outs):
        raised = 0
        try:
            m = su.classes()[ck][0]()
            for args in hist:
                try:
                    m.update(*[su.mk_tensor(a) if su.is_tspec(a) else a for a in args])
                except Exception:  # noqa   a rejected update is part of the history
                    raised += 1
            sd = m.state_dict()
            got = [[T(n), kind(sd[n])] for n in sorted(sd)]
        except Exception as ex:
            got = T("exc:" + type(ex).__name__)
        dset = sorted({su.CODE_DT[shape_dtype_of(a)[1]] for a in hist})
        s.case((ck, repr(su.jsonable(hist))), len(hist) >= 1, sample={"class": ck, "dtypes": dset})
        s.count("class=" + ck)
        s.count("dtypes=" + ("none" if not dset else dset[0] if len(dset) == 1 else "mixed"))
        if raised:
            s.count("history-with-rejected-update")
        if isinstance(got, list) and any(isinstance(k, T) and k.tag == "t" and k.args[1] != 0 for _, k in got) and ck in su.DTYPE_FOLLOWS_DATA | {"MeanSquaredError"}:
            s.count("dtype-following-state-not-float32")
        if got != mout and ck not in bad:
            bad[ck] = {"class": ck, "history": su.jsonable(hist), "model": repr(mout)[:300], "impl": repr(got)[:300]}
    for ck in SINGLE:
        ctx.oblige(f"tie:schema:{ck}", ck not in bad, detail=repr(bad.get(ck, ""))[:800])
        if ck in bad:
            s.mismatches.append(bad[ck])
            ctx.violation("failing-input", ck, {"check": "schema-model-vs-impl", **bad[ck], "broken": f"tie:schema:{ck}"})
    # torch.promote_types vs Models/SyncSchema.v promote: exhaustive on the six dtype codes
    names = sorted(su.DTYPES, key=su.DTYPES.get)
    pc = [("sync_promote", [su.DTYPES[a], su.DTYPES[b]]) for a in names for b in names]
    po = run_model(pc)
    pbad = [(a, b) for (a, b), o in zip([(a, b) for a in names for b in names], po)
            if o != su.DTYPES[str(torch.promote_types(su.TORCH_DT[a], su.TORCH_DT[b])).replace("torch.", "")]]
    for a in names:
        for b in names:
            s.case(("promote", a, b), a != b)
    ctx.oblige("tie:schema:promote_types (exhaustive, 36 pairs)", not pbad, detail=repr(pbad)[:400])
    if pbad:
        ctx.violation("failing-input", "promote_types", {"check": "promote-model-vs-torch", "pairs": pbad, "broken": "tie:schema:promote_types (exhaustive, 36 pairs)"})


def witness_stream(ctx):
    s = ctx.stream("refuted-witness-replay")
    cases = [su.model_case(scn) for _, scn in WITNESSES.values()]
    outs = run_model(cases)
    for (thm, (fid, scn)), mout in zip(WITNESSES.items(), outs):
        iout, itr = su.run_sim(scn)
        s.traces += len(scn["group"])
        s.case(thm, True, sample={"theorem": thm})
        d = su.compare_toolkit(scn, mout, iout, itr)
        ctx.oblige(f"tie:witness:{thm}", d is None, detail=d or "")
        if d:
            ctx.violation("failing-input", thm, {"check": "witness-model-vs-impl", "scenario": su.jsonable(scn),
                                                 "disagreement": d, "broken": f"tie:witness:{thm}"})
        bad = classify(scn, iout)
        s.count("still-fails" if bad else "no-longer-fails")
        if not bad:
            ctx.notes.append(f"stale finding {fid}: the witness of {thm} no longer fails on this tree (repaired); "
                             f"the theorem remains a statement about the V_code variant of the model")
        for f2, desc in bad[:1]:
            ctx.violation("failing-input", thm, {"check": "sync-equals-local-merge", "scenario": su.jsonable(scn),
                                                 "observed": desc, "theorem": thm,
                                                 "broken": "property:C02-sync-equals-local-merge"}, finding_id=f2)


def run(ctx):
    su.quiet()
    ctx.notes.append(su.variant_note())
    ctx.oblige("tie:variant-decided (" + su.variant_note() + ")", True)
    uninitialised_stream(ctx)
    schema_stream(ctx)
    tie_stream(ctx, ctx.n(700, 6000))
    witness_stream(ctx)
    from .. import gloo_runner
    gloo_runner.gloo_stream(ctx, [lambda rng, W: gen_toolkit(rng, only_W=W)], toolkit=True, extra=GLOO_WITNESSES)
