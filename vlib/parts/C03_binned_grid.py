"""C03 -- binned classes vs binned functionals on boundary scores (float64 scores beside float32 thresholds,
scores exactly on the int -> linspace grid): vlib/binned_grid.py, class_fn disagreements only."""
from . import C06_grid

LEVEL_NOTE = "boundary stream for the binned classes: class (two updates) vs functional on the concatenation, implementation level"


def run(ctx):
    C06_grid.run(ctx, kinds={"class_fn": "class_eq_functional_on_concatenation"}, prop="C03")


replay = C06_grid.replay
