"""C02 -- toolkit sync of EVERY catalogue class on the checking transport equals the local merge in rank order
(implementation level; instantiates the protocol theorems, which are generic in the merge function, with the real classes)."""
from .. import syncdirect

LEVEL_NOTE = ("every catalogue class: toolkit.sync_and_compute / get_synced_metric on the checking transport (W = 2..4, empty ranks, "
              "long histories) vs clone(local).merge_state(others) with the real class")


def run(ctx):
    syncdirect.stream(ctx, {"c02"}, "toolkit sync vs local merge, every class (implementation only)", ctx.n(6, 60))


replay = syncdirect.replay
