"""C18 -- shape contract: inconsistent sample counts are rejected, never broadcast.

T-tr: tools/tr_shapes.py regenerates coq/Generated/ShapeChecks.v (the theorems of Props/C18.v are about it).
T-co: (a) translation tie -- every invocation of a real check function observed below is replayed through the
          extracted GENERATED ShapeLang term; its three-valued verdict (accept / own raise / Python raises) must
          equal what the real function did;
      (b) systematic perturbation, exhaustive over a finite set -- from valid base calls per metric (functional and
          class update) every tensor argument x every dimension x {drop, add leading 1, add trailing 1, add leading 2,
          resize to 1, -1, +1, 0}, the same operations applied jointly to all tensor arguments of equal shape, plus the
          alternative documented layouts (separate base rows): the call's raise / return must equal the verdict of
          the hand-written Coq contracts (extracted `shape_contract`) of the check functions it reaches.
"""
from __future__ import annotations
import json
import torch

from .. import core, model
from .. import shapes_lib as SL

GENERATORS = ["tr_shapes.py"]
LEVEL_NOTE = ("C18: per-check-function theorems over the generated ShapeLang terms (value conditions only through named opaque atoms); "
              "the glue between check functions and entry points, and the translator, are tied by the exhaustive perturbation "
              "stream (finite set, not all shapes); contracts are hand-written from docstrings (trusted reading)")


def _call(kind, row, targs, rec):
    """Run one call; returns (outcome, exception text, invocations)."""
    rec.take()
    try:
        with torch.no_grad():
            if kind == "fn":
                f = SL.resolve_fn(row["fn"])
                res = f(**targs, **row["kw"])
            else:
                cls = SL.resolve_cls(row["cls"])
                r2 = dict(row)
                r2["t"] = targs
                ctor, upd = SL.split_class_args(cls, r2)
                m = cls(**ctor)
                m.update(**upd)
                res = None
        out, exc = "returns", ""
        if kind == "fn":
            out_desc = res
    except Exception as ex:        # noqa: BLE001
        out, exc = "raises", f"{type(ex).__name__}: {str(ex)[:160]}"
    return out, exc, rec.take()


def short(name: str) -> str:
    return name.rpartition(".")[2]


def enumerate_calls(rows, only_base=False):
    """(kind, row, label, tensor-args) for base calls and every perturbation."""
    for ri, row in enumerate(rows):
        for kind in ("fn", "cls"):
            if row.get(kind) is None:
                continue
            base = row["t"]
            yield kind, ri, ("base", "", ""), dict(base)
            if only_base:
                continue
            for a, t in base.items():
                for tag, new in SL.shape_perturbations(list(t.shape), weight=SL.is_weight_arg(a)):
                    targs = dict(base)
                    targs[a] = SL.reshape_cyclic(t, new)
                    yield kind, ri, ("single", a, tag), targs
            # joint: the same operation on every tensor argument that has the shape of the first one
            first = next(iter(base.values()))
            group = [a for a, t in base.items() if list(t.shape) == list(first.shape)]
            if len(group) > 1:
                for tag, new in SL.shape_perturbations(list(first.shape)):
                    targs = dict(base)
                    for a in group:
                        targs[a] = SL.reshape_cyclic(base[a], new)
                    yield kind, ri, ("joint", "+".join(group), tag), targs


_SIG_CACHE: dict = {}


def _entry_defaults(kind, row) -> dict:
    """Default values of the entry point's own parameters (functional, or class ctor + update)."""
    key = (kind, row[kind])
    if key not in _SIG_CACHE:
        import inspect
        d = {}
        if kind == "fn":
            sigs = [inspect.signature(SL.resolve_fn(row["fn"]))]
        else:
            c = SL.resolve_cls(row["cls"])
            sigs = [inspect.signature(c.__init__), inspect.signature(c.update)]
        for sg in sigs:
            for n, prm in sg.parameters.items():
                if prm.default is not inspect.Parameter.empty:
                    d[n] = prm.default
        _SIG_CACHE[key] = d
    return _SIG_CACHE[key]


def synthesize_args(rec, fname, kind, row, targs):
    """Arguments an EXPECTED check function would have received, resolved by parameter name from the call itself
    (tensor arguments, keyword / constructor arguments, the entry point's defaults, the check's own defaults).
    None when a parameter cannot be resolved."""
    import inspect
    m = rec.meta[fname]
    out = {}
    own = rec.defaults.get(fname, {})
    ed = _entry_defaults(kind, row)
    for p in m["params"]:
        if p in targs:
            out[p] = targs[p]
        elif p in row["kw"]:
            out[p] = row["kw"][p]
        elif p in row["ckw"]:
            out[p] = row["ckw"][p]
        elif p in ed:
            out[p] = ed[p]
        elif p in own:
            out[p] = own[p]
        else:
            return None
    if fname.endswith("param_check") and "threshold" in out and not isinstance(out["threshold"], torch.Tensor):
        return None
    return out


def _shape_cond(s, cond) -> bool:
    if s is None:
        return False
    if "ndim" in cond and len(s) != cond["ndim"]:
        return False
    if "ndim_min" in cond and len(s) < cond["ndim_min"]:
        return False
    if "dim0" in cond and (not s or s[0] != cond["dim0"]):
        return False
    if "dim0_not" in cond and (not s or s[0] == cond["dim0_not"]):
        return False
    return True


def match_finding(ctx, case):
    """Attribute a violation to a known finding only if it matches the entry's precise pattern:
    target, direction, the exact set of rejecting contracts, and one of the listed shape/kwarg alternatives."""
    for f in core.load_findings():
        if f.get("property") != ctx.prop or f.get("status") != "known":
            continue
        p = f.get("pattern", {})
        if case["target"] not in p.get("targets", []) or p.get("direction") != case["direction"]:
            continue
        one_of = p.get("rejecting_checks_one_of")
        if one_of is not None:
            if len(case["rejecting_checks"]) != 1 or case["rejecting_checks"][0] not in one_of:
                continue
        elif sorted(case["rejecting_checks"]) != sorted(p.get("rejecting_checks", [])):
            continue
        for alt in p.get("any_of", [{}]):
            ok = all(_shape_cond(case["shapes"].get(a), cond) for a, cond in alt.get("shapes", {}).items())
            for k, v in alt.get("kw", {}).items():
                if case["kw"].get(k, p.get("kw_defaults", {}).get(k)) != v:
                    ok = False
            if ok:
                return f["id"]
    return None


def refuted_now_note(ctx):
    """Which `check_iff_contract_<f>_refuted` dichotomies are refutations on THIS tree (Props/C18.v `refuted_now`)."""
    import re
    core.TMP.mkdir(parents=True, exist_ok=True)
    f = core.TMP / "RefutedNow.v"
    f.write_text("From Coq Require Import String List.\nFrom TE Require Import Props.C18.\nOpen Scope string_scope.\nEval vm_compute in C18.refuted_now.\n")
    r = core.sh(f"timeout 120 coqc -Q {core.COQ} TE {f}", cwd=core.TMP, timeout=150)
    pairs = re.findall(r'"(_[a-z0-9_]+)",\s*(true|false)', r.stdout)
    if pairs:
        ctx.notes.append("check-level non-equivalences on this tree: " + ", ".join(n for n, b in pairs if b == "true")
                         + " | repaired (equivalence proved instead): " + (", ".join(n for n, b in pairs if b == "false") or "none"))


def run(ctx):
    rec = SL.Recorder()
    rec.install()
    meta = rec.meta
    ctx.oblige("tie:translation:all-check-functions-translated", all(m["translated"] for m in meta.values()),
               detail=", ".join(n for n, m in meta.items() if not m["translated"]))
    refuted_now_note(ctx)
    # The hand-written contracts refer to the value atoms of a check by their SOURCE TEXT.  When the atoms of a generated check
    # are no longer the reviewed ones (an expression was edited, hoisted into a local, split ...) the contract cannot be evaluated
    # on real arguments any more: that is a broken tie of that function (no verdicts are drawn from its contract), not a failing input.
    import json as _json
    pins = _json.loads((core.ROOT / "tools" / "shape_atoms_pins.json").read_text())
    atoms_changed = set()
    for fn, m in meta.items():
        now = [a["name"] for a in m.get("atoms", [])]
        ok = fn in pins and sorted(now) == sorted(pins[fn])
        ctx.oblige(f"tie:contract-atoms:{fn}", ok,
                   detail="" if ok else f"value atoms of the generated check {now} differ from the reviewed ones {pins.get(fn)}: the contract "
                                        "theorem of this check function no longer applies to the tree (run tools/tr_shapes.py and review)")
        if not ok:
            atoms_changed.add(fn)
    rows = SL.option_variants(SL.base_calls())
    s = ctx.stream("shape-perturbation (functional + class update, every option value) vs Coq contracts")
    s.exhaustive = True
    s.note = ("finite perturbation set of DESIGN 4/C18 enumerated completely for every documented layout and, one option at a "
              "time, every value of the code-path options (optimization, average, from_logits, multioutput, ...); no sampling")
    st = ctx.stream("translation tie: real check function vs generated ShapeLang term")
    st.exhaustive = True

    # ---- pass 1: base calls.  Which check functions guard a target (union over ALL its layouts / option values) ----
    expected: dict[tuple, list[str]] = {}
    base_ok = {}
    for kind, ri, label, targs in enumerate_calls(rows, only_base=True):
        row = rows[ri]
        out, exc, invs = _call(kind, row, targs, rec)
        base_ok[(kind, ri)] = (out == "returns", exc)
        if out == "returns":
            e = expected.setdefault((kind, short(row[kind])), [])
            for inv in invs:
                if inv["fn"] not in e:
                    e.append(inv["fn"])
    skipped = 0

    # ---- pass 2: every perturbation -----------------------------------------------------------
    calls = []
    model_cases = []

    def add_case(c, fname, args, outcome, synthesized):
        enc = SL.encode_invocation(meta[fname], fname, args)
        c["invs"].append({"fn": fname, "outcome": outcome, "idx": len(model_cases), "synthesized": synthesized,
                          "args": {k: SL.describe(v) for k, v in args.items()}})
        model_cases.append(("shape_contract", enc))
        model_cases.append(("shape_check", enc))

    for kind, ri, label, targs in enumerate_calls(rows):
        row = rows[ri]
        if not base_ok[(kind, ri)][0] and row["variant"]:
            if label[0] == "base":
                skipped += 1
            continue                      # option value not applicable to this layout / entry point
        out, exc, invs = _call(kind, row, targs, rec)
        c = {"kind": kind, "row": ri, "label": label, "outcome": out, "exc": exc, "invs": [],
             "shapes": {a: list(t.shape) for a, t in targs.items()}, "targs": targs, "unresolved": []}
        reached = set()
        for inv in invs:
            if inv["args"] is None:
                continue
            reached.add(inv["fn"])
            add_case(c, inv["fn"], inv["args"], inv["outcome"], False)
        if out == "returns":
            # a check function that guards this target on another code path but was NOT reached by this call:
            # judge the call by that check's contract on the arguments it would have received
            for fname in expected.get((kind, short(row[kind])), []):
                if fname in reached:
                    continue
                args = synthesize_args(rec, fname, kind, row, targs)
                if args is None:
                    c["unresolved"].append(fname)
                else:
                    add_case(c, fname, args, None, True)
        calls.append(c)
    ctx.notes.append(f"option-variant rows not applicable (base call rejected, skipped): {skipped}; rows: {len(rows)}")
    outs = model.run_model(model_cases)
    chk, bad = model.crosscheck_in_coq(model_cases, outs, "C18", limit=ctx.n(60, 200))
    ctx.oblige("tie:extraction:shape_contract/shape_check (in-Coq vm_compute vs extracted OCaml)", bad == 0,
               detail=f"{bad} of {chk} sampled cases disagree")

    # ---- (a) translation tie ---------------------------------------------------------------
    want = {"ok": 0, "raise": 1, "pyerr": 2}
    tr_bad: dict[str, dict] = {}
    for c in calls:
        for inv in c["invs"]:
            if inv["synthesized"]:
                continue
            mv = outs[inv["idx"] + 1]
            st.case((inv["fn"], repr(inv["args"])), inv["outcome"] != "ok",
                    sample={"check": inv["fn"], "args": inv["args"], "real": inv["outcome"], "model": mv})
            st.count("check:" + inv["fn"])
            st.count("outcome:" + inv["outcome"])
            if mv != want[inv["outcome"]]:
                st.mismatches.append({"check": inv["fn"]})
                tr_bad.setdefault(inv["fn"], {"check": inv["fn"], "args": inv["args"], "real": inv["outcome"],
                                              "model_verdict": repr(mv)})
    seen_checks = {inv["fn"] for c in calls for inv in c["invs"] if not inv["synthesized"]}
    for fn in sorted(seen_checks):
        ctx.oblige(f"tie:translation:{fn}", fn not in tr_bad, detail=json.dumps(tr_bad.get(fn, {}))[:400])
        if fn in tr_bad:
            ctx.violation("failing-input", fn, {"check": "generated ShapeLang term vs real check function", **tr_bad[fn],
                                                "broken": f"tie:translation:{fn}"})
    ctx.notes.append(f"check functions exercised by the perturbation stream: {len(seen_checks)} of {len(meta)}")

    # ---- (b) contract verdict vs implementation ------------------------------------------------
    reported = set()
    summary = []
    for c in calls:
        row = rows[c["row"]]
        target = short(row[c["kind"]])
        key = (c["kind"], c["row"])
        exp = expected.get((c["kind"], target), [])
        if c["label"][0] == "base":
            ok = c["outcome"] == "returns"
            name = f"base-call:{target}:{row['tag'] or 'default'}:{c['kind']}"
            ctx.oblige(name, ok, detail=c["exc"])
            if not ok:
                ctx.violation("failing-input", target, {"check": "valid base call must be accepted", "target": target,
                                                        "kind": c["kind"], "kw": row["kw"], "shapes": c["shapes"], "observed": c["exc"],
                                                        "broken": name})
            missing = [f for f in exp if f not in {i["fn"] for i in c["invs"] if not i["synthesized"]}]
            if missing:
                s.count("base-call-skips-a-guarding-check")
                ctx.notes.append(f"{target} [{row['tag']}] ({c['kind']}) does not reach {missing} which guards its other code paths; "
                                 "judged by that contract on name-resolved arguments")
        if any(inv["fn"] in atoms_changed for inv in c["invs"]):
            s.count("not-judged:contract-atoms-changed")
            continue
        verdicts = [(inv["fn"], outs[inv["idx"]]) for inv in c["invs"]]
        rejecting = [fn for fn, cv in verdicts if cv is False]
        nocontract = [fn for fn, cv in verdicts if not isinstance(cv, bool)]
        rejecting += ["py:weight-shape:" + w for w in SL.weight_contract(c["targs"])]
        real = [i["fn"] for i in c["invs"] if not i["synthesized"]]
        covered = {i["fn"] for i in c["invs"]}
        decided = bool(rejecting) or (all(f in covered for f in exp) and bool(verdicts)) or bool(row.get("pycontract"))
        verdict = "reject" if rejecting else ("accept" if decided else "undecided")
        nontrivial = c["label"][0] != "base"
        s.case((target, c["kind"], row["tag"], c["label"], repr(c["shapes"])), nontrivial,
               sample={"target": target, "kind": c["kind"], "options": row["kw"], "perturbation": c["label"], "shapes": c["shapes"],
                       "impl": c["outcome"], "contract": verdict})
        s.count("target:" + target)
        s.count(f"{c['label'][0]}:{c['outcome']}/{verdict}")
        if any(i["synthesized"] for i in c["invs"]):
            s.count("judged-by-unreached-guard")
        for fn in nocontract:
            ctx.oblige(f"contract-missing:{fn}", False, detail="check function without hand-written contract")
        # A perturbed call that RAISES although the shape contracts accept it was rejected downstream of the shape checks
        # (value / dtype reasons introduced by the perturbation, or inline validation in glue code): raising is the safe
        # behaviour and is not judged here; the completeness direction is judged on the valid base rows (all documented
        # layouts) above.  The dangerous direction -- a value is RETURNED although the contract rejects -- is judged always.
        agree = c["outcome"] == "raises" or verdict != "reject" or c["label"][0] == "base"
        summary.append({"target": target, "kind": c["kind"], "tag": row["tag"], "label": c["label"], "shapes": c["shapes"],
                        "impl": c["outcome"], "exc": c["exc"], "contract": verdict, "rejecting": rejecting})
        if agree:
            continue
        direction = "returns-though-contract-rejects"
        case = {"target": target, "kind": c["kind"], "direction": direction, "rejecting_checks": rejecting,
                "shapes": c["shapes"], "kw": {**row["kw"], **row["ckw"]}}
        fid = match_finding(ctx, case)
        s.mismatches.append({"target": target, "direction": direction})
        rkey = (target, direction, c["label"][1], fid)
        if rkey in reported:
            continue
        reported.add(rkey)
        ctx.violation("failing-input", target,
                      {"check": "C18 perturbation: implementation raise/return vs Coq shape contract", "target": target,
                       "entry": "functional" if c["kind"] == "fn" else "class.update", "kw": {**row["kw"], **row["ckw"]},
                       "perturbation": {"mode": c["label"][0], "argument": c["label"][1], "operation": c["label"][2]},
                       "shapes": c["shapes"], "tensors": {a: t for a, t in c["targs"].items()},
                       "implementation": c["outcome"] + (": " + c["exc"] if c["exc"] else ""),
                       "contract_verdict": verdict, "rejecting_contracts": rejecting,
                       "guards_not_reached_by_this_call": [i["fn"] for i in c["invs"] if i["synthesized"]],
                       "direction": direction, "broken": f"shape-contract:{target}"},
                      finding_id=fid)
    (core.OUT / "C18").mkdir(parents=True, exist_ok=True)
    (core.OUT / "C18" / "perturbation-summary.json").write_text(json.dumps(core.canon(summary), indent=0))
