"""C18 -- shape contract: inconsistent sample counts are rejected, never broadcast.

T-tr: tools/tr_shapes.py regenerates coq/Generated/ShapeChecks.v (the theorems of Props/C18.v are about it).
T-co: (a) translation tie -- every invocation of a real check function observed below is replayed through the
          extracted GENERATED ShapeLang term; its three-valued verdict (accept / own raise / Python raises) must
          equal what the real function did;
      (b) systematic perturbation, exhaustive over a finite set -- from valid base calls per metric (functional and
          class update) every tensor argument x every dimension x {drop, add leading 1, add trailing 1, add leading 2,
          resize to 1, -1, +1, 0}, the same operations applied jointly to all tensor arguments of equal shape, plus the
          alternative documented layouts (separate base rows): the call's raise / return must equal the verdict of
          the hand-written Coq contracts (extracted `shape_contract`) of the check functions it reaches.
"""
from __future__ import annotations
import json
import torch

from .. import core, model
from .. import shapes_lib as SL

GENERATORS = ["tr_shapes.py"]
LEVEL_NOTE = ("C18: per-check-function theorems over the generated ShapeLang terms (value conditions only through named opaque atoms); "
              "the glue between check functions and entry points, and the translator, are tied by the exhaustive perturbation "
              "stream (finite set, not all shapes); contracts are hand-written from docstrings (trusted reading)")


def _call(kind, row, targs, rec):
    """Run one call; returns (outcome, exception text, invocations)."""
    rec.take()
    try:
        with torch.no_grad():
            if kind == "fn":
                f = SL.resolve_fn(row["fn"])
                res = f(**targs, **row["kw"])
            else:
                cls = SL.resolve_cls(row["cls"])
                r2 = dict(row)
                r2["t"] = targs
                ctor, upd = SL.split_class_args(cls, r2)
                m = cls(**ctor)
                m.update(**upd)
                res = None
        out, exc = "returns", ""
        if kind == "fn":
            out_desc = res
    except Exception as ex:        # noqa: BLE001
        out, exc = "raises", f"{type(ex).__name__}: {str(ex)[:160]}"
    return out, exc, rec.take()


def _pycontract(name, targs):
    if name == "weight_like_input":
        w, i = targs.get("weight"), targs.get("input")
        return isinstance(i, torch.Tensor) and (not isinstance(w, torch.Tensor) or list(w.shape) == list(i.shape))
    raise KeyError(name)


def enumerate_calls(rows):
    """(kind, row, label, tensor-args) for base calls and every perturbation."""
    for ri, row in enumerate(rows):
        for kind in ("fn", "cls"):
            if row.get(kind) is None:
                continue
            base = row["t"]
            yield kind, ri, ("base", "", ""), dict(base)
            for a, t in base.items():
                for tag, new in SL.shape_perturbations(list(t.shape)):
                    targs = dict(base)
                    targs[a] = SL.reshape_cyclic(t, new)
                    yield kind, ri, ("single", a, tag), targs
            # joint: the same operation on every tensor argument that has the shape of the first one
            first = next(iter(base.values()))
            group = [a for a, t in base.items() if list(t.shape) == list(first.shape)]
            if len(group) > 1:
                for tag, new in SL.shape_perturbations(list(first.shape)):
                    targs = dict(base)
                    for a in group:
                        targs[a] = SL.reshape_cyclic(base[a], new)
                    yield kind, ri, ("joint", "+".join(group), tag), targs


def _shape_cond(s, cond) -> bool:
    if s is None:
        return False
    if "ndim" in cond and len(s) != cond["ndim"]:
        return False
    if "ndim_min" in cond and len(s) < cond["ndim_min"]:
        return False
    if "dim0" in cond and (not s or s[0] != cond["dim0"]):
        return False
    if "dim0_not" in cond and (not s or s[0] == cond["dim0_not"]):
        return False
    return True


def match_finding(ctx, case):
    """Attribute a violation to a known finding only if it matches the entry's precise pattern:
    target, direction, the exact set of rejecting contracts, and one of the listed shape/kwarg alternatives."""
    for f in core.load_findings():
        if f.get("property") != ctx.prop or f.get("status") != "known":
            continue
        p = f.get("pattern", {})
        if case["target"] not in p.get("targets", []) or p.get("direction") != case["direction"]:
            continue
        one_of = p.get("rejecting_checks_one_of")
        if one_of is not None:
            if len(case["rejecting_checks"]) != 1 or case["rejecting_checks"][0] not in one_of:
                continue
        elif sorted(case["rejecting_checks"]) != sorted(p.get("rejecting_checks", [])):
            continue
        for alt in p.get("any_of", [{}]):
            ok = all(_shape_cond(case["shapes"].get(a), cond) for a, cond in alt.get("shapes", {}).items())
            for k, v in alt.get("kw", {}).items():
                if case["kw"].get(k, p.get("kw_defaults", {}).get(k)) != v:
                    ok = False
            if ok:
                return f["id"]
    return None


def refuted_now_note(ctx):
    """Which `check_iff_contract_<f>_refuted` dichotomies are refutations on THIS tree (Props/C18.v `refuted_now`)."""
    import re
    core.TMP.mkdir(parents=True, exist_ok=True)
    f = core.TMP / "RefutedNow.v"
    f.write_text("From Coq Require Import String List.\nFrom TE Require Import Props.C18.\nOpen Scope string_scope.\nEval vm_compute in C18.refuted_now.\n")
    r = core.sh(f"timeout 120 coqc -Q {core.COQ} TE {f}", cwd=core.TMP, timeout=150)
    pairs = re.findall(r'"(_[a-z0-9_]+)",\s*(true|false)', r.stdout)
    if pairs:
        ctx.notes.append("check-level non-equivalences on this tree: " + ", ".join(n for n, b in pairs if b == "true")
                         + " | repaired (equivalence proved instead): " + (", ".join(n for n, b in pairs if b == "false") or "none"))


def run(ctx):
    rec = SL.Recorder()
    rec.install()
    meta = rec.meta
    ctx.oblige("tie:translation:all-check-functions-translated", all(m["translated"] for m in meta.values()),
               detail=", ".join(n for n, m in meta.items() if not m["translated"]))
    refuted_now_note(ctx)
    rows = SL.base_calls()
    s = ctx.stream("shape-perturbation (functional + class update) vs Coq contracts")
    s.exhaustive = True
    s.note = "finite perturbation set of DESIGN 4/C18 enumerated completely; no sampling"
    st = ctx.stream("translation tie: real check function vs generated ShapeLang term")
    st.exhaustive = True

    calls = []
    model_cases = []
    for kind, ri, label, targs in enumerate_calls(rows):
        row = rows[ri]
        out, exc, invs = _call(kind, row, targs, rec)
        c = {"kind": kind, "row": ri, "label": label, "outcome": out, "exc": exc, "invs": [],
             "shapes": {a: list(t.shape) for a, t in targs.items()}, "targs": targs}
        for inv in invs:
            if inv["args"] is None:
                continue
            enc = SL.encode_invocation(meta[inv["fn"]], inv["fn"], inv["args"])
            c["invs"].append({"fn": inv["fn"], "outcome": inv["outcome"], "idx": len(model_cases),
                              "args": {k: SL.describe(v) for k, v in inv["args"].items()}})
            model_cases.append(("shape_contract", enc))
            model_cases.append(("shape_check", enc))
        calls.append(c)
    outs = model.run_model(model_cases)
    chk, bad = model.crosscheck_in_coq(model_cases, outs, "C18", limit=ctx.n(60, 200))
    ctx.oblige("tie:extraction:shape_contract/shape_check (in-Coq vm_compute vs extracted OCaml)", bad == 0,
               detail=f"{bad} of {chk} sampled cases disagree")

    # ---- (a) translation tie ---------------------------------------------------------------
    want = {"ok": 0, "raise": 1, "pyerr": 2}
    tr_bad: dict[str, dict] = {}
    for c in calls:
        for inv in c["invs"]:
            mv = outs[inv["idx"] + 1]
            st.case((inv["fn"], repr(inv["args"])), inv["outcome"] != "ok",
                    sample={"check": inv["fn"], "args": inv["args"], "real": inv["outcome"], "model": mv})
            st.count("check:" + inv["fn"])
            st.count("outcome:" + inv["outcome"])
            if mv != want[inv["outcome"]]:
                st.mismatches.append({"check": inv["fn"]})
                tr_bad.setdefault(inv["fn"], {"check": inv["fn"], "args": inv["args"], "real": inv["outcome"],
                                              "model_verdict": repr(mv)})
    seen_checks = {inv["fn"] for c in calls for inv in c["invs"]}
    for fn in sorted(seen_checks):
        ctx.oblige(f"tie:translation:{fn}", fn not in tr_bad, detail=json.dumps(tr_bad.get(fn, {}))[:400])
        if fn in tr_bad:
            ctx.violation("failing-input", fn, {"check": "generated ShapeLang term vs real check function", **tr_bad[fn],
                                                "broken": f"tie:translation:{fn}"})
    ctx.notes.append(f"check functions exercised by the perturbation stream: {len(seen_checks)} of {len(meta)}")

    # ---- (b) contract verdict vs implementation ------------------------------------------------
    base_checks = {}
    reported = set()
    summary = []
    for c in calls:
        row = rows[c["row"]]
        target = row[c["kind"]] if c["kind"] == "fn" else row["cls"]
        key = (c["kind"], c["row"])
        if c["label"][0] == "base":
            base_checks[key] = [i["fn"] for i in c["invs"]]
            ok = c["outcome"] == "returns"
            ctx.oblige(f"base-call:{target}:{row['tag'] or 'default'}:{c['kind']}", ok, detail=c["exc"])
            if not ok:
                ctx.violation("failing-input", target, {"check": "valid base call must be accepted", "target": target,
                                                        "kind": c["kind"], "kw": row["kw"], "shapes": c["shapes"], "observed": c["exc"],
                                                        "broken": f"base-call:{target}:{row['tag'] or 'default'}:{c['kind']}"})
        verdicts = []
        for inv in c["invs"]:
            cv = outs[inv["idx"]]
            verdicts.append((inv["fn"], cv))
        rejecting = [fn for fn, cv in verdicts if cv is False]
        nocontract = [fn for fn, cv in verdicts if not isinstance(cv, bool)]
        if row.get("pycontract"):
            if not _pycontract(row["pycontract"], c["targs"]):
                rejecting.append("py:" + row["pycontract"])
            decided = True
        else:
            reached_all = [i["fn"] for i in c["invs"]] == base_checks.get(key, [])
            decided = bool(rejecting) or (reached_all and bool(verdicts))
        if rejecting:
            verdict = "reject"
        elif decided:
            verdict = "accept"
        else:
            verdict = "undecided"      # the call raised in glue code before reaching all its check functions
        nontrivial = c["label"][0] != "base"
        s.case((target, c["kind"], row["tag"], c["label"], repr(c["shapes"])), nontrivial,
               sample={"target": target, "kind": c["kind"], "perturbation": c["label"], "shapes": c["shapes"],
                       "impl": c["outcome"], "contract": verdict})
        s.count("target:" + target)
        s.count(f"{c['label'][0]}:{c['outcome']}/{verdict}")
        for fn in nocontract:
            ctx.oblige(f"contract-missing:{fn}", False, detail="check function without hand-written contract")
        # A perturbed call that RAISES although the shape contracts accept it was rejected downstream of the shape checks
        # (value / dtype reasons introduced by the perturbation, or inline validation in glue code): raising is the safe
        # behaviour and is not judged here; the completeness direction is judged on the valid base rows (all documented
        # layouts) above.  The dangerous direction -- a value is RETURNED although the contract rejects -- is judged always.
        agree = c["outcome"] == "raises" or (verdict == "accept" and c["outcome"] == "returns") or c["label"][0] == "base"
        summary.append({"target": target, "kind": c["kind"], "tag": row["tag"], "label": c["label"], "shapes": c["shapes"],
                        "impl": c["outcome"], "exc": c["exc"], "contract": verdict, "rejecting": rejecting})
        if agree:
            continue
        direction = "returns-though-contract-rejects" if c["outcome"] == "returns" else "raises-though-contract-accepts"
        case = {"target": target, "kind": c["kind"], "direction": direction, "rejecting_checks": rejecting,
                "shapes": c["shapes"], "kw": {**row["kw"], **row["ckw"]}}
        fid = match_finding(ctx, case)
        s.mismatches.append({"target": target, "direction": direction})
        rkey = (target, direction, c["label"][1], fid)
        if rkey in reported:
            continue
        reported.add(rkey)
        ctx.violation("failing-input", target,
                      {"check": "C18 perturbation: implementation raise/return vs Coq shape contract", "target": target,
                       "entry": "functional" if c["kind"] == "fn" else "class.update", "kw": {**row["kw"], **row["ckw"]},
                       "perturbation": {"mode": c["label"][0], "argument": c["label"][1], "operation": c["label"][2]},
                       "shapes": c["shapes"], "tensors": {a: t for a, t in c["targs"].items()},
                       "implementation": c["outcome"] + (": " + c["exc"] if c["exc"] else ""),
                       "contract_verdict": verdict, "rejecting_contracts": rejecting, "direction": direction,
                       "broken": f"shape-contract:{target}"},
                      finding_id=fid)
    (core.OUT / "C18").mkdir(parents=True, exist_ok=True)
    (core.OUT / "C18" / "perturbation-summary.json").write_text(json.dumps(core.canon(summary), indent=0))
