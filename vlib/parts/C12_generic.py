"""C12 -- results depend only on the multiset of samples, not on batching or order."""
from .. import core, streams, sandbox
from ..catalogue import entries
from ..compare import close
from ..model import T

LEVEL_NOTE = ("generic theorems (permutation of updates with commutative abstraction; re-batching with additive beta); tie = history "
              "correspondence; direct re-batching / re-ordering of the same sample multiset on the real classes")


def _compute(e, cfg, batches):
    m = e.make(cfg)
    for b in batches:
        e.update(m, cfg, b)
    try:
        return e.out_val(m.compute())
    except Exception:
        return T("err")


def _job(job):
    name, trials = job
    from ..catalogue import entry
    import random
    e = entry(name)
    out = []
    for cfg, samples, seed in trials:
        rng = random.Random(seed)
        try:
            whole = e.concat(cfg, samples)
            ref = _compute(e, cfg, [whole])
            d = None
            variants = []
            if e.batching_free:
                variants.append(("singletons", list(samples)))
                # random composition, same order
                comp, i = [], 0
                while i < len(samples):
                    k = rng.choice([1, 1, 2, 3, 5])
                    comp.append(e.concat(cfg, samples[i:i + k]))
                    i += k
                variants.append(("composition", comp))
            if e.order_free:
                perm = list(samples)
                rng.shuffle(perm)
                variants.append(("shuffled-one-batch", [e.concat(cfg, perm)]))
                if e.batching_free:
                    variants.append(("shuffled-singletons", perm))
            for vn, bs in variants:
                if any(b is None for b in bs):
                    continue
                if any(e.size(b) < e.min_batch for b in bs):
                    continue
                r = _compute(e, cfg, bs)
                if isinstance(r, T) and isinstance(ref, T) and r.tag == ref.tag == "err":
                    continue
                d = close(ref, r, e.tol)
                if d:
                    d = f"{vn}: {d}"
                    break
            out.append(d)
        except Exception as ex:
            out.append(f"harness exception {type(ex).__name__}: {ex}")
    return out


def _job_sizes(job):
    """implementation only: one huge update vs the same samples in chunks (size thresholds inside kernels),
    and more than 64 tiny updates vs one batch (code paths that fold / compact accumulated chunks)"""
    name, trials = job
    from ..catalogue import entry
    import random
    e = entry(name)
    out = []
    for cfg, kind, n, seed in trials:
        rng = random.Random(seed)
        try:
            if kind == "huge":
                parts = [e.gen_batch(rng, cfg, n // 4) for _ in range(4)]
                whole = e.concat(cfg, parts)
                if whole is None:
                    out.append(None)
                    continue
                a, b = _compute(e, cfg, [whole]), _compute(e, cfg, parts)
            else:
                parts = [e.gen_batch(rng, cfg, max(e.min_batch, 1)) for _ in range(n)]
                whole = e.concat(cfg, parts)
                if whole is None:
                    out.append(None)
                    continue
                a, b = _compute(e, cfg, [whole]), _compute(e, cfg, parts)
            if isinstance(a, T) and isinstance(b, T) and a.tag == b.tag == "err":
                out.append(None)
            else:
                d = close(a, b, e.tol)
                out.append(f"{kind} n={n}: one update with everything vs {len(parts)} updates: {d}" if d else None)
        except Exception as ex:
            out.append(f"harness exception {type(ex).__name__}: {ex}")
    return out


def sizes_stream(ctx):
    s = ctx.stream("one huge update / many tiny updates vs the same samples re-batched (implementation only)")
    jobs = []
    for e in entries():
        if not e.batching_free or e.family == "window":
            continue
        cfgs = e.configs(ctx.rng, ctx.quick)
        trials = []
        for t in range(ctx.n(2, 8)):
            cfg = cfgs[ctx.rng.randrange(len(cfgs))]
            trials.append((cfg, "huge", ctx.rng.choice([33000, 66000]), ctx.rng.randrange(10 ** 9)))
            trials.append((cfg, "tiny", ctx.rng.choice([70, 130]), ctx.rng.randrange(10 ** 9)))
        jobs.append((e.name, trials))
    res = sandbox.run_jobs(_job_sizes, jobs, timeout=ctx.n(170, 900), workers=12)
    for (name, trials), (status, val) in zip(jobs, res):
        bad = None
        if status == "timeout":
            ctx.notes.append(f"sizes stream: {name} timed out (skipped)")
            continue
        if status != "ok":
            bad = {"observed": f"worker {status}: {val}"}
            val = []
        for (cfg, kind, n, seed), d in zip(trials, val):
            s.case((name, repr(cfg), kind, n, seed), True, sample={"class": name, "cfg": cfg, "kind": kind, "n": n})
            s.count("kind:" + kind)
            if d and bad is None:
                bad = {"cfg": cfg, "kind": kind, "n": n, "seed": seed, "observed": d}
        if bad:
            ctx.violation("failing-input", name, {"check": "rebatch_sizes", "class": name, **bad, "broken": f"tie:corr:{name}"},
                          finding_id=core.match_finding("C12", name, str(bad["observed"])))


def run(ctx):
    sizes_stream(ctx)
    mix = {"upd": 12, "merge": 1, "compute": 4, "reset": 0.5, "prep": 1}
    streams.hist_corr(ctx, mix=mix, name="history-correspondence(update-heavy)", nhist=ctx.n(6, 60), nops=(6, 12, 20), maxn=5)
    s = ctx.stream("re-batching / re-ordering of one sample multiset (implementation only)")
    jobs = []
    for e in entries():
        if not (e.batching_free or e.order_free):
            continue
        cfgs = e.configs(ctx.rng, ctx.quick)
        trials = []
        for t in range(ctx.n(15, 200)):
            cfg = cfgs[t % len(cfgs)]
            n = max(e.min_compute, e.min_batch, ctx.rng.choice([2, 3, 5, 8, 13]))
            b = e.gen_batch(ctx.rng, cfg, n)
            sm = e.samples(cfg, b)
            if not sm or len(sm) < 2:
                continue
            trials.append((cfg, sm, ctx.rng.randrange(10 ** 9)))
        jobs.append((e.name, trials))
    res = sandbox.run_jobs(_job, jobs, timeout=ctx.n(150, 900), workers=12)
    for (name, trials), (status, val) in zip(jobs, res):
        bad = None
        if status != "ok":
            bad = {"observed": f"worker {status}: {val}"}
            val = []
        for (cfg, sm, seed), d in zip(trials, val):
            s.case((name, repr(cfg), repr(sm)), len(sm) >= 3, sample={"class": name, "cfg": cfg, "samples": len(sm)})
            s.count("class:" + name)
            if d and bad is None:
                bad = {"cfg": cfg, "samples": sm, "seed": seed, "observed": d}
        if bad:
            ctx.violation("failing-input", name, {"check": "rebatch_reorder", "class": name, **bad, "broken": f"tie:corr:{name}"},
                          finding_id=core.match_finding("C12", name, str(bad["observed"])))
