"""C07 -- regression, aggregation, statistical and image metrics equal their formulas
(Max, Min, Throughput, Cat, AUC, Covariance, MeanSquaredError, R2Score, Wasserstein1D,
PeakSignalNoiseRatio, BinaryNormalizedEntropy, Perplexity; Mean and Sum come from the worked example)."""
from .. import streams, regression_support as rs
from ..catalogue import entry

LEVEL_NOTE = ("C07 (partial w.r.t. floating-point rounding): theorems over exact rationals about executable models; "
              "log/exp/log10 are symbolic nodes over exact sufficient statistics, evaluated with mpmath; tie = history "
              "correspondence (state after every operation, compute results) and functional correspondence on float64, "
              "exactly representable, well-conditioned inputs with tolerance 2^-40 (2^-17 where the implementation itself "
              "computes in float32: 1-D MSE/R2 class states, Wasserstein1D without explicit weights); plain history streams "
              "(no isolation of merge sources: /repo 5bc2ee2 clones adopted tensors); a non-interference probe re-checks that; "
              "FrechetAudioDistance: the model receives the embedded frames of a fixed dyadic Linear(4,3) (exact in float32), compute() runs in float32 "
              "with sqrt of eigenvalues: tolerance 2^-10, >= 5 frames per side per update; the eigenvalue term is uninterpreted (mpmath, 200 bits); "
              "ill-conditioned clause: covered for Covariance only (offset stream: values 2^30 + j/8, |mean| >> spread, tolerance 2^-16 "
              "chosen from the conditioning -- demean-first passes, X'X - n mean mean' fails), near-constant-target R2 and near-equal "
              "Wasserstein distributions are NOT covered beyond exact degenerate cases; extreme logits (|x| up to 100) for NE are exact "
              "(mpmath); float32-accumulator sensitivity for PSNR via squared-error sums needing > 24 bits")

NAMES = ["Mean", "Sum", "Max", "Min", "Throughput", "Cat", "AUC", "Covariance", "MeanSquaredError", "R2Score",
         "Wasserstein1D", "PeakSignalNoiseRatio", "BinaryNormalizedEntropy", "Perplexity", "FrechetAudioDistance"]


def run(ctx):
    ents = [entry(n) for n in NAMES]
    bad = streams.hist_corr(ctx, ents=ents, nhist=ctx.n(14, 150))
    rs.report(ctx, bad, "tie:corr", "history_vs_model")
    from ..families.fad import FRECHET_FN, FRECHET_FN_RD
    streams.fn_corr(ctx, ents=ents + [FRECHET_FN, FRECHET_FN_RD])
    streams.presentation_variants(ctx, fn_ents=ents + [FRECHET_FN], hist_ents=ents, sizes=(1, 2, 3, 8, 40), hist_sizes=(1, 2, 5, 24))   # symbolic log sums: keep the trees small
    streams.wide_corr(ctx, ents)
    bad = rs.directed_histories(ctx, ents)
    rs.report(ctx, bad, "tie:directed", "directed_history_vs_model")
    rs.alias_probe(ctx, ents)


def replay(d):
    """./check replay for this part's own payloads"""
    if d.get("check") == "merge-aliasing":
        from .. import history
        return history.check_history(entry(d["class"]), d["cfg"], 3, [tuple(o) for o in d["ops"]])
    return NotImplemented
