"""C07 -- regression, aggregation, statistical and image metrics equal their formulas
(Max, Min, Throughput, Cat, AUC, Covariance, MeanSquaredError, R2Score, Wasserstein1D,
PeakSignalNoiseRatio, BinaryNormalizedEntropy, Perplexity; Mean and Sum come from the worked example)."""
from .. import streams, regression_support as rs
from ..catalogue import entry

LEVEL_NOTE = ("C07 (partial w.r.t. floating-point rounding): theorems over exact rationals about executable models; "
              "log/exp/log10 are symbolic nodes over exact sufficient statistics, evaluated with mpmath; tie = history "
              "correspondence (state after every operation, compute results) and functional correspondence on float64, "
              "exactly representable, well-conditioned inputs with tolerance 2^-40 (2^-17 where the implementation itself "
              "computes in float32: 1-D MSE/R2 class states, Wasserstein1D without explicit weights); plain history streams "
              "(no isolation of merge sources: /repo 5bc2ee2 clones adopted tensors); a non-interference probe re-checks that")

NAMES = ["Mean", "Sum", "Max", "Min", "Throughput", "Cat", "AUC", "Covariance", "MeanSquaredError", "R2Score",
         "Wasserstein1D", "PeakSignalNoiseRatio", "BinaryNormalizedEntropy", "Perplexity"]


def run(ctx):
    ents = [entry(n) for n in NAMES]
    streams.hist_corr(ctx, ents=ents, nhist=ctx.n(14, 150))
    streams.fn_corr(ctx, ents=ents)
    rs.alias_probe(ctx, ents)
