"""C04 -- count-based classification metrics equal their textbook definitions.

Streams: (1) history correspondence of the 12 class models (state-level), (2) functional correspondence
(implementation vs algo model vs spec model) on tie-heavy random inputs, (3) EXHAUSTIVE small domains:
all label / prediction vectors of length <= 4 over <= 3 classes, all score vectors on a 3-point grid
around the threshold, all tied logit rows -- implementation vs algo model vs spec model, (4) the
implementation-only statement "every valid input yields a value" (total_on_valid)."""
from __future__ import annotations
import itertools
from fractions import Fraction
from .. import core, streams
from ..catalogue import entries, F
from ..compare import close
from ..model import run_model, T
from ..families import counting as C

LEVEL_NOTE = ("algo = spec theorems over Gallina models of the counting kernels; tie = state-level history "
              "correspondence + functional correspondence + exhaustive small-domain enumeration against the real code; "
              "assumed torch semantics: argmax = first maximal index, scatter_/sparse_coo sum duplicates, "
              "topk returns SOME admissible index set (checked per case); float32 division absorbed by tolerance")

RECALL_FINDING = "C04-recall-weighted-absent-class"


def known_ids():
    """ids of findings that are still open; a fixed finding suppresses nothing"""
    return {f["id"] for f in core.load_findings() if f.get("property") == "C04" and f.get("status") == "known"}


def recall_pattern():
    if RECALL_FINDING not in known_ids():
        return None
    return lambda c, b: RECALL_FINDING if recall_weighted_absent(c, b) else None


def ents():
    return [e for e in entries() if e.__class__.__module__.endswith("families.counting")]


def ent(name):
    return next(e for e in ents() if e.name == name)


# ------------------------------------------------------------------------------------------
def recall_weighted_absent(cfg, b):
    """the finding's pattern: MulticlassRecall, average='weighted', some class in neither predictions nor labels"""
    if cfg.get("average") != "weighted":
        return False
    nc = cfg["num_classes"]
    x = b["x"]
    if b["mode"] == "logits":
        x = [max(range(len(r)), key=lambda j: (r[j], -j)) for r in x]
    return len(set(x) | set(b["y"])) < nc


def triple_check(ctx, s, e, cases_cfg_batches, spec_model, bad, pattern=None):
    """implementation vs algo model vs spec model on the given (cfg, batch) list.
    pattern(cfg, batch) -> finding id for inputs of a known finding (implementation raises on valid input)."""
    cases = []
    for cfg, b in cases_cfg_batches:
        v = [e.cfg_val(cfg), e.batch_val(cfg, b)]
        cases.append((e.fn_model, v))
        cases.append((spec_model, v))
    outs = run_model(cases)
    for k, (cfg, b) in enumerate(cases_cfg_batches):
        algo, spec = outs[2 * k], outs[2 * k + 1]
        raised = None
        try:
            r = e.fn_val(e.functional(cfg, b))
        except Exception as ex:
            r, raised = T("err"), f"{type(ex).__name__}: {ex}"
        s.case((e.name, repr(cfg), repr(b)), e.size(b) >= 2)
        s.count("fn:" + e.name)
        fid = pattern(cfg, b) if pattern else None
        # tie: implementation vs algo model (an exception must be mirrored by the model)
        both_err = isinstance(algo, T) and algo.tag == "err" and isinstance(r, T) and r.tag == "err"
        d = None if both_err else close(algo, r, e.tol)
        if d and ("tie", e.name) not in bad:
            bad[("tie", e.name)] = {"function": e.name, "cfg": cfg, "batch": b, "disagreement": d}
        # model-level algo vs spec (exact)
        d2 = None if (isinstance(spec, T) and isinstance(algo, T) and spec.tag == algo.tag) else close(spec, algo, 0)
        if d2 and not fid and ("spec", e.name) not in bad:
            bad[("spec", e.name)] = {"function": e.name, "cfg": cfg, "batch": b, "algo_vs_spec": d2}
        # property: every valid input yields a value; implementation vs textbook spec
        valid = not (isinstance(spec, T) and spec.tag == "err")
        if valid and raised:
            s.count("raised-on-valid-input")
            key = ("raise", e.name, fid)
            if key not in bad:
                bad[key] = True
                s.mismatches.append({"function": e.name, "cfg": cfg, "batch": b, "raised": raised})
                ctx.violation("failing-input", e.name,
                              {"check": "total_on_valid", "function": e.name, "cfg": cfg, "batch": b, "observed": raised,
                               "expected": repr(spec), "broken": f"prop:total_on_valid:{e.name}"}, finding_id=fid)
        if fid and not raised and ("stale", fid) not in bad:
            bad[("stale", fid)] = {"finding": fid, "cfg": cfg, "batch": b, "note": "known finding no longer reproduces"}


def finish_triple(ctx, e, bad, tag):
    m = bad.get(("tie", e.name))
    ctx.oblige(f"tie:{tag}:{e.name}", m is None, detail=repr(core.canon(m))[:1500] if m else "")
    m = bad.get(("spec", e.name))
    ctx.oblige(f"model:algo=spec:{tag}:{e.name}", m is None, detail=repr(core.canon(m))[:1500] if m else "")


# ------------------------------------------------------------------------------------------
def vecs(vals, n):
    return [list(v) for v in itertools.product(vals, repeat=n)]


def exhaustive(ctx):
    s = ctx.stream("exhaustive-small-domains (implementation vs algo model vs spec model)")
    s.exhaustive = True
    maxn = ctx.n(4, 5)
    s.note = (f"all label/prediction vectors of length <= {maxn} over 3 classes (2 for the binary forms); all score vectors of "
              f"length <= {maxn} on the 3-point grid (t-1, t, t+1)/4 around each threshold; all logit rows on a 3-point grid "
              "(width 3) for argmax / top-k, 1-2 samples; every option value of every class")
    bad = {}
    # --- multiclass, label inputs: all (prediction, target) vectors
    lab = []
    for n in range(1, maxn + 1):
        for x in vecs(range(3), n):
            for y in vecs(range(3), n):
                lab.append({"x": x, "y": y, "mode": "labels"})
    # logits: all rows on a 3-point grid, width 3; 1 sample with every target, 2 samples on a 2-point grid
    rows3 = vecs([0, 1, 2], 3)
    logit = [{"x": [r], "y": [y], "mode": "logits"} for r in rows3 for y in range(3)]
    rows2 = vecs([0, 1], 3)
    logit += [{"x": [r1, r2], "y": [y1, y2], "mode": "logits"} for r1 in rows2 for r2 in rows2 for y1 in range(3) for y2 in range(3)]
    lab_small = [b for b in lab if len(b["x"]) <= 3]
    for name, spec in (("MulticlassPrecision", "mcprec_spec"), ("MulticlassRecall", "mcrec_spec"), ("MulticlassF1Score", "mcf1_spec")):
        e = ent(name)
        for a in e.averages:
            cfg = {"average": a, "num_classes": 3}
            pat = recall_pattern() if name == "MulticlassRecall" else None
            triple_check(ctx, s, e, [(cfg, b) for b in lab + logit], spec, bad, pat)
        triple_check(ctx, s, e, [({"average": "micro", "num_classes": None, "_w": 3}, b) for b in lab_small + logit], spec, bad)
        triple_check(ctx, s, e, [({"average": a, "num_classes": 4}, b) for a in ("macro", None) for b in lab_small], spec, bad,
                     None)
        finish_triple(ctx, e, bad, "exhaustive")
    e = ent("MulticlassAccuracy")
    for a in ("micro", "macro", None, "none"):
        triple_check(ctx, s, e, [({"average": a, "num_classes": 3, "k": 1}, b) for b in lab + logit], "mcacc_spec", bad)
        for k in (2, 3):
            triple_check(ctx, s, e, [({"average": a, "num_classes": 3, "k": k}, b) for b in logit], "mcacc_spec", bad)
    triple_check(ctx, s, e, [({"average": "micro", "num_classes": None, "k": k, "_w": 3}, b) for k in (1, 2) for b in logit], "mcacc_spec", bad)
    finish_triple(ctx, e, bad, "exhaustive")
    e = ent("MulticlassConfusionMatrix")
    for nm in (None, "none", "all", "pred", "true"):
        triple_check(ctx, s, e, [({"num_classes": 3, "normalize": nm}, b) for b in (lab if nm != "none" else lab_small) + logit], "mccm_spec", bad)
    finish_triple(ctx, e, bad, "exhaustive")
    # --- binary: all score vectors on the 3-point grid around the threshold x all label vectors; label inputs
    for name in ("BinaryAccuracy", "BinaryPrecision", "BinaryRecall", "BinaryF1Score", "BinaryConfusionMatrix"):
        e = ent(name)
        for cfg in e.configs(ctx.rng, ctx.quick):
            t = e.thr(cfg)
            bs = []
            for n in range(1, maxn + 1):
                for y in vecs([0, 1], n):
                    bs += [{"x": x, "y": y, "int": False} for x in vecs([t - 1, t, t + 1], n)]
                    if t == 2:
                        bs += [{"x": x, "y": y, "int": True} for x in vecs([0, C.DEN], n)]
            triple_check(ctx, s, e, [(cfg, b) for b in bs], e.spec_model, bad)
        finish_triple(ctx, e, bad, "exhaustive")
    # --- multilabel: width 2, all score rows on the grid x all target rows, 1-2 samples
    e = ent("MultilabelAccuracy")
    for cr in C.CRIT:
        for t in C.THRESHOLDS:
            cfg = {"threshold": F(t, C.DEN), "criteria": cr, "_w": 2}
            one = [(x, y) for x in vecs([t - 1, t, t + 1], 2) for y in vecs([0, 1], 2)]
            bs = [{"x": [x], "y": [y], "int": False} for x, y in one]
            if t == 2:
                bs += [{"x": [x1, x2], "y": [y1, y2], "int": False} for (x1, y1) in one for (x2, y2) in one]
            triple_check(ctx, s, e, [(cfg, b) for b in bs], "mlacc_spec", bad)
    finish_triple(ctx, e, bad, "exhaustive")
    # --- top-k multilabel: width 3, k = 2: all score rows on a 3-point grid (all tie patterns) x all target rows
    e = ent("TopKMultilabelAccuracy")
    for cr in C.CRIT:
        for k, w in ((2, 3), (2, 2), (3, 4)):
            cfg = {"criteria": cr, "k": k, "_w": w}
            grid = [0, 1, 2] if w == 3 else [0, 1]
            one = [(x, y) for x in vecs(grid, w) for y in vecs([0, 1], w)]
            bs = [{"x": [x], "y": [y]} for x, y in one]
            if w == 2:
                bs += [{"x": [x1, x2], "y": [y1, y2]} for (x1, y1) in one for (x2, y2) in one]
            triple_check(ctx, s, e, [(cfg, b) for b in bs], "tkacc_spec", bad)
    finish_triple(ctx, e, bad, "exhaustive")
    stale = [v for k, v in bad.items() if k[0] == "stale"]
    if RECALL_FINDING in known_ids():
        ctx.oblige("finding-still-reproduces:" + RECALL_FINDING, not stale, detail=repr(core.canon(stale))[:800])


def random_recall_spec(ctx):
    """MulticlassRecall vs its textbook spec on random inputs (the generic fn_corr cannot single out the finding)."""
    s = ctx.stream("recall-vs-textbook-spec (random, finding pattern singled out)")
    e = ent("MulticlassRecall")
    bad = {}
    cfgs = e.configs(ctx.rng, ctx.quick)
    cb = []
    for k in range(ctx.n(150, 2000)):
        cfg = cfgs[k % len(cfgs)]
        cb.append((cfg, e.gen_batch(ctx.rng, cfg, ctx.rng.choice([1, 2, 3, 5, 8, 13, 40]))))
    triple_check(ctx, s, e, cb, "mcrec_spec", bad, recall_pattern())
    finish_triple(ctx, e, bad, "random")


def run(ctx):
    es = ents()
    streams.hist_corr(ctx, ents=es, nhist=ctx.n(16, 150))
    streams.fn_corr(ctx, ents=es, ncases=ctx.n(60, 800))
    streams.presentation_variants(ctx, fn_ents=es, hist_ents=es)
    streams.wide_corr(ctx, es, variants=("u8", "i16"))
    random_recall_spec(ctx)
    exhaustive(ctx)
