"""C11 (windowed classes) -- compute() must not change the metric (D7).

WindowedWeightedCalibration.compute() rebinds the registered lifetime state weighted_target_sum to
clamp(weighted_target_sum, min=eps): a zero sum becomes eps (2^-52).  Property-directed,
implementation only: every registered state and the cursor are bit-identical before and after
compute()."""
import torch

from .. import core, winlib
from ..families import window as W

LEVEL_NOTE = "C11/windows: compute() leaves every registered state and the cursor bit-identical; directed implementation stream"


def snapshot(m):
    out = {}
    for n in m._state_name_to_default:
        v = getattr(m, n)
        out[n] = v.detach().clone() if isinstance(v, torch.Tensor) else v
    out["next_inserted"] = m.next_inserted
    return out


def diff(a, b):
    for k in a:
        x, y = a[k], b[k]
        if isinstance(x, torch.Tensor):
            if x.shape != y.shape or x.dtype != y.dtype or not torch.equal(x, y):
                return k
        elif x != y:
            return k
    return None


def run(ctx):
    s = ctx.stream("state before vs after compute() (windows, implementation only)")
    for e in W.ENTRIES:
        cfgs = e.configs(ctx.rng, ctx.quick)
        ok, seen = True, set()
        for h in range(ctx.n(24, 200)):
            cfg = cfgs[h % len(cfgs)]
            m = e.make(cfg)
            for k in range(ctx.rng.choice([1, 2, e.window(cfg) + 1])):
                e.update(m, cfg, e.gen_batch(ctx.rng, cfg, ctx.rng.choice([1, 1, 2, 3])))
                before = snapshot(m)
                try:
                    m.compute()
                except Exception:
                    pass
                field = diff(before, snapshot(m))
                s.case((e.name, repr(cfg), h, k), True, sample={"class": e.name, "cfg": cfg})
                s.count("class:" + e.name)
                if field is None:
                    continue
                zero = isinstance(before[field], torch.Tensor) and bool(torch.any(before[field] == 0))
                trig = "lifetime-weighted_target_sum-has-a-zero-at-compute" if (field == "weighted_target_sum" and zero) else None
                if (field, trig) in seen:
                    continue
                seen.add((field, trig))
                ok = False
                s.mismatches.append({"class": e.name, "field": field})
                ctx.violation("failing-input", e.name,
                              {"check": "compute() changed a state", "class": e.name, "cfg": cfg, "field": field,
                               "before": before[field], "after": getattr(m, field), "trigger": trig,
                               "broken": f"prop:compute-pure:{e.name}"},
                              finding_id=winlib.match_finding(ctx.prop, e.name, trig))
        ctx.oblige(f"prop:compute-pure:{e.name}", ok, detail="" if ok else "see failing inputs")
