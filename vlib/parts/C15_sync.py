"""C15 -- gathering state across ranks is lossless and correctly addressed (synclib.send_tensors,
synclib.sync_states).  T-trace tie of Models/Synclib.v + the property itself on the implementation."""
from __future__ import annotations
import copy
from .. import core, syncutil as su
from ..model import run_model, crosscheck_in_coq, T, NONE

LEVEL_NOTE = ("L-proto: synclib as per-rank programs, lock-step runner (None = collective mismatch / hang); theorems in "
              "Props/C15.v; tie = per-rank collective traces (kind, root, shape, dtype) and results of the REAL synclib on the "
              "in-process checking transport (W=1..8, sub-groups) equal the extracted model's, one real-gloo launch validates "
              "the transport; transport modelled as reliable and lock-step, NCCL/GPU paths not exercised")

DT = list(su.DTYPES)


# ------------------------------------------------------------------------------ generators
def gen_send(rng):
    W, g = su.gen_group(rng)
    n = len(g)
    dst = rng.choice([None, None, rng.randrange(n)])
    dtype = rng.choice(DT)
    ndim = rng.choice([0, 1, 1, 2, 2, 3, 4])
    mode = rng.choice(["uneven", "uneven", "equal", "one-dim", "uneven", "uneven", "equal", "one-dim", "mixed-ndim", "mixed-dtype", "mixed-dtype"])
    base = [rng.choice([0, 1, 2, 3]) for _ in range(ndim)]
    members = []
    for _ in range(n):
        if mode == "equal":
            shape = list(base)
        elif mode == "one-dim" and ndim:
            shape = list(base)
            shape[0] = rng.choice([0, 1, 2, 3])
        else:
            shape = None
        nd = ndim
        if mode == "mixed-ndim":        # outside C15's quantifier (equal rank) unless D10 is repaired
            nd = rng.choice([0, ndim, ndim, rng.choice([1, 2, 3])])
        dt = dtype
        if mode == "mixed-dtype":       # outside C15's quantifier (equal dtype) unless the dtype negotiation is present
            dt = rng.choice([dtype, rng.choice(DT)])
            if rng.random() < 0.3:
                nd = rng.choice([0, ndim, rng.choice([1, 2])])
        members.append(su.gen_tensor(rng, dt, nd, shape if nd == ndim else None))
    return {"kind": "send", "W": W, "group": g, "dst": dst, "members": members}


KEYSETS = ["equal", "equal", "overlap", "disjoint"]


def gen_states(rng):
    W, g = su.gen_group(rng)
    n = len(g)
    dst = rng.choice([None, None, None, rng.randrange(n)])
    schema = {}
    for m in rng.sample(["acc", "m2", "zeta", "Auc", "b"], rng.randint(1, 3)):
        schema[m] = {}
        for s in rng.sample(["x", "total", "inputs", "Weights", "k9"], rng.randint(1, 3)):
            kind = rng.choice(["tensor", "tensor", "list", "list", "dict", "int", "float"])
            schema[m][s] = {"kind": kind, "dtype": rng.choice(DT), "ndim": rng.choice([0, 1, 1, 2, 3]),
                            "lens": rng.choice(["all-empty", "some-empty", "some-empty", "nonempty", "any", "any"]),
                            "keys": rng.choice(KEYSETS)}
    members = []
    for j in range(n):
        md = {}
        for m in rng.sample(list(schema), len(schema)):          # insertion order differs per rank
            md[m] = {}
            for s in rng.sample(list(schema[m]), len(schema[m])):
                sc = schema[m][s]
                if sc["kind"] == "tensor":
                    v = su.gen_tensor(rng, sc["dtype"], sc["ndim"])
                elif sc["kind"] == "list":
                    if sc["lens"] == "all-empty":
                        k = 0
                    elif sc["lens"] == "nonempty":
                        k = rng.randint(1, 3)
                    elif sc["lens"] == "some-empty":
                        k = 0 if (j == sc.setdefault("empty_rank", rng.randrange(n))) else rng.randint(0, 3)
                    else:
                        k = rng.randint(0, 3)
                    v = {"list": [su.gen_tensor(rng, sc["dtype"], sc["ndim"]) for _ in range(k)]}
                elif sc["kind"] == "dict":
                    pool = ["a", "b", "c", "d", "e"]
                    if sc["keys"] == "equal":
                        ks = sc.setdefault("ks", rng.sample(pool, rng.randint(0, 3)))
                    elif sc["keys"] == "overlap":
                        ks = rng.sample(pool[:4], rng.randint(0, 3))
                    else:
                        ks = [f"{k}{j}" for k in rng.sample(pool, rng.randint(1, 2))]
                    ks = rng.sample(ks, len(ks))
                    v = {"dict": [[k, su.gen_tensor(rng, sc["dtype"], sc["ndim"])] for k in ks]}
                elif sc["kind"] == "int":
                    v = {"obj": rng.randint(-5, 50)}
                else:
                    v = {"obj": rng.randint(-8, 8) / 4, "float": True}
                md[m][s] = v
        members.append(md)
    return {"kind": "states", "W": W, "group": g, "dst": dst, "members": members}


# ------------------------------------------------------------------------------ the property on the implementation
def ideal(scn):
    """What C15 promises: for every receiving member, per sending rank in rank order, exactly what was sent."""
    g, n, dst = scn["group"], len(scn["group"]), scn["dst"]
    out = []
    for j in range(n):
        if dst is not None and j != dst:
            out.append(NONE)
        elif scn["kind"] == "send":
            out.append([su.tval(t) for t in scn["members"]])
        else:
            slots = []
            for k in range(n):
                md = scn["members"][k]
                slots.append([[T(m), T(s), ideal_state(md[m][s])] for m in sorted(md) for s in sorted(md[m])])
            out.append(slots)
    return out


def ideal_state(spec):
    v = su.state_val(spec)
    if isinstance(v, T) and v.tag == "dict":     # a dict is a set of (key, value) pairs
        return T("dict", *sorted(v.args, key=lambda kv: kv[0].tag))
    return v


def norm_obs(v):
    if isinstance(v, T) and v.tag == "dict":
        return T("dict", *sorted(v.args, key=lambda kv: kv[0].tag))
    if isinstance(v, list):
        return [norm_obs(x) for x in v]
    return v


def features(scn):
    """Scenario features the known findings are keyed on."""
    g, n, dst = scn["group"], len(scn["group"]), scn["dst"]
    f = {"shifted_group": su.shifted(g), "dst_named": dst is not None, "n": n,
         "dst_misaddressed": dst is not None and g[dst] != dst,
         "list_all_empty": [], "list_some_empty": [], "dict_unequal_keys": [], "bcast_root_shifted": False}
    if scn["kind"] != "states" or n == 0:
        return f
    md0 = scn["members"][0]
    for m in md0:
        for s in md0[m]:
            vals = [scn["members"][j][m][s] for j in range(n)]
            if "list" in vals[0] or "dict" in vals[0]:
                lens = [len(v.get("list", v.get("dict"))) for v in vals]
                if max(lens) == 0 and "list" in vals[0]:
                    f["list_all_empty"].append([m, s])
                if min(lens) == 0 and max(lens) > 0:
                    f["list_some_empty"].append([m, s])
                    rk = max(j for j in range(n) if lens[j] > 0)
                    if g[rk] != rk:
                        f["bcast_root_shifted"] = True
            if "dict" in vals[0]:
                keysets = [sorted(k for k, _ in v["dict"]) for v in vals]
                if any(ks != keysets[0] for ks in keysets):
                    f["dict_unequal_keys"].append([m, s])
    return f


def classify(scn, iout):
    """Compare what the implementation delivered with the promise.  Returns a list of
    (finding id | None, description) -- empty when the property holds on this scenario."""
    g, n = scn["group"], len(scn["group"])
    feat = features(scn)
    want = ideal(scn)
    bad = []
    outcomes = [iout[r] for r in g]
    if scn["kind"] == "send" and len({len(t["shape"]) for t in scn["members"]}) > 1 and not su.detect_variant()["D10"]:
        return []          # tensors of unequal rank: no promise on the code as it is (D10 is a C02 finding)
    if scn["kind"] == "send" and len({t["dtype"] for t in scn["members"]}) > 1 and not su.detect_variant()["DT"]:
        return []          # tensors of unequal dtype: no promise without the dtype negotiation (C02-state-dtype-follows-data)
    if any(o[0] != "ok" for o in outcomes):
        kinds = sorted({(o[0], o[1] if o[0] == "exc" else "") for o in outcomes if o[0] != "ok"})
        fid = None
        fixed = su.detect_variant()
        if feat["dst_misaddressed"] and not fixed["DST"] and set(kinds) <= {("exc", "ValueError"), ("mismatch", "")}:
            fid = "C15-subgroup-dst-rank"
        elif feat["bcast_root_shifted"] and not fixed["D9"] and set(kinds) <= {("exc", "TypeError"), ("exc", "ValueError")}:
            fid = "C15-subgroup-bcast-root"
        bad.append((fid, f"not every member returned: {kinds}"))
        return bad
    for j in range(n):
        got = outcomes[j][1]
        if want[j] == NONE or got == NONE:
            if want[j] != got:
                bad.append((None, f"group rank {j}: expected {'None' if want[j] == NONE else 'data'}, got {'None' if got == NONE else 'data'}"))
            continue
        if scn["kind"] == "send":
            if got != want[j]:
                bad.append((None, f"group rank {j}: send_tensors returned {got!r:.200}, sent {want[j]!r:.200}"))
            continue
        # sync_states: one slot per rank of the WORLD; the slots of the group members come first
        if len(got) < n:
            bad.append((None, f"group rank {j}: {len(got)} slots for {n} members"))
            continue
        for k in range(n):
            for (m, s, v), (m2, s2, w) in zip(got[k], want[j][k]):
                if (m, s) != (m2, s2):
                    bad.append((None, f"slot {k}: key {(m, s)} where {(m2, s2)} expected"))
                elif norm_obs(v) != w:
                    key = [m.tag, s.tag]
                    fid = None
                    if key in feat["list_all_empty"] and v == T("dict") and not su.detect_variant()["D12"]:
                        fid = "C15-list-all-empty"
                    elif key in feat["dict_unequal_keys"]:
                        fid = "C15-dict-unequal-keys"
                    bad.append((fid, f"receiver {j}, sender slot {k}, {key}: got {v!r:.160}, sent {w!r:.160}"))
    return bad


# ------------------------------------------------------------------------------ witnesses of the _refuted theorems
def t32(*vals, shape=None):
    return {"dtype": "float32", "shape": [len(vals)] if shape is None else shape, "data": list(vals)}


def sc32(v):
    return {"dtype": "float32", "shape": [], "data": v}


WITNESSES = {
    "list_all_empty_refuted": ("C15-list-all-empty",
        {"kind": "states", "W": 2, "group": [0, 1], "dst": None,
         "members": [{"m": {"x": {"list": []}}}, {"m": {"x": {"list": []}}}]}),
    "dict_unequal_keys_refuted": ("C15-dict-unequal-keys",
        {"kind": "states", "W": 2, "group": [0, 1], "dst": None,
         "members": [{"m": {"x": {"dict": [["a", sc32(1)]]}}},
                     {"m": {"x": {"dict": [["b", sc32(10)], ["c", sc32(20)]]}}}]}),
    "subgroup_root_refuted": ("C15-subgroup-bcast-root",
        {"kind": "states", "W": 3, "group": [1, 2], "dst": None,
         "members": [{"m": {"x": {"list": []}}}, {"m": {"x": {"list": [t32(5, 6)]}}}]}),
    "subgroup_dst_refuted": ("C15-subgroup-dst-rank",
        {"kind": "send", "W": 3, "group": [1, 2], "dst": 1, "members": [t32(1, 2), t32(3, 4, 5)]}),
}


# ------------------------------------------------------------------------------ the check
def tie_stream(ctx, name, gen, count, model_name):
    s = ctx.stream(name)
    scns = [gen(ctx.rng) for _ in range(count)]
    cases = [su.model_case(x) for x in scns]
    outs = run_model(cases)
    first_bad = None
    reported = set()
    for k, (scn, mout) in enumerate(zip(scns, outs)):
        delays = None
        if k % 7 == 3:
            delays = {r: ctx.rng.choice([0, 0.0002, 0.0006]) for r in scn["group"]}
        iout, itr = su.run_sim(scn, delays=delays)
        s.traces += len(scn["group"])
        feat = features(scn)
        n = len(scn["group"])
        shapes = {tuple(t["shape"]) for t in scn["members"]} if scn["kind"] == "send" else set()
        s.case(repr(su.jsonable(scn)), n >= 2 and (len(shapes) > 1 or scn["kind"] == "states"),
               sample={"W": scn["W"], "group": scn["group"], "dst": scn["dst"], "kind": scn["kind"]})
        s.count(f"W={scn['W']}")
        s.count(f"n={n}")
        s.count("dst=" + ("None" if scn["dst"] is None else "rank"))
        s.count("group=" + ("world" if scn["group"] == list(range(scn["W"])) else ("shifted" if feat["shifted_group"] else "prefix")))
        if scn["kind"] == "send":
            s.count("dtype=" + scn["members"][0]["dtype"])
            s.count("ndim=%d" % len(scn["members"][0]["shape"]))
            if len({len(t["shape"]) for t in scn["members"]}) > 1:
                s.count("mixed-ndim")
            if len({t["dtype"] for t in scn["members"]}) > 1:
                s.count("mixed-dtype")
            s.count("zero-extent" if any(0 in t["shape"] for t in scn["members"]) else "no-zero-extent")
            s.count("fastpath-equal" if len(shapes) == 1 else "pad-trim")
        else:
            for key in ("list_all_empty", "list_some_empty", "dict_unequal_keys"):
                if feat[key]:
                    s.count(key)
        d = su.compare(scn, mout, iout, itr)
        if d and first_bad is None:
            first_bad = {"scenario": su.jsonable(scn), "disagreement": d}
            s.mismatches.append(first_bad)
        for fid, desc in classify(scn, iout):
            s.count("property-violated:" + (fid or "UNEXPLAINED"))
            if fid in reported:
                continue
            reported.add(fid)
            ctx.violation("failing-input", "synclib." + ("send_tensors" if scn["kind"] == "send" else "sync_states"),
                          {"check": "lossless", "scenario": su.jsonable(scn), "observed": desc,
                           "broken": "property:C15-lossless"}, finding_id=fid)
    nchk, dis = crosscheck_in_coq(cases, outs, ctx.prop + model_name, limit=ctx.n(30, 150))
    ctx.oblige(f"tie:extraction-vs-vm_compute:{model_name}", dis == 0,
               detail=f"{dis} of {nchk} sampled cases differ between extracted OCaml and in-Coq vm_compute")
    ctx.oblige(f"tie:trace:{model_name}", first_bad is None, detail=repr(core.canon(first_bad))[:1500] if first_bad else "")
    if first_bad:
        ctx.violation("failing-input", model_name, {"check": "model-vs-impl", **first_bad, "broken": f"tie:trace:{model_name}"})
    return scns


def witness_stream(ctx):
    """Replay the witnesses of the _refuted theorems on the real code."""
    s = ctx.stream("refuted-witness-replay")
    cases = [su.model_case(scn) for _, scn in WITNESSES.values()]
    outs = run_model(cases)
    for (thm, (fid, scn)), mout in zip(WITNESSES.items(), outs):
        iout, itr = su.run_sim(scn)
        s.traces += len(scn["group"])
        s.case(thm, True, sample={"theorem": thm})
        d = su.compare(scn, mout, iout, itr)
        ctx.oblige(f"tie:witness:{thm}", d is None, detail=d or "")
        if d:
            ctx.violation("failing-input", thm, {"check": "witness-model-vs-impl", "scenario": su.jsonable(scn),
                                                 "disagreement": d, "broken": f"tie:witness:{thm}"})
        bad = classify(scn, iout)
        s.count("still-fails" if bad else "no-longer-fails")
        if not bad:
            ctx.notes.append(f"stale finding {fid}: the witness of {thm} no longer fails on this tree (repaired); "
                             f"the theorem remains a statement about the V_code variant of the model")
        for f2, desc in bad[:1]:
            ctx.violation("failing-input", thm, {"check": "lossless", "scenario": su.jsonable(scn), "observed": desc,
                                                 "theorem": thm, "broken": "property:C15-lossless"}, finding_id=f2)


def uninitialised_stream(ctx):
    """torch.distributed not initialised: send_tensors returns [result]"""
    from torcheval.metrics import synclib
    s = ctx.stream("uninitialised process group: send_tensors(t) == [t]")
    ok = True
    for _ in range(ctx.n(20, 100)):
        spec = su.gen_tensor(ctx.rng, ctx.rng.choice(DT), ctx.rng.choice([0, 1, 2, 3, 4]))
        t = su.mk_tensor(spec)
        res = synclib.send_tensors(t)
        s.case(repr(su.jsonable(spec)), True)
        if not (isinstance(res, list) and len(res) == 1 and su.tval(res[0]) == su.tval(t)):
            ok = False
            ctx.violation("failing-input", "synclib.send_tensors", {"check": "uninitialised", "tensor": su.jsonable(spec),
                                                                    "broken": "property:C15-uninitialised-identity"})
            break
    ctx.oblige("property:C15-uninitialised-identity", ok)


def run(ctx):
    su.quiet()
    ctx.notes.append(su.variant_note())
    ctx.oblige("tie:variant-decided (" + su.variant_note() + ")", True)
    uninitialised_stream(ctx)
    tie_stream(ctx, "send_tensors: trace+result tie (checking transport)", gen_send, ctx.n(600, 4000), "sync_send")
    tie_stream(ctx, "sync_states: trace+result tie (checking transport)", gen_states, ctx.n(600, 4000), "sync_states")
    witness_stream(ctx)
    from .. import gloo_runner
    gloo_runner.gloo_stream(ctx, [gen_send, gen_states], classify=None)
