"""C10 (windowed classes) -- reset() and the ring-buffer cursor.

Since c5ceb09 every windowed class overrides reset() to rewind `next_inserted`; the faithful
models do the same (theorems window_reset_is_init*, window_reset_bisim_fresh*).  The directed
stream still classifies a disagreement by the old trigger, but the finding is `fixed` and
suppresses nothing: any disagreement is a VIOLATION."""
from .. import core, streams, winlib
from ..families import window as W

LEVEL_NOTE = ("C10/windows: reset() = constructor state on the faithful models (cursor rewound by the reset() override); "
              "tie = history correspondence with reset-heavy histories, merges included")
MIX = {"upd": 10, "compute": 6, "reset": 4, "new": 1, "clone": 1, "merge": 0.7}


def directed(ctx):
    s = ctx.stream("reset object vs fresh object under continuations (implementation only)")
    for e in W.ENTRIES:
        cfgs = e.configs(ctx.rng, ctx.quick)
        seen, ok = set(), True
        for h in range(ctx.n(40, 400)):
            cfg = cfgs[h % len(cfgs)]
            pre, cont = winlib.prefix_and_cont(ctx, e, cfg)
            a = e.make(cfg)
            for b in pre:
                e.update(a, cfg, b)
            trig = "cursor-nonzero-at-reset" if int(a.next_inserted) != 0 else None
            a.reset()
            d = winlib.continuation_differs(e, cfg, a, e.make(cfg), cont)
            s.case((e.name, repr(cfg), repr(pre), repr(cont)), len(pre) >= 1, sample={"class": e.name, "cfg": cfg, "pre": len(pre), "cont": len(cont)})
            s.count("class:" + e.name)
            if not d:
                continue
            s.count("disagreement:" + (trig or "unexplained"))
            if trig in seen:
                continue
            seen.add(trig)
            ok = False
            s.mismatches.append({"class": e.name, "trigger": trig})
            ctx.violation("failing-input", e.name,
                          {"check": "reset object vs fresh object", "class": e.name, "cfg": cfg,
                           "updates_before_reset": pre, "continuation": cont, "observed": d, "trigger": trig,
                           "broken": f"prop:reset-bisim:{e.name}"},
                          finding_id=winlib.match_finding(ctx.prop, e.name, trig))
        ctx.oblige(f"prop:reset-bisim:{e.name}", ok, detail="" if ok else "see failing inputs")


def run(ctx):
    streams.hist_corr(ctx, ents=W.ENTRIES, mix=MIX, name="history-correspondence (reset-heavy, windows)",
                      nhist=ctx.n(24, 200), nops=(6, 12, 20))
    directed(ctx)
