"""Core plumbing of the verification driver: paths, shell, Coq build, evidence, findings.

Everything here runs under /venv/bin/python with PYTHONPATH=/repo (set by ./check).
"""
from __future__ import annotations

import fcntl
import hashlib
import json
import os
import random
import re
import subprocess
import sys
import time
from dataclasses import dataclass, field
from pathlib import Path
from typing import Any, Callable

ROOT = Path(__file__).resolve().parent.parent
REPO = Path(os.environ.get("VERIF_REPO", "/repo"))
COQ = ROOT / "coq"
OCAML = ROOT / "ocaml"
OUT = ROOT / "out"
EVID = ROOT / "evidence"
CORPUS = ROOT / "corpus"
TMP = OUT / "tmp"
GUARD = "TORCHEVAL_VERIF"

FORBIDDEN = re.compile(
    r"\b(Admitted|admit|Axiom|Axioms|Parameter|Parameters|Conjecture|Conjectures|Hypothesis|"
    r"Variable|Variables|Hypotheses)\b|Unset\s+Guard|bypass_check|type-in-type|impredicative-set|"
    r"Unset\s+Universe\s+Checking|Unset\s+Positivity|Admit\s+Obligations|native_compute"
)
# Variable/Hypothesis are allowed inside Sections only; checked structurally in forbidden_scan().


def sh(cmd, timeout=600, cwd=None, env=None, input=None) -> subprocess.CompletedProcess:
    e = dict(os.environ)
    if env:
        e.update(env)
    try:
        return subprocess.run(cmd, shell=isinstance(cmd, str), cwd=cwd, env=e, input=input,
                              capture_output=True, text=True, timeout=timeout)
    except subprocess.TimeoutExpired as ex:
        return subprocess.CompletedProcess(cmd, 124, stdout=(ex.stdout or b"").decode(errors="replace")
                                           if isinstance(ex.stdout, bytes) else (ex.stdout or ""),
                                           stderr="TIMEOUT after %ss" % timeout)


def write_if_changed(path: Path, text: str) -> bool:
    path.parent.mkdir(parents=True, exist_ok=True)
    if path.exists() and path.read_text() == text:
        return False
    path.write_text(text)
    return True


class Lock:
    def __init__(self, name="build"):
        OUT.mkdir(exist_ok=True)
        self.path = OUT / (name + ".lock")

    def __enter__(self):
        self.f = open(self.path, "w")
        fcntl.flock(self.f, fcntl.LOCK_EX)
        return self

    def __exit__(self, *a):
        fcntl.flock(self.f, fcntl.LOCK_UN)
        self.f.close()


# --------------------------------------------------------------------------------------
# Coq build
# --------------------------------------------------------------------------------------

def coq_files() -> list[str]:
    fs = []
    for d in ["Base", "Algebra", "Models", "Proofs", "Generated", "Props", "Extract"]:
        for p in sorted((COQ / d).glob("*.v")):
            fs.append(f"{d}/{p.name}")
    return fs


def write_coqproject() -> None:
    txt = "-Q . TE\n" + "\n".join(coq_files()) + "\n"
    if write_if_changed(COQ / "_CoqProject", txt) or not (COQ / "Makefile").exists():
        sh("coq_makefile -f _CoqProject -o Makefile", cwd=COQ, timeout=120)


@dataclass
class BuildResult:
    ok: bool
    failed: dict[str, str]  # file -> error text
    log: str
    wall: float


def build(targets: list[str] | None = None, jobs: int = 16, timeout: int = 3000) -> BuildResult:
    """Full .vo build (make -k) of the Coq project; returns the files that failed."""
    t0 = time.time()
    with Lock("build"):
        write_coqproject()
        tg = " ".join(t.replace(".v", ".vo") for t in targets) if targets else ""
        r = sh(f"timeout {timeout} make -k -j{jobs} {tg} 2>&1", cwd=COQ, timeout=timeout + 60)
        log = r.stdout + r.stderr
        # the extracted model is rebuilt whenever Extract.vo was rebuilt
        failed: dict[str, str] = {}
        for m in re.finditer(r'File "\./([^"]+\.v)", line (\d+), characters [^\n]*\n((?:(?!File ").*\n?){0,12})', log):
            f, line, msg = m.group(1), m.group(2), m.group(3)
            if "Error" in msg or "error" in msg:
                failed.setdefault(f, f"line {line}: " + msg.strip()[:600])
        want = targets if targets else coq_files()
        for f in want:
            vo = COQ / f.replace(".v", ".vo")
            src = COQ / f
            if not vo.exists() or vo.stat().st_mtime < src.stat().st_mtime:
                failed.setdefault(f, "not built (dependency failed or timeout)")
        if "Extract/Extract.v" not in failed:
            build_ocaml()
    return BuildResult(ok=(not failed), failed=failed, log=log[-20000:], wall=time.time() - t0)


def build_ocaml() -> None:
    ml = OCAML / "model.ml"
    exe = OCAML / "model_run"
    drv = OCAML / "driver.ml"
    if not ml.exists():
        return
    if exe.exists() and exe.stat().st_mtime >= max(ml.stat().st_mtime, drv.stat().st_mtime):
        return
    r = sh("ocamlfind ocamlopt -O2 -package zarith -linkpkg -w -a model.mli model.ml driver.ml -o model_run 2>&1 || "
           "ocamlfind ocamlopt -package zarith -linkpkg -w -a model.mli model.ml driver.ml -o model_run",
           cwd=OCAML, timeout=600)
    if r.returncode != 0:
        raise RuntimeError("ocaml build failed: " + r.stdout + r.stderr)


def theorems_in(relpath: str) -> list[str]:
    txt = (COQ / relpath).read_text()
    return re.findall(r"^\s*(?:Theorem|Corollary|Example)\s+([A-Za-z0-9_']+)", txt, re.M)


def theorem_spans(relpath: str) -> dict[str, tuple[int, int]]:
    """theorem name -> (first line, last line of its proof), 1-based."""
    lines = (COQ / relpath).read_text().splitlines()
    spans, cur, start = {}, None, 0
    for i, ln in enumerate(lines, 1):
        m = re.match(r"\s*(?:Theorem|Corollary|Example)\s+([A-Za-z0-9_']+)", ln)
        if m:
            cur, start = m.group(1), i
        if cur and re.search(r"\b(Qed|Defined)\.", ln):
            spans[cur] = (start, i)
            cur = None
    return spans


def assumptions_of(relpath: str) -> dict[str, str]:
    """Re-compile a Props file on its own and capture its Print Assumptions output."""
    r = sh(f"timeout 600 coqc -Q . TE {relpath}", cwd=COQ, timeout=660)
    out = r.stdout + r.stderr
    res: dict[str, str] = {}
    names = re.findall(r"^\s*Print Assumptions\s+([A-Za-z0-9_'.]+)\.", (COQ / relpath).read_text(), re.M)
    chunks = re.split(r"(?m)^(?=Closed under the global context|Axioms:)", out)
    chunks = [c.strip() for c in chunks if c.strip().startswith(("Closed", "Axioms"))]
    for n, c in zip(names, chunks):
        res[n] = c
    if r.returncode != 0:
        res["__error__"] = out[-2000:]
    return res


def forbidden_scan() -> list[str]:
    """Structural scan of the whole development for escape hatches."""
    bad = []
    for f in coq_files():
        depth = 0
        txt = (COQ / f).read_text()
        # strip comments (non-nested approximation, then nested loop)
        prev = None
        while prev != txt:
            prev = txt
            txt = re.sub(r"\(\*(?:(?!\(\*|\*\)).)*\*\)", " ", txt, flags=re.S)
        for i, line in enumerate(txt.splitlines(), 1):
            if re.match(r"\s*Section\b", line):
                depth += 1
            if re.match(r"\s*End\b", line) and depth > 0:
                depth -= 1
            for m in FORBIDDEN.finditer(line):
                w = m.group(0)
                if w.split()[0] in ("Variable", "Variables", "Hypothesis", "Hypotheses") and depth > 0:
                    continue
                bad.append(f"{f}:{i}: {w}")
    return bad


# --------------------------------------------------------------------------------------
# Findings
# --------------------------------------------------------------------------------------

def load_findings() -> list[dict]:
    p = ROOT / "known_findings.json"
    if not p.exists():
        return []
    return json.loads(p.read_text())


# --------------------------------------------------------------------------------------
# Check context
# --------------------------------------------------------------------------------------

@dataclass
class Stream:
    name: str
    evaluations: int = 0
    nontrivial: set = field(default_factory=set)
    mismatches: list = field(default_factory=list)   # dicts (already shrunk where possible)
    dist: dict = field(default_factory=dict)
    samples: list = field(default_factory=list)
    traces: int = 0
    exhaustive: bool = False
    note: str = ""

    def count(self, key, n=1):
        self.dist[key] = self.dist.get(key, 0) + n

    def case(self, key: Any, nontrivial: bool, sample: Any = None):
        self.evaluations += 1
        if nontrivial:
            self.nontrivial.add(hashlib.sha1(repr(key).encode()).hexdigest()[:16])
        if sample is not None and len(self.samples) < 3:
            self.samples.append(sample)


@dataclass
class Violation:
    prop: str
    kind: str            # "failing-input" | "no-failing-input-found"
    target: str
    detail: dict
    finding_id: str | None = None   # attributed known finding, if any


class Ctx:
    def __init__(self, prop: str, tier: str, seed: int):
        self.prop, self.tier, self.seed = prop, tier, seed
        self.rng = random.Random(seed * 1000003 + int(hashlib.sha1(prop.encode()).hexdigest()[:6], 16))
        self.t0 = time.time()
        self.streams: list[Stream] = []
        self.obligations: list[dict] = []   # {name, file, ok, detail}
        self.violations: list[Violation] = []
        self.known: list[str] = []
        self.assumptions: dict[str, str] = {}
        self.notes: list[str] = []
        self.quick = tier == "quick"

    def stream(self, name) -> Stream:
        s = Stream(name)
        self.streams.append(s)
        return s

    def oblige(self, name: str, ok: bool, file: str = "", detail: str = ""):
        self.obligations.append({"name": name, "file": file, "ok": bool(ok), "detail": detail[:500]})

    def violation(self, kind, target, detail, finding_id=None):
        self.violations.append(Violation(self.prop, kind, target, detail, finding_id))

    def n(self, quick: int, thorough: int) -> int:
        return quick if self.quick else thorough


def canon(o):
    """JSON-able canonical form."""
    from fractions import Fraction
    if isinstance(o, Fraction):
        return f"{o.numerator}/{o.denominator}" if o.denominator != 1 else o.numerator
    if isinstance(o, (list, tuple)):
        return [canon(x) for x in o]
    if isinstance(o, dict):
        return {str(k): canon(v) for k, v in o.items()}
    if isinstance(o, (int, float, str, bool)) or o is None:
        return o
    try:
        import torch
        if isinstance(o, torch.Tensor):
            return {"tensor": o.tolist(), "dtype": str(o.dtype).replace("torch.", "")}
    except Exception:
        pass
    return repr(o)


def write_replay(prop: str, payload: dict) -> Path:
    d = OUT / prop
    d.mkdir(parents=True, exist_ok=True)
    txt = json.dumps(canon(payload), indent=1, sort_keys=True)
    h = hashlib.sha1(txt.encode()).hexdigest()[:10]
    p = d / f"replay-{h}.json"
    p.write_text(txt)
    return p


def match_finding(prop: str, cls: str, msg: str = "", **extra) -> str | None:
    """Attribute a located failure to a known finding: the entry's pattern must name the class and,
    where given, a substring of the failure message and exact values of extra keys."""
    for f in load_findings():
        if f.get("property") != prop or f.get("status") != "known":
            continue
        pat = f.get("pattern", {})
        if cls not in pat.get("classes", []):
            continue
        if pat.get("contains") and not any(c in msg for c in ([pat["contains"]] if isinstance(pat["contains"], str) else pat["contains"])):
            continue
        ok = True
        for k, v in pat.get("where", {}).items():
            if extra.get(k) not in (v if isinstance(v, list) else [v]):
                ok = False
        if ok:
            return f["id"]
    return None
