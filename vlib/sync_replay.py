"""Replay of a C15 / C02 scenario (a replay file written by ./check, or the "replay" entry of a known
finding) against the real code in /repo on the checking transport.

    PYTHONPATH=/repo:<clone> /venv/bin/python -m vlib.sync_replay <file.json> [--gloo]

Prints every member's outcome and collective trace, the extracted model's prediction, and whether the
property (C15: lossless / correctly addressed; C02: result == local merge) holds.  Exit status 1 when
the property is violated or model and code disagree, 0 otherwise.
`replay(payload) -> int` is the entry point a common vlib/replay.py can dispatch to for kinds
send / states / toolkit."""
from __future__ import annotations
import json
import sys


def replay(payload: dict, gloo: bool = False) -> int:
    from . import syncutil as su
    from .model import run_model, enc
    su.quiet()
    scn = payload.get("scenario", payload.get("replay", payload))
    if scn.get("kind") not in ("send", "states", "toolkit"):
        print("not a sync scenario")
        return 2
    if scn["kind"] == "toolkit":
        from .parts import C02_sync as part
        cmp = su.compare_toolkit
    else:
        from .parts import C15_sync as part
        cmp = su.compare
    mout = run_model([su.model_case(scn)])[0]
    iout, itr = su.run_sim(scn)
    for r in scn["group"]:
        o = iout[r]
        print(f"global rank {r}: {o[0]}", (enc(o[1]) if o[0] == "ok" else o[1:]))
        print("   trace:", [enc(su.desc_val(d)) for d in itr[r]])
    print("model:", enc(mout)[:2000])
    d = cmp(scn, mout, iout, itr)
    print("model vs code:", d or "agree")
    bad = part.classify(scn, iout)
    for fid, desc in bad:
        print(f"PROPERTY VIOLATED ({fid or 'no known finding'}): {desc}")
    if not bad:
        print("property holds on this scenario")
    if gloo:
        from . import gloo_runner
        res = gloo_runner.launch([scn], scn["W"], timeout=60)[0]
        for r in scn["group"]:
            print(f"gloo rank {r}:", res[r]["out"], res[r]["trace"])
    return 1 if (bad or d) else 0


def main(argv):
    payload = json.loads(open(argv[0]).read())
    return replay(payload, gloo="--gloo" in argv)


if __name__ == "__main__":
    sys.exit(main(sys.argv[1:]))
