"""Run jobs in forked worker processes so that a crash (segfault, abort) or hang of the code under
test is recorded as an outcome instead of killing the check."""
from __future__ import annotations
import multiprocessing as mp
import os
import pickle
import time
import traceback

_ctx = mp.get_context("fork")


def _child(fn, arg, conn):
    try:
        import torch
        torch.set_num_threads(1)
        r = ("ok", fn(arg))
    except BaseException:  # noqa
        r = ("exc", traceback.format_exc()[-2000:])
    try:
        conn.send_bytes(pickle.dumps(r))
    except Exception:
        try:
            conn.send_bytes(pickle.dumps(("exc", "unpicklable result")))
        except Exception:
            pass
    conn.close()
    os._exit(0)


def run_jobs(fn, args: list, timeout: float = 300, workers: int = 8):
    """[(status, value)] in order; status in ok | exc | crash | timeout."""
    results = [None] * len(args)
    pending = list(range(len(args)))
    running = {}
    while pending or running:
        while pending and len(running) < workers:
            i = pending.pop(0)
            pc, cc = _ctx.Pipe(duplex=False)
            p = _ctx.Process(target=_child, args=(fn, args[i], cc))
            p.start()
            cc.close()
            running[i] = (p, pc, time.time())
        time.sleep(0.005)
        for i, (p, pc, t0) in list(running.items()):
            if pc.poll():
                try:
                    results[i] = pickle.loads(pc.recv_bytes())
                except Exception:
                    results[i] = ("crash", "no result")
                p.join(5)
                del running[i]
            elif not p.is_alive():
                p.join()
                if pc.poll():
                    try:
                        results[i] = pickle.loads(pc.recv_bytes())
                    except Exception:
                        results[i] = ("crash", f"exit code {p.exitcode}")
                else:
                    results[i] = ("crash", f"worker died with exit code {p.exitcode} (signal {-p.exitcode if p.exitcode and p.exitcode < 0 else 0})")
                del running[i]
            elif time.time() - t0 > timeout:
                p.kill()
                p.join()
                results[i] = ("timeout", f"no result after {timeout}s")
                del running[i]
    return results
