"""Direct, implementation-only statements of the properties (DESIGN 3.7): two executions of the
real code compared with each other.  Used as the property-directed search that yields the failing
input; never stands in for a theorem."""
from __future__ import annotations
import copy
from .compare import close, impl_val, state_val
from .model import T


def safe_compute(e, m):
    try:
        return e.out_val(m.compute())
    except Exception as ex:  # noqa
        return T("err")


# ---- merge trees (C01) --------------------------------------------------------------------
def gen_tree(rng, e, cfg, depth=2, maxb=3, maxn=6):
    """('shard', [batches]) | ('merge', tree, [trees], [post batches])"""
    def batches(k):
        out = [e.gen_batch(rng, cfg, max(e.min_batch, rng.choice([1, 1, 2, 3, maxn]))) for _ in range(k)]
        if e.name in NONFINITE_OK and type(e).update is type(e).__mro__[-2].update:
            for b in out:
                if isinstance(b, dict) and rng.random() < 0.12:
                    b["_nonfinite"] = (rng.randrange(64), rng.choice(["nan", "inf", "-inf"]))
        return out
    if depth == 0 or rng.random() < 0.35:
        return ("shard", batches(rng.choice([0, 1, 1, 2, maxb])))
    return ("merge", gen_tree(rng, e, cfg, depth - 1, maxb, maxn),
            [gen_tree(rng, e, cfg, depth - 1, maxb, maxn) for _ in range(rng.choice([0, 1, 1, 2, 3]))],
            batches(rng.choice([0, 0, 1, 2])), rng.choice(["list", "tuple", "gen"]))


def tree_stream(t):
    if t[0] == "shard":
        return list(t[1])
    out = tree_stream(t[1])
    for o in t[2]:
        out += tree_stream(o)
    return out + list(t[3])


NONFINITE_OK = {"Max", "Min", "Mean", "Sum", "Cat", "MeanSquaredError"}      # classes that accept nan / inf data and whose result is well defined then


def upd(e, m, cfg, b):
    """e.update, except that a batch tagged {"_nonfinite": (k, value)} has element k of its first floating tensor
    argument replaced by nan / inf / -inf (the same poisoned batch goes to the merge tree and to the single instance)"""
    tag = b.get("_nonfinite") if isinstance(b, dict) else None
    if tag is None:
        return e.update(m, cfg, b)
    import torch
    a, k = e.args(cfg, {x: y for x, y in b.items() if x != "_nonfinite"})
    a = list(a)
    for i, x in enumerate(a):
        if isinstance(x, torch.Tensor) and x.is_floating_point() and x.numel() > 0:
            x = x.clone()
            x.view(-1)[tag[0] % x.numel()] = float(tag[1])
            a[i] = x
            break
    return m.update(*a, **k)


def run_tree(e, cfg, t):
    if t[0] == "shard":
        m = e.make(cfg)
        for b in t[1]:
            upd(e, m, cfg, b)
        return m
    m = run_tree(e, cfg, t[1])
    src = [run_tree(e, cfg, o) for o in t[2]]
    form = t[4] if len(t) > 4 else "list"
    m.merge_state(src if form == "list" else tuple(src) if form == "tuple" else (x for x in src))
    for b in t[3]:
        upd(e, m, cfg, b)
    return m


def tree_vs_single(e, cfg, t):
    """compute() of the merge tree vs compute() of one instance fed the in-order stream."""
    a = safe_compute(e, run_tree(e, cfg, t))
    single = e.make(cfg)
    for b in tree_stream(t):
        upd(e, single, cfg, b)
    b_ = safe_compute(e, single)
    if isinstance(a, T) and a.tag == "err" and isinstance(b_, T) and b_.tag == "err":
        return None
    return close(b_, a, e.tol)


def tree_size(t):
    if t[0] == "shard":
        return 1
    return 1 + tree_size(t[1]) + sum(tree_size(o) for o in t[2])


def shrink_tree(e, cfg, t, fails, budget=120):
    """Greedy structural shrinking of a failing merge tree."""
    def variants(t):
        if t[0] == "shard":
            for k in range(len(t[1])):
                yield ("shard", t[1][:k] + t[1][k + 1:])
            return
        yield t[1]
        for o in t[2]:
            yield o
        for k in range(len(t[2])):
            yield ("merge", t[1], t[2][:k] + t[2][k + 1:], t[3], "list")
        for k in range(len(t[3])):
            yield ("merge", t[1], t[2], t[3][:k] + t[3][k + 1:], t[4] if len(t) > 4 else "list")
        for v in variants(t[1]):
            yield ("merge", v, t[2], t[3], t[4] if len(t) > 4 else "list")
        for k, o in enumerate(t[2]):
            for v in variants(o):
                yield ("merge", t[1], t[2][:k] + [v] + t[2][k + 1:], t[3], t[4] if len(t) > 4 else "list")
        if len(t) > 4 and t[4] != "list":
            yield ("merge", t[1], t[2], t[3], "list")
    changed = True
    while changed and budget > 0:
        changed = False
        for v in variants(t):
            budget -= 1
            if budget <= 0:
                break
            try:
                if fails(v):
                    t = v
                    changed = True
                    break
            except Exception:
                pass
    return t
