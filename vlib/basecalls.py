"""A minimal valid construction + update call for EVERY metric class (independent of the family
entries): used by the class-generic streams (C19 accumulator kinds, C09/C10/C11 generic round
trips) so that they cover all classes even where no value-level model exists."""
from __future__ import annotations
import torch
from torcheval import metrics as M
from torcheval.metrics.statistical import Wasserstein1D

T = torch.tensor


def _fad():
    torch.manual_seed(0)
    lin = torch.nn.Linear(4, 3)
    return dict(preproc=lambda x: x, model=lin, embedding_dim=3)


def _rng_t(rng, shape, lo=0, hi=8, den=8, dtype=torch.float32):
    n = 1
    for s in shape:
        n *= s
    return torch.tensor([rng.randint(lo, hi) / den for _ in range(n)], dtype=dtype).reshape(shape)


def _rng_i(rng, shape, hi):
    n = 1
    for s in shape:
        n *= s
    return torch.tensor([rng.randrange(hi) for _ in range(n)], dtype=torch.int64).reshape(shape)


# name -> list of (ctor kwargs, call(rng, n) -> (args, kwargs))
def table():
    t = {}

    def add(name, kw, call, cls=None):
        t.setdefault(name, []).append((kw, call, cls or getattr(M, name, None) or Wasserstein1D))

    for nm in ("Mean", "Sum"):
        add(nm, {}, lambda r, n: ((_rng_t(r, (n,), -8, 8, 4, torch.float64),), {}))
        add(nm, {}, lambda r, n: ((_rng_t(r, (n,), -8, 8, 4, torch.float64),), {"weight": _rng_t(r, (n,), 1, 4, 2, torch.float64)}))
    for nm in ("Max", "Min"):
        add(nm, {}, lambda r, n: ((_rng_t(r, (n,), -8, 8, 4),), {}))
    # float64 data into classes whose registered defaults are float32 (the live dtype drifts from the default)
    for nm in ("Max", "Min"):
        add(nm, {}, lambda r, n: ((_rng_t(r, (n,), -8, 8, 4, torch.float64),), {}))
    add("MeanSquaredError", {"multioutput": "raw_values"}, lambda r, n: ((_rng_t(r, (n, 2), -8, 8, 4, torch.float64), _rng_t(r, (n, 2), -8, 8, 4, torch.float64)), {}))
    add("R2Score", {"multioutput": "raw_values"}, lambda r, n: ((_rng_t(r, (max(n, 2), 2), -8, 8, 4, torch.float64), _rng_t(r, (max(n, 2), 2), -8, 8, 4, torch.float64)), {}))
    add("PeakSignalNoiseRatio", {}, lambda r, n: ((_rng_t(r, (n, 2, 2), 0, 8, 8, torch.float64), _rng_t(r, (n, 2, 2), 0, 8, 8, torch.float64)), {}))
    add("Cat", {}, lambda r, n: ((_rng_t(r, (n,)),), {}))
    add("Throughput", {}, lambda r, n: ((n, 0.5),), ) if False else add("Throughput", {}, lambda r, n: ((n, 0.5), {}))
    add("AUC", {}, lambda r, n: ((_rng_t(r, (max(n, 2),)), _rng_t(r, (max(n, 2),))), {}))
    add("AUC", {"reorder": False, "n_tasks": 2}, lambda r, n: ((_rng_t(r, (2, max(n, 2))), _rng_t(r, (2, max(n, 2)))), {}))
    add("Covariance", {}, lambda r, n: ((_rng_t(r, (max(n, 2), 2), -8, 8, 4),), {}))
    add("BinaryAccuracy", {}, lambda r, n: ((_rng_t(r, (n,)), _rng_i(r, (n,), 2)), {}))
    add("MulticlassAccuracy", {}, lambda r, n: ((_rng_i(r, (n,), 3), _rng_i(r, (n,), 3)), {}))
    add("MulticlassAccuracy", {"average": "macro", "num_classes": 3}, lambda r, n: ((_rng_t(r, (n, 3)), _rng_i(r, (n,), 3)), {}))
    add("MulticlassAccuracy", {"average": None, "num_classes": 3, "k": 2}, lambda r, n: ((_rng_t(r, (n, 3)), _rng_i(r, (n,), 3)), {}))
    add("MultilabelAccuracy", {}, lambda r, n: ((_rng_t(r, (n, 3)), _rng_i(r, (n, 3), 2)), {}))
    add("MultilabelAccuracy", {"criteria": "hamming"}, lambda r, n: ((_rng_t(r, (n, 3)), _rng_i(r, (n, 3), 2)), {}))
    add("TopKMultilabelAccuracy", {"k": 2}, lambda r, n: ((_rng_t(r, (n, 4)), _rng_i(r, (n, 4), 2)), {}))
    for nm in ("BinaryPrecision", "BinaryRecall", "BinaryF1Score"):
        add(nm, {}, lambda r, n: ((_rng_t(r, (n,)), _rng_i(r, (n,), 2)), {}))
    for nm in ("MulticlassPrecision", "MulticlassRecall", "MulticlassF1Score"):
        add(nm, {}, lambda r, n: ((_rng_i(r, (n,), 3), _rng_i(r, (n,), 3)), {}))
        add(nm, {"num_classes": 3, "average": "macro"}, lambda r, n: ((_rng_t(r, (n, 3)), _rng_i(r, (n,), 3)), {}))
        add(nm, {"num_classes": 3, "average": None}, lambda r, n: ((_rng_t(r, (n, 3)), _rng_i(r, (n,), 3)), {}))
    add("BinaryConfusionMatrix", {}, lambda r, n: ((_rng_t(r, (n,)), _rng_i(r, (n,), 2)), {}))
    add("MulticlassConfusionMatrix", {"num_classes": 3}, lambda r, n: ((_rng_i(r, (n,), 3), _rng_i(r, (n,), 3)), {}))
    add("BinaryAUROC", {}, lambda r, n: ((_rng_t(r, (n,)), _rng_i(r, (n,), 2)), {}))
    add("BinaryAUROC", {"num_tasks": 2}, lambda r, n: ((_rng_t(r, (2, n)), _rng_i(r, (2, n), 2)), {"weight": _rng_t(r, (2, n), 1, 4, 2, torch.float64)}))
    add("MulticlassAUROC", {"num_classes": 3}, lambda r, n: ((_rng_t(r, (n, 3)), _rng_i(r, (n,), 3)), {}))
    add("BinaryAUPRC", {}, lambda r, n: ((_rng_t(r, (n,)), _rng_i(r, (n,), 2)), {}))
    add("BinaryAUPRC", {"num_tasks": 2}, lambda r, n: ((_rng_t(r, (2, n)), _rng_i(r, (2, n), 2)), {}))
    add("MulticlassAUPRC", {"num_classes": 3}, lambda r, n: ((_rng_t(r, (n, 3)), _rng_i(r, (n,), 3)), {}))
    add("MultilabelAUPRC", {"num_labels": 3}, lambda r, n: ((_rng_t(r, (n, 3)), _rng_i(r, (n, 3), 2)), {}))
    add("BinaryPrecisionRecallCurve", {}, lambda r, n: ((_rng_t(r, (n,)), _rng_i(r, (n,), 2)), {}))
    add("MulticlassPrecisionRecallCurve", {"num_classes": 3}, lambda r, n: ((_rng_t(r, (n, 3)), _rng_i(r, (n,), 3)), {}))
    add("MultilabelPrecisionRecallCurve", {"num_labels": 3}, lambda r, n: ((_rng_t(r, (n, 3)), _rng_i(r, (n, 3), 2)), {}))
    add("BinaryRecallAtFixedPrecision", {"min_precision": 0.5}, lambda r, n: ((_rng_t(r, (n,)), _rng_i(r, (n,), 2)), {}))
    add("MultilabelRecallAtFixedPrecision", {"num_labels": 3, "min_precision": 0.5}, lambda r, n: ((_rng_t(r, (n, 3)), _rng_i(r, (n, 3), 2)), {}))
    add("BinaryBinnedAUROC", {"threshold": 5}, lambda r, n: ((_rng_t(r, (n,)), _rng_i(r, (n,), 2)), {}))
    add("BinaryBinnedAUROC", {"threshold": 5, "num_tasks": 2}, lambda r, n: ((_rng_t(r, (2, n)), _rng_i(r, (2, n), 2)), {}))
    add("MulticlassBinnedAUROC", {"num_classes": 3, "threshold": 5}, lambda r, n: ((_rng_t(r, (n, 3)), _rng_i(r, (n,), 3)), {}))
    add("BinaryBinnedPrecisionRecallCurve", {"threshold": 5}, lambda r, n: ((_rng_t(r, (n,)), _rng_i(r, (n,), 2)), {}))
    for opt in ("vectorized", "memory"):
        add("MulticlassBinnedPrecisionRecallCurve", {"num_classes": 3, "threshold": 5, "optimization": opt}, lambda r, n: ((_rng_t(r, (n, 3)), _rng_i(r, (n,), 3)), {}))
        add("MultilabelBinnedPrecisionRecallCurve", {"num_labels": 3, "threshold": 5, "optimization": opt}, lambda r, n: ((_rng_t(r, (n, 3)), _rng_i(r, (n, 3), 2)), {}))
        add("MulticlassBinnedAUPRC", {"num_classes": 3, "threshold": 5, "optimization": opt}, lambda r, n: ((_rng_t(r, (n, 3)), _rng_i(r, (n,), 3)), {}))
        add("MultilabelBinnedAUPRC", {"num_labels": 3, "threshold": 5, "optimization": opt}, lambda r, n: ((_rng_t(r, (n, 3)), _rng_i(r, (n, 3), 2)), {}))
    add("BinaryBinnedAUPRC", {"threshold": 5}, lambda r, n: ((_rng_t(r, (n,)), _rng_i(r, (n,), 2)), {}))
    add("BinaryBinnedAUPRC", {"threshold": 5, "num_tasks": 2}, lambda r, n: ((_rng_t(r, (2, n)), _rng_i(r, (2, n), 2)), {}))
    add("BinaryNormalizedEntropy", {}, lambda r, n: ((_rng_t(r, (n,), 1, 7, 8, torch.float64), _rng_i(r, (n,), 2).double()), {}))
    add("BinaryNormalizedEntropy", {"num_tasks": 2}, lambda r, n: ((_rng_t(r, (2, n), 1, 7, 8, torch.float64), _rng_i(r, (2, n), 2).double()), {"weight": _rng_t(r, (2, n), 1, 4, 2, torch.float64)}))
    add("ClickThroughRate", {}, lambda r, n: ((_rng_i(r, (n,), 2),), {}))
    add("ClickThroughRate", {"num_tasks": 2}, lambda r, n: ((_rng_i(r, (2, n), 2),), {"weights": _rng_t(r, (2, n), 1, 4, 2)}))
    add("WeightedCalibration", {}, lambda r, n: ((_rng_t(r, (n,), 1, 8), _rng_i(r, (n,), 2).float()), {}))
    add("WeightedCalibration", {"num_tasks": 2}, lambda r, n: ((_rng_t(r, (2, n), 1, 8), _rng_i(r, (2, n), 2).float()), {"weight": _rng_t(r, (2, n), 1, 4, 2)}))
    add("HitRate", {"k": 2}, lambda r, n: ((_rng_t(r, (n, 4)), _rng_i(r, (n,), 4)), {}))
    add("ReciprocalRank", {}, lambda r, n: ((_rng_t(r, (n, 4)), _rng_i(r, (n,), 4)), {}))
    add("RetrievalPrecision", {"k": 2}, lambda r, n: ((_rng_t(r, (n,), 0, 64, 64), _rng_i(r, (n,), 2)), {}))
    add("RetrievalRecall", {"k": 2}, lambda r, n: ((_rng_t(r, (n,), 0, 64, 64), _rng_i(r, (n,), 2)), {}))
    add("RetrievalPrecision", {"k": 2, "num_queries": 2, "avg": "macro"}, lambda r, n: ((_rng_t(r, (n,), 0, 64, 64), _rng_i(r, (n,), 2)), {"indexes": _rng_i(r, (n,), 2)}))
    add("MeanSquaredError", {}, lambda r, n: ((_rng_t(r, (n,), -8, 8, 4), _rng_t(r, (n,), -8, 8, 4)), {}))
    add("MeanSquaredError", {"multioutput": "raw_values"}, lambda r, n: ((_rng_t(r, (n, 2), -8, 8, 4), _rng_t(r, (n, 2), -8, 8, 4)), {"sample_weight": _rng_t(r, (n,), 1, 4, 2)}))
    add("R2Score", {}, lambda r, n: ((_rng_t(r, (max(n, 2),), -8, 8, 4), _rng_t(r, (max(n, 2),), -8, 8, 4)), {}))
    add("R2Score", {"multioutput": "raw_values"}, lambda r, n: ((_rng_t(r, (max(n, 2), 2), -8, 8, 4), _rng_t(r, (max(n, 2), 2), -8, 8, 4)), {}))
    add("PeakSignalNoiseRatio", {}, lambda r, n: ((_rng_t(r, (n, 2, 2)), _rng_t(r, (n, 2, 2))), {}))
    add("PeakSignalNoiseRatio", {"data_range": 1.0}, lambda r, n: ((_rng_t(r, (n, 2, 2)), _rng_t(r, (n, 2, 2))), {}))
    add("Perplexity", {}, lambda r, n: ((_rng_t(r, (1, n, 3), -8, 8, 4), _rng_i(r, (1, n), 3)), {}))
    add("Perplexity", {"ignore_index": 0}, lambda r, n: ((_rng_t(r, (1, n, 3), -8, 8, 4), _rng_i(r, (1, n), 3)), {}))
    words = ["a", "b", "c", "d"]

    def sent(r, n):
        return " ".join(r.choice(words) for _ in range(max(1, n)))
    for nm in ("WordErrorRate", "WordInformationLost", "WordInformationPreserved"):
        add(nm, {}, lambda r, n: (([sent(r, n), sent(r, n)], [sent(r, n), sent(r, n + 1)]), {}))
    add("BLEUScore", {"n_gram": 2}, lambda r, n: (([sent(r, n + 2)], [[sent(r, n + 2), sent(r, n + 3)]]), {}))
    add("Wasserstein1D", {}, lambda r, n: ((_rng_t(r, (n,)), _rng_t(r, (n + 1,))), {}))
    add("Wasserstein1D", {}, lambda r, n: ((_rng_t(r, (n,)), _rng_t(r, (n,)), _rng_t(r, (n,), 1, 4, 2), _rng_t(r, (n,), 1, 4, 2)), {}))
    add("FrechetAudioDistance", "FAD", lambda r, n: ((_rng_t(r, (max(n, 2), 4), -8, 8, 4), _rng_t(r, (max(n, 2), 4), -8, 8, 4)), {}))
    add("WindowedBinaryAUROC", {"max_num_samples": 5}, lambda r, n: ((_rng_t(r, (n,), 1, 8), _rng_i(r, (n,), 2)), {}))
    add("WindowedBinaryAUROC", {"max_num_samples": 4, "num_tasks": 2}, lambda r, n: ((_rng_t(r, (2, n), 1, 8), _rng_i(r, (2, n), 2)), {}))
    for lt in (True, False):
        add("WindowedClickThroughRate", {"max_num_updates": 3, "enable_lifetime": lt}, lambda r, n: ((_rng_i(r, (n,), 2),), {}))
        add("WindowedWeightedCalibration", {"max_num_updates": 3, "enable_lifetime": lt}, lambda r, n: ((_rng_t(r, (n,), 1, 8), _rng_i(r, (n,), 2).float()), {}))
        add("WindowedMeanSquaredError", {"max_num_updates": 3, "enable_lifetime": lt}, lambda r, n: ((_rng_t(r, (n,), -8, 8, 4), _rng_t(r, (n,), -8, 8, 4)), {}))
        add("WindowedBinaryNormalizedEntropy", {"max_num_updates": 3, "enable_lifetime": lt}, lambda r, n: ((_rng_t(r, (n,), 1, 7, 8, torch.float64), _rng_i(r, (n,), 2).double()), {}))
    add("WindowedClickThroughRate", {"max_num_updates": 2, "num_tasks": 2}, lambda r, n: ((_rng_i(r, (2, n), 2),), {}))
    return t


def make(name, kw, cls):
    if kw == "FAD":
        return cls(**_fad())
    return cls(**kw)


def all_cases():
    """[(label, name, kwargs, call, cls)]"""
    out = []
    for name, lst in sorted(table().items()):
        for k, (kw, call, cls) in enumerate(lst):
            out.append((f"{name}#{k}", name, kw, call, cls))
    return out
