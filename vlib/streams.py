"""Reusable correspondence streams (T-co).  Property modules call these with their entries."""
from __future__ import annotations
from . import core, history, generic, variation
from .catalogue import entries
from .compare import close, impl_val
from .model import run_model, crosscheck_in_coq, T


SPEC_PROPS = {"C04", "C05", "C06", "C07", "C08"}


def hist_corr(ctx, ents=None, mix=None, name="history-correspondence", nhist=None, nops=(4, 8, 14), maxn=8, variant=None, sizes=None):
    """Random operation histories: Coq pool model vs real classes, observation by observation
    (state after every op, compute results).  One tie obligation per class."""
    s = ctx.stream(name)
    cases, meta = [], []
    ents = [e for e in (ents if ents is not None else entries()) if e.model]
    for e in ents:
        cfgs = e.configs(ctx.rng, ctx.quick)
        per = nhist or ctx.n(12, 150)
        for h in range(per):
            cfg = cfgs[h % len(cfgs)]
            nobj = ctx.rng.choice([2, 3, 3, 4])
            ops = history.gen_history(ctx.rng, e, cfg, nobj=nobj, nops=ctx.rng.choice(list(nops)), mix=mix, maxn=maxn, sizes=sizes)
            cases.append(history.model_case(e, cfg, nobj, ops))
            meta.append((e, cfg, nobj, ops))
    outs = run_model(cases)
    bad = {}
    for (e, cfg, nobj, ops), mobs in zip(meta, outs):
        try:
            with variation.variant(variant):
                iobs = history.run_impl(e, cfg, nobj, ops)
            d = history.compare_obs(e, ops, mobs, iobs)
        except Exception as ex:  # the harness itself must not hide an implementation crash
            d = {"at": -1, "why": f"implementation raised outside update/compute: {type(ex).__name__}: {ex}"}
        kinds = {o[0] for o in ops}
        s.case((e.name, repr(cfg), repr(ops)), len(kinds) >= 3 and len(ops) >= 4,
               sample={"class": e.name, "cfg": cfg, "nobj": nobj, "ops": [list(o[:2]) for o in ops][:8]})
        s.count("class:" + e.name)
        for o in ops:
            s.count("op:" + o[0])
        if d and e.name not in bad:
            def fails(trial, e=e, cfg=cfg, nobj=nobj):
                try:
                    with variation.variant(variant):
                        return history.check_history(e, cfg, nobj, trial) is not None
                except Exception:
                    return True
            small = history.shrink_ops(ops, fails)
            small = history.shrink_batches(e, cfg, small, fails)
            try:
                with variation.variant(variant):
                    d2 = history.check_history(e, cfg, nobj, small) or d
            except Exception as ex:
                d2 = {"why": f"{type(ex).__name__}: {ex}"}
            if ctx.prop in SPEC_PROPS and isinstance(d2, dict) and d2.get("op") in ("upd", "merge") and isinstance(d2.get("at"), int) and d2["at"] >= 0:
                # a state disagreement: does the result disagree too?  (compute() right after the op)
                try:
                    ext = small[:d2["at"] + 1] + [("compute", small[d2["at"]][1])]
                    with variation.variant(variant):
                        io = history.run_impl(e, cfg, nobj, ext)[-1]
                    mo = run_model([history.model_case(e, cfg, nobj, ext)])[0][-1]
                    why = None if (isinstance(mo, T) and isinstance(io, T) and mo.tag == io.tag == "err") else close(mo, io, e.tol)
                    if why:
                        small, d2 = ext, {"at": len(ext) - 1, "op": "compute", "why": why, "state_disagreement": d2}
                except Exception:
                    pass
            bad[e.name] = {"class": e.name, "cfg": cfg, "nobj": nobj, "disagreement": d2, "ops": small}
            if variant:
                bad[e.name]["presentation"] = variant
            s.mismatches.append(bad[e.name])
    sfx = f"[{variant}]" if variant else ""
    if not variant:
        n, dis = crosscheck_in_coq(cases, outs, ctx.prop + "h", limit=ctx.n(40, 200))
        ctx.oblige(f"tie:extraction-vs-vm_compute:{name}", dis == 0,
                   detail=f"{dis} of {n} sampled cases differ between extracted OCaml and in-Coq vm_compute")
        s.dist["in_coq_crosschecked"] = n
    for e in ents:
        m = bad.get(e.name)
        ctx.oblige(f"tie:corr:{e.name}{sfx}", m is None, detail=repr(core.canon(m))[:1500] if m else "")
        d = (m or {}).get("disagreement") or {}
        if m is not None and ctx.prop in SPEC_PROPS and isinstance(d, dict) and d.get("op") == "compute":
            # the model's compute() is proved equal to the definition on the data its state summarises (Props/),
            # so a history after which the real compute() differs from the model's is a failing input
            ctx.violation("failing-input", e.name, {"check": "class_history_vs_model", **m, "presentation": variant or "base",
                                                   "broken": f"tie:corr:{e.name}{sfx}"},
                          finding_id=core.match_finding(ctx.prop, e.name, str(d)))
    return bad


def fn_corr(ctx, ents=None, name="functional-correspondence", ncases=None, gen=None, sizes=(1, 2, 3, 5, 8, 13, 40), variant=None, suffix=""):
    """Functional form on generated inputs vs the Coq functional model (algo) and, where the entry
    names one, the Coq spec model.  gen(rng, e, cfg) may override the batch generator."""
    s = ctx.stream(name)
    ents = [e for e in (ents if ents is not None else entries()) if e.fn_model and e.has_functional]
    cases, meta = [], []
    for e in ents:
        cfgs = e.configs(ctx.rng, ctx.quick)
        for k in range(ncases or ctx.n(40, 600)):
            cfg = cfgs[k % len(cfgs)]
            b = gen(ctx.rng, e, cfg) if gen else e.gen_batch(ctx.rng, cfg, max(e.min_batch, ctx.rng.choice(list(sizes))))
            cases.append((e.fn_model, [e.cfg_val(cfg), e.batch_val(cfg, b)]))
            meta.append((e, cfg, b, "algo"))
            sm = getattr(e, "spec_model", None)
            if sm:
                cases.append((sm, [e.cfg_val(cfg), e.batch_val(cfg, b)]))
                meta.append((e, cfg, b, "spec"))
    outs = run_model(cases)
    bad = {}
    last_algo = None
    for (e, cfg, b, kind), mo in zip(meta, outs):
        if kind == "algo":
            last_algo = mo
            try:
                with variation.variant(variant):
                    r = e.fn_val(e.functional(cfg, b))
            except Exception as ex:
                r = T("err")
            d = None if (isinstance(mo, T) and mo.tag in ("err", "none") and isinstance(r, T)) else close(mo, r, e.tol)
            if isinstance(mo, T) and mo.tag == "none":
                d = None   # functional value undefined (zero denominator): nothing to compare
            s.case((e.name, repr(cfg), repr(b)), e.size(b) >= 2, sample={"fn": e.name, "cfg": cfg, "batch": b})
            s.count("fn:" + e.name)
            s.count("size:%d" % min(e.size(b), 50))
            if d and e.name not in bad:
                bad[e.name] = {"function": e.name, "cfg": cfg, "disagreement": d, "batch": b}
                if variant:
                    bad[e.name]["presentation"] = variant
                s.mismatches.append(bad[e.name])
        else:
            d = close(mo, last_algo, 0) if not (isinstance(mo, T) and isinstance(last_algo, T) and mo.tag == last_algo.tag) else None
            if d and ("spec:" + e.name) not in bad:
                bad["spec:" + e.name] = {"function": e.name, "cfg": cfg, "batch": b, "algo_vs_spec": d}
    sfx = (f"[{variant}]" if variant else "") + suffix
    if not variant and not suffix:
        n, dis = crosscheck_in_coq(cases, outs, ctx.prop + "f", limit=ctx.n(40, 200))
        ctx.oblige(f"tie:extraction-vs-vm_compute:{name}", dis == 0,
                   detail=f"{dis} of {n} sampled cases differ between extracted OCaml and in-Coq vm_compute")
    for e in ents:
        m = bad.get(e.name)
        ctx.oblige(f"tie:fn:{e.name}{sfx}", m is None, detail=repr(core.canon(m))[:1500] if m else "")
        if m is not None and ctx.prop in SPEC_PROPS:
            # the model is proved equal to the definition (Props/), so an input on which the real
            # function differs from the model is an input on which it differs from the definition
            ctx.violation("failing-input", e.name, {"check": "fn_vs_model", "function": e.name, "cfg": m["cfg"], "batch": m["batch"],
                                                   "observed": m["disagreement"], "presentation": variant or "base",
                                                   "broken": f"tie:fn:{e.name}{sfx}"},
                          finding_id=core.match_finding(ctx.prop, e.name, str(m["disagreement"])))
        if getattr(e, "spec_model", None) and not variant and not suffix:
            m = bad.get("spec:" + e.name)
            ctx.oblige(f"model:algo=spec:{e.name}", m is None, detail=repr(core.canon(m))[:1500] if m else "")
    return bad


def presentation_variants(ctx, fn_ents=None, hist_ents=None, modes=None, ncases=None, nhist=None, **kw):
    """The same correspondence with the same numbers presented differently (float64 scores, narrow
    integer labels, non-contiguous views): vlib/variation.py.  One named stream per presentation."""
    modes = modes or (variation.QUICK_MODES if ctx.quick else variation.MODES)
    kw.setdefault("sizes", (1, 2, 3, 8, 40, 300))       # narrow integer dtypes wrap from 128 / 256 samples per call
    out = {}
    for mode in modes:
        before = dict(variation.STATS)
        if fn_ents:
            out[("fn", mode)] = fn_corr(ctx, ents=fn_ents, name=f"functional-correspondence [{mode}]", ncases=ncases or ctx.n(12, 120),
                                        variant=mode, **{k: v for k, v in kw.items() if k in ("gen", "sizes")})
        if hist_ents:
            out[("hist", mode)] = hist_corr(ctx, ents=hist_ents, name=f"history-correspondence [{mode}]", nhist=nhist or ctx.n(4, 40),
                                            variant=mode, sizes=list(kw.get("hist_sizes", [1, 2, 5, 130, 300])), **{k: v for k, v in kw.items() if k in ("mix", "nops", "maxn")})
        done = variation.STATS.get(mode, 0) - before.get(mode, 0)
        rej = variation.STATS.get("rejected:" + mode, 0) - before.get("rejected:" + mode, 0)
        ctx.notes.append(f"presentation {mode}: {done} tensor arguments re-presented, {rej} calls refused by the real code and repeated in the base presentation")
    return out


WIDE_KEYS = ("num_classes", "num_labels", "num_tasks", "num_queries", "C")


def wide_corr(ctx, ents, values=(129, 130, 257), ncases=None, sizes=(2, 5, 9), variants=()):
    """More than 128 / 256 classes, labels, tasks or queries (blocked / chunked implementations take another path there):
    the same functional correspondence on configurations whose slice count is 129, 130 or 257."""
    import copy
    wide = []
    for e in ents:
        if not (e.fn_model and e.has_functional):
            continue
        cfgs = e.configs(ctx.rng, ctx.quick)
        keys = [k for k in WIDE_KEYS if any(isinstance(c.get(k), int) and not isinstance(c.get(k), bool) for c in cfgs)]
        if not keys:
            continue
        key = keys[0]
        small = min(c[key] for c in cfgs if isinstance(c.get(key), int))
        base = [c for c in cfgs if c.get(key) == max(small, min(3, max(c2[key] for c2 in cfgs if isinstance(c2.get(key), int)))) and not c.get("implicit")]
        good = []
        for c in base:
            for k in values:
                cfg = {**c, key: k}
                try:
                    b = e.gen_batch(ctx.rng, cfg, 3)
                    e.batch_val(cfg, b)
                    e.functional(cfg, b)
                    good.append(cfg)
                except Exception:
                    pass
        if not good:
            continue
        w = copy.copy(e)
        w.configs = (lambda rng, quick=True, good=good: list(good))
        wide.append(w)
    if wide:
        fn_corr(ctx, ents=wide, name="functional-correspondence [129 / 130 / 257 classes, labels, tasks or queries]",
                ncases=ncases or ctx.n(6, 36), sizes=sizes, suffix="[wide]")
        for mode in variants:        # many slices AND a narrow label dtype (index arithmetic in the label dtype wraps)
            fn_corr(ctx, ents=wide, name=f"functional-correspondence [129 / 130 / 257 slices, {mode}]",
                    ncases=max(3, (ncases or ctx.n(6, 36)) // 2), sizes=sizes, suffix="[wide]", variant=mode)
    ctx.notes.append("wide configurations: " + ", ".join(w.name for w in wide))
