"""./check replay <file>: re-execute a replay file against /repo's current working tree."""
from __future__ import annotations
import json
import re
import sys
from fractions import Fraction


def uncanon(o):
    if isinstance(o, str) and re.fullmatch(r"-?\d+/\d+", o):
        a, b = o.split("/")
        return Fraction(int(a), int(b))
    if isinstance(o, list):
        return [uncanon(x) for x in o]
    if isinstance(o, dict):
        return {k: uncanon(v) for k, v in o.items()}
    return o


def _case(label):
    from . import basecalls
    for c in basecalls.all_cases():
        if c[0] == label:
            return c
    raise KeyError(label)


def main(argv):
    if not argv:
        print("usage: ./check replay <file>")
        return 2
    d = uncanon(json.load(open(argv[0])))
    chk = d.get("check")
    scn = d.get("scenario", d.get("replay"))
    if isinstance(scn, dict) and scn.get("kind") in ("send", "states", "toolkit"):
        from . import sync_replay
        return sync_replay.replay(d)
    from . import direct, generic
    res = None
    if d.get("kind") == "no-failing-input-found":
        print(f"replay names a broken obligation, not an input: {d.get('broken')}\n{d.get('detail', '')[:1500]}")
        print(f"re-run: ./check {d['property']}")
        return 0
    if chk == "tree_vs_single":
        from .catalogue import entry
        res = generic.tree_vs_single(entry(d["class"]), d["cfg"], d["tree"])
    elif chk == "c09_case":
        res = direct.c09_case(_case(d["class"]), d["seed"], d["how"], d["pre"], d["ncont"])
    elif chk == "c10_case":
        res = direct.c10_case(_case(d["class"]), d["seed"], d["pre"], d["ncont"])
    elif chk == "c11_case":
        res = direct.c11_case(_case(d["class"]), d["seed"], None, d["layout"])
    elif chk == "c14_case":
        res = direct.c14_case(_case(d["class"]), d["seed"], d["pre"])
    elif chk == "ctor_defaults":
        import torcheval.metrics as M
        try:
            getattr(M, d["class"])()
        except Exception as ex:
            res = f"{type(ex).__name__}: {ex}"
    elif chk == "class_vs_functional":
        from .parts import C03_generic
        res = C03_generic._job((d["class"], [(d["cfg"], d["batches"], d.get("prior_epoch"))]))[0]
    elif chk == "rebatch_reorder":
        from .parts import C12_generic
        res = C12_generic._job((d["class"], [(d["cfg"], d["samples"], d["seed"])]))[0]
    elif chk == "rebatch_sizes":
        from .parts import C12_generic
        res = C12_generic._job_sizes((d["class"], [(d["cfg"], d["kind"], d["n"], d["seed"])]))[0]
    elif chk == "inject-and-update":
        from .parts import C19_acc
        c = _case(d["class"])
        inj, inc, got = C19_acc.inject(c[1], c[2], c[4], c[3], d["state"], d["injected"])
        bad = [(x, i, g) for x, i, g in zip(inj, inc, got) if g != x + i]
        res = f"injected/increment/observed {bad[:3]}" if bad else None
    elif chk == "inject-and-merge":
        from .parts import C19_acc
        c = _case(d["class"])
        inj, got = C19_acc.inject_merge(c[1], c[2], c[4], c[3], d["state"], d["merged_values"])
        res = f"merged {inj} -> observed {got[0]}, expected {sum(inj)}" if any(g != sum(inj) for g in got) else None
    elif chk == "fn_vs_model":
        from .catalogue import entry
        from .model import run_model, T
        from .compare import close
        e = entry(d["function"])
        mo = run_model([(e.fn_model, [e.cfg_val(d["cfg"]), e.batch_val(d["cfg"], d["batch"])])])[0]
        try:
            r = e.fn_val(e.functional(d["cfg"], d["batch"]))
        except Exception:
            r = T("err")
        res = None if (isinstance(mo, T) and mo.tag in ("err", "none") and isinstance(r, T)) else close(mo, r, e.tol)
    elif chk == "history":
        from .catalogue import entry
        from . import history
        ops = [tuple(o) for o in d["ops"]]
        res = history.check_history(entry(d["class"]), d["cfg"], d["nobj"], ops)
    else:
        # parts may register their own handlers: vlib/parts/<Cxx>_*.py: def replay(d) -> str | None
        import importlib, pkgutil
        from . import parts
        handled = False
        for m in pkgutil.iter_modules(parts.__path__):
            if m.name.startswith(d.get("property", "?") + "_"):
                mod = importlib.import_module(f"vlib.parts.{m.name}")
                if hasattr(mod, "replay"):
                    r = mod.replay(d)
                    if r is not NotImplemented:
                        res, handled = r, True
                        break
        if not handled:
            # universal fallback: every check is deterministic for (tier, seed); re-run the property's check with
            # the recorded seed and tier and see whether a violation with the same target and kind of check reappears
            import subprocess, glob, os
            prop = d.get("property")
            print(f"no specific replay handler for check={chk!r}: re-running ./check {prop} --tier {d.get('tier', 'quick')} --seed {d.get('seed', 0)} ...")
            root = os.path.dirname(os.path.dirname(os.path.abspath(__file__)))
            r = subprocess.run([os.path.join(root, "check"), prop, "--tier", str(d.get("tier", "quick")), "--seed", str(d.get("seed", 0))],
                               capture_output=True, text=True)
            hit = None
            for ln in r.stdout.splitlines():
                if ln.startswith("VIOLATION") and "replay=" in ln:
                    try:
                        e = json.load(open(ln.split("replay=")[1].split()[0]))
                    except Exception:
                        continue
                    if e.get("target") == d.get("target") and e.get("check") == d.get("check"):
                        hit = e
                        break
            if hit:
                print(f"REPRODUCED property={prop} target={d.get('target')}: {str(hit.get('observed') or hit.get('problem') or hit.get('broken'))[:500]}")
                return 1
            print("not reproduced on the current tree (the check was re-run with the recorded seed and tier)")
            return 0
    if res:
        print(f"REPRODUCED property={d.get('property')} target={d.get('target')}: {res}")
        return 1
    print("not reproduced on the current tree")
    return 0
