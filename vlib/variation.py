"""Input-presentation variants for the correspondence streams.

The entries of vlib/families feed float32 scores and int64 labels.  A metric's value is defined by
the NUMBERS it is given, not by the tensor dtype that carries them, so every functional / update()
call is repeated with the same numbers presented differently:

  f64   every float32 tensor argument is passed as float64 (exact)
  i32 / i16 / u8 / i8   every int64 tensor argument whose values fit is passed in that integer dtype
  nc    every tensor argument with >= 1 dimension is passed as a non-contiguous view of the same values
  rg    every floating-point tensor argument requires grad (a model output that was not detached)

and compared with the SAME model value.  The cast is applied at the call boundary of the real code
(`torcheval.metrics.functional.*` and `Metric.update` of every class) by wrapping those callables for
the duration of a `with variant(mode):` block -- nothing inside /repo is touched.

A call that the real code rejects for a presentation (e.g. `one_hot` insists on int64) is not a
disagreement: it is repeated with the base presentation (counted in STATS["rejected:<mode>"]).
"""
from __future__ import annotations
import contextlib
import functools
import importlib
import pkgutil
import sys

import torch

INT_DT = {"i32": torch.int32, "i16": torch.int16, "u8": torch.uint8, "i8": torch.int8}
QUICK_MODES = ["f64", "u8", "f64+i8", "i32", "nc", "rg"]
MODES = QUICK_MODES + ["i16", "f64+i16", "f64+nc"]

STATS = {}


def _cast_one(x, mode):
    if not isinstance(x, torch.Tensor):
        return x
    for part in mode.split("+"):
        if part == "f64" and x.dtype == torch.float32:
            x = x.double()
            STATS[mode] = STATS.get(mode, 0) + 1
        elif part in INT_DT and x.dtype == torch.int64:
            dt = INT_DT[part]
            info = torch.iinfo(dt)
            if x.numel() == 0 or (int(x.min()) >= info.min and int(x.max()) <= info.max):
                x = x.to(dt)
                STATS[mode] = STATS.get(mode, 0) + 1
        elif part in ("f16", "bf16") and x.dtype == torch.float32:
            h = x.to(torch.float16 if part == "f16" else torch.bfloat16)
            if bool((h.float() == x).all()):             # only numbers the half format holds exactly
                x = h
                STATS[mode] = STATS.get(mode, 0) + 1
        elif part == "rg" and x.is_floating_point():
            x = x.detach().clone().requires_grad_(True)          # a tensor that is part of an autograd graph (model output)
            STATS[mode] = STATS.get(mode, 0) + 1
        elif part == "nc" and x.ndim >= 1 and x.numel() > 0:
            big = x.repeat_interleave(2, dim=-1)
            x = big[..., ::2]
            STATS[mode] = STATS.get(mode, 0) + 1
    return x


def cast_args(a, k, mode):
    return tuple(_cast_one(x, mode) for x in a), {n: _cast_one(x, mode) for n, x in k.items()}


_ACTIVE = [None]


def _wrap(f):
    @functools.wraps(f)
    def g(*a, **k):
        mode = _ACTIVE[0]
        if mode is None:
            return f(*a, **k)
        ca, ck = cast_args(a, k, mode)
        changed = any(x is not y for x, y in zip(ca, a)) or any(ck[n] is not k[n] for n in k)
        _ACTIVE[0] = None            # calls made by the real code itself are not re-cast
        try:
            try:
                return f(*ca, **ck)
            except Exception:
                if not changed:
                    raise
                # the real code refuses this presentation (e.g. one_hot insists on int64): not a
                # disagreement -- repeat the call with the base presentation
                STATS["rejected:" + mode] = STATS.get("rejected:" + mode, 0) + 1
                return f(*a, **k)
        finally:
            _ACTIVE[0] = mode
    g.__verif_wrapped__ = f
    return g


_INSTALLED = [False]


def _is_fn(v):
    return callable(v) and getattr(v, "__module__", "") and str(getattr(v, "__module__", "")).startswith("torcheval.metrics.functional") \
        and not isinstance(v, type) and not hasattr(v, "__verif_wrapped__")


def install():
    """Wrap (once, permanently, inert while no variant is active) every public functional, every family
    module's directly imported functional, every `fn = staticmethod(...)` of the entries, and
    `update` of every Metric subclass."""
    if _INSTALLED[0]:
        return
    _INSTALLED[0] = True
    import torcheval.metrics.functional as Fn
    from torcheval.metrics.metric import Metric
    import torcheval.metrics  # noqa: F401  (imports every class)
    import torcheval.metrics.statistical  # noqa: F401
    from . import families
    for n, v in list(vars(Fn).items()):
        if _is_fn(v):
            setattr(Fn, n, _wrap(v))
    for m in pkgutil.iter_modules(families.__path__):
        mod = importlib.import_module(f"{families.__name__}.{m.name}")
        for n, v in list(vars(mod).items()):
            if _is_fn(v):
                setattr(mod, n, _wrap(v))
            if isinstance(v, type):
                for an, av in list(vars(v).items()):
                    if isinstance(av, staticmethod) and _is_fn(av.__func__):
                        setattr(v, an, staticmethod(_wrap(av.__func__)))

    def subs(c):
        for s in c.__subclasses__():
            yield s
            yield from subs(s)
    for c in set(subs(Metric)):
        if "update" in vars(c) and not hasattr(vars(c)["update"], "__verif_wrapped__"):
            setattr(c, "update", _wrap(vars(c)["update"]))


@contextlib.contextmanager
def variant(mode):
    install()
    prev = _ACTIVE[0]
    _ACTIVE[0] = mode
    try:
        yield
    finally:
        _ACTIVE[0] = prev


def rejected():
    return sum(v for k, v in STATS.items() if k.startswith("rejected:"))
