"""Support for the C07 regression part: history correspondence with value-semantics isolation
for the classes whose merge_state adopts source tensors by reference, and the probe that
reports that aliasing precisely (defect of C11, met here)."""
from __future__ import annotations
from . import core, history
from .compare import close, state_val
from .model import run_model, crosscheck_in_coq, T

ALIAS_FINDING = "C07-merge-adopts-source-by-reference"


def dealias(e, ops, nobj):
    """Value-semantics isolation for entries flagged alias_on_merge: every merge reads deep copies of
    its sources (placed in scratch slots nobj, nobj+1, ...) and the target is deep-copied onto itself
    afterwards, so that state adopted BY REFERENCE never outlives the merge_state call.  All inserted
    ops are `clone` ops: no-ops on the values in the (value-semantics) model.  Returns (ops, pool size)."""
    if not getattr(e, "alias_on_merge", False):
        return list(ops), nobj
    out, extra = [], 0
    for o in ops:
        if o[0] == "merge":
            js = list(o[2])
            for k, j in enumerate(js):
                out.append(("clone", j, nobj + k))
            extra = max(extra, len(js))
            out.append(("merge", o[1], [nobj + k for k in range(len(js))]) + tuple(o[3:]))
            out.append(("clone", o[1], o[1]))
        else:
            out.append(o)
    return out, nobj + extra


def hist_corr(ctx, ents, name="history-correspondence (regression family)", nhist=None, nops=(4, 8, 14), maxn=8):
    """streams.hist_corr with the dealias transform (same comparison, shrinking, obligations)."""
    s = ctx.stream(name)
    cases, meta = [], []
    ents = [e for e in ents if e.model]
    for e in ents:
        cfgs = e.configs(ctx.rng, ctx.quick)
        per = nhist or ctx.n(14, 150)
        for h in range(per):
            cfg = cfgs[h % len(cfgs)]
            nobj = ctx.rng.choice([2, 3, 3, 4])
            raw = history.gen_history(ctx.rng, e, cfg, nobj=nobj, nops=ctx.rng.choice(list(nops)), maxn=maxn)
            ops, n2 = dealias(e, raw, nobj)
            cases.append(history.model_case(e, cfg, n2, ops))
            meta.append((e, cfg, nobj, raw, ops, n2))
    outs = run_model(cases)
    bad = {}
    for (e, cfg, nobj, raw, ops, n2), mobs in zip(meta, outs):
        try:
            iobs = history.run_impl(e, cfg, n2, ops)
            d = history.compare_obs(e, ops, mobs, iobs)
        except Exception as ex:
            d = {"at": -1, "why": f"implementation raised outside update/compute: {type(ex).__name__}: {ex}"}
        kinds = {o[0] for o in ops}
        s.case((e.name, repr(cfg), repr(ops)), len(kinds) >= 3 and len(ops) >= 4,
               sample={"class": e.name, "cfg": cfg, "nobj": n2, "ops": [list(o[:2]) for o in ops][:8]})
        s.count("class:" + e.name)
        for o in ops:
            s.count("op:" + o[0])
        if d and e.name not in bad:
            def fails(trial, e=e, cfg=cfg, nobj=nobj):
                try:
                    t2, m2 = dealias(e, trial, nobj)
                    return history.check_history(e, cfg, m2, t2) is not None
                except Exception:
                    return True
            small = history.shrink_ops(raw, fails)
            small = history.shrink_batches(e, cfg, small, fails)
            small, m2 = dealias(e, small, nobj)
            try:
                d2 = history.check_history(e, cfg, m2, small) or d
            except Exception as ex:
                d2 = {"why": f"{type(ex).__name__}: {ex}"}
            bad[e.name] = {"class": e.name, "cfg": cfg, "nobj": m2, "ops": small, "disagreement": d2}
            s.mismatches.append(bad[e.name])
    n, dis = crosscheck_in_coq(cases, outs, ctx.prop + "h", limit=ctx.n(40, 200))
    ctx.oblige(f"tie:extraction-vs-vm_compute:{name}", dis == 0,
               detail=f"{dis} of {n} sampled cases differ between extracted OCaml and in-Coq vm_compute")
    s.dist["in_coq_crosschecked"] = n
    for e in ents:
        m = bad.get(e.name)
        ctx.oblige(f"tie:corr:{e.name}", m is None, detail=repr(core.canon(m))[:1500] if m else "")
    return bad


def alias_probe(ctx, ents):
    """Two minimal patterns on the real classes; value semantics (the model) says the SOURCE is unchanged:
       A: fresh target <- merge_state([src]);  target.update(b)      -> src changes
       B: fresh target <- merge_state([src, src2])                   -> src changes during the merge itself."""
    s = ctx.stream("merge-aliasing probe (fresh target adopts source state by reference)")
    for e in ents:
        if not getattr(e, "alias_on_merge", False):
            continue
        hit = False
        for cfg in e.configs(ctx.rng, ctx.quick)[:4]:
            for pat in ("A", "B"):
                b1, b2 = e.gen_batch(ctx.rng, cfg, 3), e.gen_batch(ctx.rng, cfg, 2)
                src, src2, tgt = e.make(cfg), e.make(cfg), e.make(cfg)
                e.update(src, cfg, b1)
                before = state_val(src)
                if pat == "A":
                    tgt.merge_state([src])
                    e.update(tgt, cfg, b2)
                    ops = [["upd", 1, b1], ["merge", 0, [1]], ["upd", 0, b2], ["state", 1]]
                else:
                    e.update(src2, cfg, b2)
                    tgt.merge_state([src, src2])
                    ops = [["upd", 1, b1], ["upd", 2, b2], ["merge", 0, [1, 2]], ["state", 1]]
                d = close(before, state_val(src), 0)
                s.case((e.name, repr(cfg), pat, repr(b1), repr(b2)), True, sample={"class": e.name, "cfg": cfg, "pattern": pat})
                s.count("class:" + e.name)
                if d and not hit:
                    hit = True
                    s.mismatches.append({"class": e.name, "cfg": cfg, "pattern": pat})
                    ctx.violation("failing-input", e.name,
                                  {"check": "merge-aliasing", "class": e.name, "cfg": cfg, "pattern": pat, "ops": ops,
                                   "observed": "state of the SOURCE object 1 changed: " + d,
                                   "expected": "source unchanged (value semantics; fix: adopt `.clone()` in merge_state)",
                                   "broken": f"non-interference:{e.name}"},
                                  finding_id=ALIAS_FINDING)
