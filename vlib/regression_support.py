"""Support for the C07 regression part: the merge non-interference probe (a fresh target must not share
tensors with the sources it merged; was defect D2 / C11, fixed in /repo 5bc2ee2 -- a recurrence is a VIOLATION)."""
from __future__ import annotations
from . import core, history
from .compare import close, state_val
from .model import run_model, crosscheck_in_coq, T



def alias_probe(ctx, ents):
    """Two minimal patterns on the real classes; value semantics (the model) says the SOURCE is unchanged:
       A: fresh target <- merge_state([src]);  target.update(b)      -> src changes
       B: fresh target <- merge_state([src, src2])                   -> src changes during the merge itself."""
    s = ctx.stream("merge-aliasing probe (fresh target adopts source state by reference)")
    for e in ents:
        if not getattr(e, "alias_on_merge", False):
            continue
        hit = False
        for cfg in e.configs(ctx.rng, ctx.quick)[:4]:
            for pat in ("A", "B"):
                b1, b2 = e.gen_batch(ctx.rng, cfg, 3), e.gen_batch(ctx.rng, cfg, 2)
                src, src2, tgt = e.make(cfg), e.make(cfg), e.make(cfg)
                e.update(src, cfg, b1)
                before = state_val(src)
                if pat == "A":
                    tgt.merge_state([src])
                    e.update(tgt, cfg, b2)
                    ops = [["upd", 1, b1], ["merge", 0, [1]], ["upd", 0, b2], ["state", 1]]
                else:
                    e.update(src2, cfg, b2)
                    tgt.merge_state([src, src2])
                    ops = [["upd", 1, b1], ["upd", 2, b2], ["merge", 0, [1, 2]], ["state", 1]]
                d = close(before, state_val(src), 0)
                s.case((e.name, repr(cfg), pat, repr(b1), repr(b2)), True, sample={"class": e.name, "cfg": cfg, "pattern": pat})
                s.count("class:" + e.name)
                if d and not hit:
                    hit = True
                    s.mismatches.append({"class": e.name, "cfg": cfg, "pattern": pat})
                    ctx.violation("failing-input", e.name,
                                  {"check": "merge-aliasing", "class": e.name, "cfg": cfg, "pattern": pat, "ops": ops,
                                   "observed": "state of the SOURCE object 1 changed: " + d,
                                   "expected": "source unchanged (value semantics; fix: adopt `.clone()` in merge_state)",
                                   "broken": f"non-interference:{e.name}"},
                                  finding_id=None)


def directed_histories(ctx, ents):
    """Deterministically shaped histories from each entry's directed_batches(): every batch into object 0 (state
    observed after each), compute, the last batch into object 1, fresh object 2 <- merge [0, 1], fresh 3 <- merge [1], computes."""
    s = ctx.stream("directed histories (degenerate prefixes, ill-conditioned / wide / extreme values)")
    bad = {}
    for e in ents:
        if not hasattr(e, "directed_batches"):
            continue
        for cfg in e.configs(ctx.rng, ctx.quick)[:ctx.n(6, 40)]:
            bs = e.directed_batches(ctx.rng, cfg)
            ops = [("upd", 0, b) for b in bs] + [("compute", 0), ("upd", 1, bs[0]), ("merge", 2, [0, 1], "list"), ("compute", 2),
                                                  ("merge", 3, [1], "tuple"), ("compute", 3), ("upd", 3, bs[-1]), ("compute", 3)]
            try:
                d = history.check_history(e, cfg, 4, ops)
            except Exception as ex:
                d = {"at": -1, "why": f"{type(ex).__name__}: {ex}"}
            s.case((e.name, repr(cfg), repr(ops)), True, sample={"class": e.name, "cfg": cfg, "nops": len(ops)})
            s.count("class:" + e.name)
            if d and e.name not in bad:
                def fails(trial, e=e, cfg=cfg):
                    try:
                        return history.check_history(e, cfg, 4, trial) is not None
                    except Exception:
                        return True
                small = history.shrink_ops(ops, fails, budget=60)
                try:
                    d = history.check_history(e, cfg, 4, small) or d
                except Exception:
                    pass
                bad[e.name] = {"class": e.name, "cfg": cfg, "nobj": 4, "ops": small, "disagreement": d}
                s.mismatches.append(bad[e.name])
    for e in ents:
        if hasattr(e, "directed_batches"):
            m = bad.get(e.name)
            ctx.oblige(f"tie:directed:{e.name}", m is None, detail=repr(core.canon(m))[:1500] if m else "")
    return bad


def report(ctx, bad, broken_prefix, check):
    """turn located correspondence failures (shrunk histories) into failing-input violations"""
    for name, m in bad.items():
        if name.startswith("spec:"):
            continue
        ctx.violation("failing-input", name, {"check": "history", "stream": check, "class": name, "cfg": m.get("cfg"), "nobj": m.get("nobj"),
                                              "ops": m.get("ops"), "observed": m.get("disagreement"),
                                              "broken": f"{broken_prefix}:{name}"},
                      finding_id=core.match_finding(ctx.prop, name, str(m.get("disagreement"))) if hasattr(core, "match_finding") else None)
