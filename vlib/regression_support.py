"""Support for the C07 regression part: the merge non-interference probe (a fresh target must not share
tensors with the sources it merged; was defect D2 / C11, fixed in /repo 5bc2ee2 -- a recurrence is a VIOLATION)."""
from __future__ import annotations
from . import core, history
from .compare import close, state_val
from .model import run_model, crosscheck_in_coq, T



def alias_probe(ctx, ents):
    """Two minimal patterns on the real classes; value semantics (the model) says the SOURCE is unchanged:
       A: fresh target <- merge_state([src]);  target.update(b)      -> src changes
       B: fresh target <- merge_state([src, src2])                   -> src changes during the merge itself."""
    s = ctx.stream("merge-aliasing probe (fresh target adopts source state by reference)")
    for e in ents:
        if not getattr(e, "alias_on_merge", False):
            continue
        hit = False
        for cfg in e.configs(ctx.rng, ctx.quick)[:4]:
            for pat in ("A", "B"):
                b1, b2 = e.gen_batch(ctx.rng, cfg, 3), e.gen_batch(ctx.rng, cfg, 2)
                src, src2, tgt = e.make(cfg), e.make(cfg), e.make(cfg)
                e.update(src, cfg, b1)
                before = state_val(src)
                if pat == "A":
                    tgt.merge_state([src])
                    e.update(tgt, cfg, b2)
                    ops = [["upd", 1, b1], ["merge", 0, [1]], ["upd", 0, b2], ["state", 1]]
                else:
                    e.update(src2, cfg, b2)
                    tgt.merge_state([src, src2])
                    ops = [["upd", 1, b1], ["upd", 2, b2], ["merge", 0, [1, 2]], ["state", 1]]
                d = close(before, state_val(src), 0)
                s.case((e.name, repr(cfg), pat, repr(b1), repr(b2)), True, sample={"class": e.name, "cfg": cfg, "pattern": pat})
                s.count("class:" + e.name)
                if d and not hit:
                    hit = True
                    s.mismatches.append({"class": e.name, "cfg": cfg, "pattern": pat})
                    ctx.violation("failing-input", e.name,
                                  {"check": "merge-aliasing", "class": e.name, "cfg": cfg, "pattern": pat, "ops": ops,
                                   "observed": "state of the SOURCE object 1 changed: " + d,
                                   "expected": "source unchanged (value semantics; fix: adopt `.clone()` in merge_state)",
                                   "broken": f"non-interference:{e.name}"},
                                  finding_id=None)
