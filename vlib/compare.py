"""Canonicalisation of implementation values and tolerant comparison with model values."""
from __future__ import annotations
import math
from fractions import Fraction
from .model import T, NONE

TOL32 = Fraction(1, 2 ** 17)
TOL64 = Fraction(1, 2 ** 40)


def num(x):
    """float/int -> exact value or IEEE tag."""
    if isinstance(x, bool):
        return int(x)
    if isinstance(x, int):
        return x
    if isinstance(x, float):
        if math.isnan(x):
            return T("nan")
        if math.isinf(x):
            return T("pinf") if x > 0 else T("ninf")
        f = Fraction(x)
        return f.numerator if f.denominator == 1 else f
    raise TypeError(type(x))


def impl_val(x):
    """torch / python value -> val (nested lists of exact numbers and tags)."""
    import torch
    if x is None:
        return NONE
    if isinstance(x, torch.Tensor):
        t = x.detach()
        if t.dtype == torch.bfloat16 or t.dtype == torch.float16:
            t = t.to(torch.float32)
        if t.is_floating_point():
            t = t.to(torch.float64)
        return _nest(t.tolist())
    if isinstance(x, (bool, int, float)):
        return num(x)
    if isinstance(x, (list, tuple)):
        return [impl_val(y) for y in x]
    if isinstance(x, dict):
        return [[impl_val(k) if not isinstance(k, str) else T("k:" + k), impl_val(v)] for k, v in sorted(x.items(), key=lambda kv: repr(kv[0]))]
    if isinstance(x, str):
        return T("s:" + x)
    raise TypeError(f"impl_val: {type(x)}")


def _nest(x):
    if isinstance(x, list):
        return [_nest(y) for y in x]
    return num(x)


def state_val(metric):
    """Registered states in sorted-name order (+ declared extra attributes)."""
    names = sorted(metric._state_name_to_default.keys())
    return [impl_val(getattr(metric, n)) for n in names]


def eval_rexp(v, prec=80):
    """Evaluate a symbolic result tree with mpmath; returns mpf or a tag."""
    import mpmath
    mpmath.mp.prec = 200
    if isinstance(v, bool):
        return mpmath.mpf(int(v))
    if isinstance(v, int):
        return mpmath.mpf(v)
    if isinstance(v, Fraction):
        return mpmath.mpf(v.numerator) / mpmath.mpf(v.denominator)
    if isinstance(v, T):
        a = [eval_rexp(x) for x in v.args]
        if any(isinstance(x, T) for x in a):
            return T("nan")
        f = {"ln": mpmath.log, "exp": mpmath.exp, "log10": mpmath.log10, "sqrt": mpmath.sqrt,
             "log2": lambda x: mpmath.log(x, 2)}
        try:
            if v.tag in f:
                return f[v.tag](a[0])
            if v.tag == "add":
                return a[0] + a[1]
            if v.tag == "sub":
                return a[0] - a[1]
            if v.tag == "mul":
                return a[0] * a[1]
            if v.tag == "div":
                return a[0] / a[1]
            if v.tag == "pow":
                return a[0] ** a[1]
            if v.tag == "neg":
                return -a[0]
        except (ZeroDivisionError, ValueError):
            return T("nan")
        return v
    raise TypeError(type(v))


REXP_TAGS = {"ln", "exp", "log10", "sqrt", "log2", "add", "sub", "mul", "div", "pow", "neg"}


def close(m, i, tol=TOL32, path="") -> str | None:
    """None if model value m and implementation value i agree, else a description."""
    if isinstance(m, T) and m.tag in REXP_TAGS:
        r = eval_rexp(m)
        if isinstance(r, T):
            m = r
        else:
            import mpmath
            if isinstance(i, T):
                return f"{path}: model {mpmath.nstr(r, 12)} vs impl {i}"
            d = abs(r - eval_rexp(i))
            lim = eval_rexp(tol) * max(1, abs(r))
            return None if d <= lim else f"{path}: model {mpmath.nstr(r, 15)} vs impl {float(i)!r}"
    if isinstance(m, T) or isinstance(i, T):
        if isinstance(m, T) and isinstance(i, T) and m.tag == i.tag and len(m.args) == len(i.args):
            for k, (a, b) in enumerate(zip(m.args, i.args)):
                r = close(a, b, tol, f"{path}/{m.tag}[{k}]")
                if r:
                    return r
            return None
        return f"{path}: model {m!r} vs impl {i!r}"
    if isinstance(m, list) or isinstance(i, list):
        if not (isinstance(m, list) and isinstance(i, list)):
            return f"{path}: structure model {_short(m)} vs impl {_short(i)}"
        if len(m) != len(i):
            return f"{path}: length model {len(m)} vs impl {len(i)}: {_short(m)} vs {_short(i)}"
        for k, (a, b) in enumerate(zip(m, i)):
            r = close(a, b, tol, f"{path}[{k}]")
            if r:
                return r
        return None
    a, b = Fraction(m), Fraction(i)
    if a == b or abs(a - b) <= tol * max(1, abs(a)):
        return None
    return f"{path}: model {float(a)!r} ({a}) vs impl {float(b)!r}"


def _short(x, n=120):
    s = repr(x)
    return s if len(s) <= n else s[:n] + "..."


def impl_close(a, b, tol=TOL32) -> str | None:
    """Compare two implementation results with each other (property-directed search)."""
    return close(impl_val(a) if not _is_val(a) else a, impl_val(b) if not _is_val(b) else b, tol)


def _is_val(x):
    return isinstance(x, (T, Fraction)) or (isinstance(x, list) and all(_is_val(y) for y in x)) or (isinstance(x, int) and not isinstance(x, bool))
