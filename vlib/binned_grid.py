"""Boundary scores for every binned functional and class (used by C06_grid and C03_binned_grid).

Thresholds are given in every accepted form (an int -> torch.linspace in float32, a list of floats ->
float32 tensor, a float32 tensor, a float64 tensor); scores sit exactly ON a threshold value, one
ulp below / above it, in float32 and in float64 (a float64 score such as 0.3 lies strictly below the
float32 threshold 0.3f).  "Scored at or above the threshold" is decided EXACTLY (float32 -> float64 is
lossless, so comparing in float64 is comparing the real numbers), and the real code is compared with
  counting  : per-threshold precision / recall obtained by counting (binned_counts_spec),
  modes     : optimization='vectorized' vs 'memory',
  floor     : binned AUROC / AUPRC vs the exact functional on the scores rounded down to the nearest
              threshold (binned_auroc_floor / binned_auprc_floor; list must start at 0),
  class_fn  : class (one or two update() calls) vs functional on the concatenation (C03).
Implementation-level: it yields the failing input; the theorems are size- and value-independent.
"""
from __future__ import annotations
import random

import torch

QUICK_T = [2, 3, 4, 5, 8, 10, 11, 16, 50, 100, 101]
ALL_T = QUICK_T + [6, 9, 17, 21, 33, 200, 256, 257, 1000]


def make_threshold(rng, quick=True):
    form = rng.choice(["int", "int", "list", "f32", "f64"])
    if form == "int":
        T = rng.choice(QUICK_T if quick else ALL_T)
        return form, T, torch.linspace(0, 1.0, T)
    k = rng.randint(1, 6)
    den = rng.choice([10, 10, 7, 3, 16])
    inner = sorted({rng.randint(1, den - 1) / den for _ in range(k)})
    vals = ([0.0] if rng.random() < 0.8 else []) + inner + ([1.0] if rng.random() < 0.8 else [])
    if form == "list":
        return form, vals, torch.tensor(vals)                       # the library builds a float32 tensor
    if form == "f32":
        t = torch.tensor(vals, dtype=torch.float32)
        return form, t, t
    t = torch.tensor(vals, dtype=torch.float64)
    return form, t, t


def near_scores(rng, thr_actual, m, dtype):
    """m scores on / next to the actual threshold values, as python floats representable in `dtype`."""
    out = []
    tv = thr_actual.tolist()
    for _ in range(m):
        t = rng.choice(tv)
        u = rng.random()
        if dtype == torch.float32:
            x = torch.tensor(t, dtype=torch.float32)
            if u < 0.25:
                x = torch.nextafter(x, torch.tensor(-1.0))
            elif u < 0.5:
                x = torch.nextafter(x, torch.tensor(2.0))
            v = float(x)
        else:
            if u < 0.2:
                v = float(torch.nextafter(torch.tensor(t, dtype=torch.float64), torch.tensor(-1.0, dtype=torch.float64)))
            elif u < 0.4:
                v = float(torch.nextafter(torch.tensor(t, dtype=torch.float64), torch.tensor(2.0, dtype=torch.float64)))
            elif u < 0.7:
                v = round(t, rng.choice([1, 2, 3]))      # the decimal the threshold was rounded from: 0.3 vs 0.3f
            else:
                v = t
        out.append(min(1.0, max(0.0, v)))
    return out


def _close(a, b, tol=1e-6):
    a, b = torch.as_tensor(a).double().reshape(-1), torch.as_tensor(b).double().reshape(-1)
    if a.shape != b.shape:
        return False
    return bool(torch.allclose(a, b, atol=tol, rtol=0, equal_nan=True))


def _flat(r):
    """a functional / class result (tensor | tuple | list of tensors) as a flat list of tensors"""
    if isinstance(r, torch.Tensor):
        return [r]
    out = []
    for x in r:
        out += _flat(x)
    return out


def _same(r1, r2, tol=1e-6):
    a, b = _flat(r1), _flat(r2)
    return len(a) == len(b) and all(_close(x, y, tol) for x, y in zip(a, b))


def run_seed(seed, quick=True):
    """[(kind, function, description)] of the disagreements found for this seed."""
    import torcheval.metrics as M
    import torcheval.metrics.functional as F
    rng = random.Random(seed)
    bad = []
    form, thr_arg, thr = make_threshold(rng, quick)
    sdt = rng.choice([torch.float32, torch.float32, torch.float64])
    C = rng.choice([2, 3])
    n = rng.choice([2, 4, 7, 12])
    thr64 = thr.double()
    desc = {"threshold_form": form, "threshold": thr_arg if isinstance(thr_arg, (int, list)) else thr_arg.tolist(),
            "score_dtype": str(sdt).replace("torch.", ""), "seed": seed}

    def counts(scores, pos):
        ge = scores.double().unsqueeze(0) >= thr64.view(-1, *([1] * scores.ndim))       # (T, ...)
        tp = (ge & pos.unsqueeze(0)).sum(1).double()
        fp = (ge & ~pos.unsqueeze(0)).sum(1).double()
        return tp, fp

    def check_curve(fn, prec, rec, scores, pos):
        """prec/rec: lists (per class) of (T+1,) tensors; scores/pos: (N, C)"""
        tp, fp = counts(scores, pos)
        for c in range(scores.shape[1]):
            den = tp[:, c] + fp[:, c]
            ok = den > 0
            if not _close(prec[c][:-1].double()[ok], (tp[:, c] / den)[ok]):
                return f"{fn}: class {c}: precision differs from tp/(tp+fp) counted exactly per threshold; scores {scores[:, c].tolist()} positives {pos[:, c].tolist()}"
            P = pos[:, c].sum().double()
            if P > 0 and not _close(rec[c][:-1].double(), tp[:, c] / P):
                return f"{fn}: class {c}: recall differs from tp/P counted exactly per threshold; scores {scores[:, c].tolist()} positives {pos[:, c].tolist()}"
        return None

    def floored(scores):
        idx = (scores.double().unsqueeze(-1) >= thr64).sum(-1) - 1
        return thr64[idx.clamp(min=0)]

    starts0 = float(thr64[0]) == 0.0

    def two_updates(m, *xs):
        k = rng.randint(0, xs[0].shape[-1] if xs[0].ndim == 2 and xs[0].shape[0] != n else n)
        return k

    # ---------------- binary (1-D) PR curve, multi-task AUROC / AUPRC
    sc = torch.tensor(near_scores(rng, thr, n, sdt), dtype=sdt)
    y = torch.tensor([rng.randint(0, 1) for _ in range(n)])
    try:
        p, r, t = F.binary_binned_precision_recall_curve(sc, y, threshold=thr_arg)
        d = check_curve("binary_binned_precision_recall_curve", [p], [r], sc.unsqueeze(1), y.bool().unsqueeze(1))
        if d:
            bad.append(("counting", "binary_binned_precision_recall_curve", d))
        m = M.BinaryBinnedPrecisionRecallCurve(threshold=thr_arg)
        k = rng.randint(1, n)
        m.update(sc[:k], y[:k])
        if k < n:
            m.update(sc[k:], y[k:])
        if not _same(m.compute(), (p, r, t)):
            bad.append(("class_fn", "BinaryBinnedPrecisionRecallCurve", f"class (updates of {k} and {n - k} samples) vs functional on the concatenation; scores {sc.tolist()} labels {y.tolist()}"))
    except Exception as ex:
        bad.append(("exception", "binary_binned_precision_recall_curve", f"{type(ex).__name__}: {ex}"))
    ntask = rng.choice([1, 2])
    sc2 = torch.tensor([near_scores(rng, thr, n, sdt) for _ in range(ntask)], dtype=sdt)
    y2 = torch.tensor([[rng.randint(0, 1) for _ in range(n)] for _ in range(ntask)])
    for nm, fn, cls, exact in (("binary_binned_auroc", F.binary_binned_auroc, M.BinaryBinnedAUROC, F.binary_auroc),
                               ("binary_binned_auprc", F.binary_binned_auprc, M.BinaryBinnedAUPRC, F.binary_auprc)):
        try:
            a = (sc2, y2) if ntask > 1 else (sc2[0], y2[0])
            res = fn(*a, num_tasks=ntask, threshold=thr_arg)[0]
            if starts0:
                ex = exact(floored(a[0]), a[1], num_tasks=ntask)
                if not _close(res, ex, 1e-5):
                    bad.append(("floor", nm, f"{nm} {res.tolist()} vs exact value on the scores rounded down to the nearest threshold {ex.tolist()}; scores {a[0].tolist()} labels {a[1].tolist()}"))
            m = cls(num_tasks=ntask, threshold=thr_arg)
            k = rng.randint(1, n)
            m.update(a[0][..., :k], a[1][..., :k])
            if k < n:
                m.update(a[0][..., k:], a[1][..., k:])
            cr = m.compute()
            cr = cr[0] if isinstance(cr, tuple) else cr
            if not _close(cr, res):
                bad.append(("class_fn", cls.__name__, f"class {cr.tolist()} (updates of {k} and {n - k} samples) vs functional {res.tolist()} on the concatenation; scores {a[0].tolist()} labels {a[1].tolist()}"))
        except Exception as ex:
            if not (isinstance(ex, ValueError) and "threshold" in str(ex)):       # AUPRC insists on a list from 0 to 1
                bad.append(("exception", nm, f"{type(ex).__name__}: {ex}"))
    # ---------------- multiclass / multilabel
    scm = torch.tensor([near_scores(rng, thr, C, sdt) for _ in range(n)], dtype=sdt)
    tgt = torch.tensor([rng.randrange(C) for _ in range(n)])
    oh = torch.tensor([[rng.randint(0, 1) for _ in range(C)] for _ in range(n)])
    for kind in ("multiclass", "multilabel"):
        try:
            if kind == "multiclass":
                pos = torch.nn.functional.one_hot(tgt, C).bool()
                kw, t_arg = {"num_classes": C}, tgt
                curve, auprc = F.multiclass_binned_precision_recall_curve, F.multiclass_binned_auprc
                ccls, acls, exact = M.MulticlassBinnedPrecisionRecallCurve, M.MulticlassBinnedAUPRC, F.multiclass_auprc
            else:
                pos = oh.bool()
                kw, t_arg = {"num_labels": C}, oh
                curve, auprc = F.multilabel_binned_precision_recall_curve, F.multilabel_binned_auprc
                ccls, acls, exact = M.MultilabelBinnedPrecisionRecallCurve, M.MultilabelBinnedAUPRC, F.multilabel_auprc
            rv = curve(scm, t_arg, threshold=thr_arg, optimization="vectorized", **kw)
            rm = curve(scm, t_arg, threshold=thr_arg, optimization="memory", **kw)
            if not _same(rv, rm, 0):
                bad.append(("modes", f"{kind}_binned_precision_recall_curve", f"optimization='vectorized' vs 'memory' differ; scores {scm.tolist()} targets {t_arg.tolist()}"))
            for opt, res in (("vectorized", rv), ("memory", rm)):
                d = check_curve(f"{kind}_binned_precision_recall_curve[{opt}]", res[0], res[1], scm, pos)
                if d:
                    bad.append(("counting", f"{kind}_binned_precision_recall_curve", d))
                    break
            k = rng.randint(1, n)
            for opt, res in (("vectorized", rv), ("memory", rm)):
                m = ccls(threshold=thr_arg, optimization=opt, **kw)
                m.update(scm[:k], t_arg[:k])
                if k < n:
                    m.update(scm[k:], t_arg[k:])
                if not _same(m.compute(), res):
                    bad.append(("class_fn", ccls.__name__, f"class[{opt}] (updates of {k} and {n - k} samples) vs functional on the concatenation; scores {scm.tolist()} targets {t_arg.tolist()}"))
                    break
            av, am = [auprc(scm, t_arg, threshold=thr_arg, average=None, optimization=o, **kw)[0] for o in ("vectorized", "memory")]
            if not _close(av, am, 0):
                bad.append(("modes", f"{kind}_binned_auprc", f"optimization='vectorized' {av.tolist()} vs 'memory' {am.tolist()}; scores {scm.tolist()} targets {t_arg.tolist()}"))
            if starts0:
                ex = exact(floored(scm), t_arg, average=None, **kw)
                has_pos = pos.any(0)
                if not _close(av[has_pos], ex[has_pos], 1e-5):
                    bad.append(("floor", f"{kind}_binned_auprc", f"binned AUPRC {av.tolist()} vs exact AUPRC of the scores rounded down to the nearest threshold {ex.tolist()}; scores {scm.tolist()} targets {t_arg.tolist()}"))
            for opt, res in (("vectorized", av), ("memory", am)):
                m = acls(threshold=thr_arg, average=None, optimization=opt, **kw)
                m.update(scm[:k], t_arg[:k])
                if k < n:
                    m.update(scm[k:], t_arg[k:])
                cr = m.compute()
                cr = cr[0] if isinstance(cr, tuple) else cr
                if not _close(cr, res):
                    bad.append(("class_fn", acls.__name__, f"class[{opt}] {cr.tolist()} (updates of {k} and {n - k} samples) vs functional {res.tolist()}; scores {scm.tolist()} targets {t_arg.tolist()}"))
                    break
        except Exception as ex:
            if not (isinstance(ex, ValueError) and "threshold" in str(ex)):
                bad.append(("exception", f"{kind}_binned", f"{type(ex).__name__}: {ex}"))
    # multiclass binned AUROC: class vs functional only (its value is the subject of a known finding)
    try:
        res = F.multiclass_binned_auroc(scm, tgt, num_classes=C, threshold=thr_arg, average=None)
        res = res[0] if isinstance(res, tuple) else res
        m = M.MulticlassBinnedAUROC(num_classes=C, threshold=thr_arg, average=None)
        k = rng.randint(1, n)
        m.update(scm[:k], tgt[:k])
        if k < n:
            m.update(scm[k:], tgt[k:])
        cr = m.compute()
        cr = cr[0] if isinstance(cr, tuple) else cr
        if not _close(cr, res):
            bad.append(("class_fn", "MulticlassBinnedAUROC", f"class {cr.tolist()} vs functional {res.tolist()}; scores {scm.tolist()} targets {tgt.tolist()}"))
    except Exception as ex:
        bad.append(("exception", "multiclass_binned_auroc", f"{type(ex).__name__}: {ex}"))
    return desc, bad


def job(arg):
    seeds, quick = arg
    return [(s,) + run_seed(s, quick) for s in seeds]
