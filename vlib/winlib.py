"""Helpers shared by the window check parts (C13_window, C09_window, C10_window, C01_window, C11_window)."""
from __future__ import annotations
import copy

from . import core, history, streams
from .compare import close, impl_val
from .model import T, run_model
from .families import window as W


class SubCtx:
    """A scratch context: streams are shared with the real one, obligations are kept apart."""

    def __init__(self, ctx):
        self._ctx = ctx
        self.obligations = []
        self.rng, self.quick, self.prop, self.tier = ctx.rng, ctx.quick, ctx.prop, ctx.tier

    def stream(self, name):
        return self._ctx.stream(name)

    def n(self, a, b):
        return self._ctx.n(a, b)

    def oblige(self, name, ok, file="", detail=""):
        self.obligations.append({"name": name, "file": file, "ok": bool(ok), "detail": detail[:500]})


def fixed_variant(e):
    f = copy.copy(e)
    f.model = e.model + "_fixed"
    return f


def corr_asis_or_fixed(ctx, ents, name, **kw):
    """History correspondence against the faithful models of the current code (V_code: cursor
    rewound by reset(), not saved / loaded); a class that disagrees is
    re-run against its V_fixed model (cursor saved / loaded / reset with the registered states):
    agreement there means the tree has been repaired, and the obligation is discharged by the
    V_fixed theorems instead.  Returns {class name: 'code' | 'fixed' | None}."""
    sub = SubCtx(ctx)
    bad = streams.hist_corr(sub, ents, name=name, **kw)
    verdict = {e.name: "code" for e in ents if e.name not in bad}
    detail = {k: v for k, v in bad.items()}
    retry = [fixed_variant(e) for e in ents if e.name in bad]
    if retry:
        sub2 = SubCtx(ctx)
        bad2 = streams.hist_corr(sub2, retry, name=name + " (V_fixed models)", **kw)
        for e in retry:
            verdict[e.name] = None if e.name in bad2 else "fixed"
        sub.obligations += [o for o in sub2.obligations if "extraction" in o["name"]]
    for o in sub.obligations:
        if o["name"].startswith("tie:corr:"):
            cls = o["name"].split(":")[-1]
            v = verdict.get(cls)
            ctx.oblige(o["name"], v is not None, detail=o["detail"] if v is None else ("matches V_%s model" % v))
        else:
            ctx.oblige(o["name"], o["ok"], o["file"], o["detail"])
    for cls, v in verdict.items():
        if v == "fixed":
            ctx.notes.append(f"{cls}: the code matches the V_fixed model (cursor saved and loaded like a registered state): D5-load repaired")
    return verdict, detail


def step_histories(ctx, e, cfg, nupd):
    """One object; nupd updates, compute() after every update (state is observed by every op)."""
    ops = []
    for _ in range(nupd):
        ops.append(("upd", 0, e.gen_batch(ctx.rng, cfg, ctx.rng.choice([1, 1, 2, 3, 5]))))
        ops.append(("compute", 0))
    return ops


def safe(f):
    try:
        return f()
    except Exception as ex:  # noqa
        return T("err", T(type(ex).__name__))


def finite(v):
    if isinstance(v, T):
        return False
    if isinstance(v, list):
        return all(finite(x) for x in v)
    return True


def finite_or_nan(v):
    if isinstance(v, T):
        return v.tag == "nan"
    if isinstance(v, list):
        return all(finite_or_nan(x) for x in v)
    return True


def match_finding(prop, cls, trig):
    """A violation is attributed to a known finding only if class AND trigger coincide."""
    for f in core.load_findings():
        if f.get("property") != prop or f.get("status") != "known":
            continue
        pat = f.get("pattern", {})
        if cls in pat.get("classes", []) and trig is not None and trig == pat.get("trigger"):
            return f["id"]
    return None


def continuation_differs(e, cfg, a, b, batches):
    """Feed the same batches to objects a and b, compute() after every update; first difference."""
    for k, bt in enumerate(batches):
        e.update(a, cfg, bt)
        e.update(b, cfg, bt)
        ra = safe(lambda: e.out_val(a.compute()))
        rb = safe(lambda: e.out_val(b.compute()))
        if isinstance(ra, T) and isinstance(rb, T) and ra.tag == rb.tag == "err":
            continue
        d = close(ra, rb, e.tol)
        if d:
            return {"at_update": k + 1, "first": repr(ra), "second": repr(rb), "why": d}
    return None


def prefix_and_cont(ctx, e, cfg):
    N = e.window(cfg)
    npre = ctx.rng.choice([0, 1, 2, N - 1 if N > 1 else 1, N, N + 1, 2 * N + 1, 3 * N])
    ncont = ctx.rng.choice([1, N, N + 1, 2 * N + 2])
    g = lambda: e.gen_batch(ctx.rng, cfg, ctx.rng.choice([1, 1, 2, 3]))
    return [g() for _ in range(npre)], [g() for _ in range(ncont)]
