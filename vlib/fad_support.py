"""Evaluation of the one uninterpreted node of the Frechet distance model:
   [trsqrtprod cov_x cov_y] = sum of sqrt(eigenvalues(cov_x @ cov_y)).real   (torch.linalg.eigvals(...).sqrt().real.sum())
computed with mpmath at 200 bits on the exact rational matrices.  Registered by extending compare.eval_rexp
from this module (the shared file is not edited): importing this module is enough."""
from __future__ import annotations
from fractions import Fraction
from . import compare
from .model import T

TAG = "trsqrtprod"
_orig = compare.eval_rexp


def _mp(x):
    import mpmath
    if isinstance(x, Fraction):
        return mpmath.mpf(x.numerator) / mpmath.mpf(x.denominator)
    return mpmath.mpf(x)


def tr_sqrt_prod(cx, cy):
    import mpmath
    mpmath.mp.prec = 200
    a = mpmath.matrix([[_mp(v) for v in r] for r in cx])
    b = mpmath.matrix([[_mp(v) for v in r] for r in cy])
    prod = a * b
    ev = [prod[0, 0]] if prod.rows == 1 else mpmath.eig(prod, left=False, right=False)
    return sum(mpmath.re(mpmath.sqrt(mpmath.mpc(l))) for l in ev)


def eval_rexp(v, prec=80):
    if isinstance(v, T) and v.tag == TAG:
        import mpmath
        mpmath.mp.prec = 200
        try:
            return tr_sqrt_prod(v.args[0], v.args[1])
        except Exception:
            return T("nan")
    return _orig(v, prec)


if getattr(compare.eval_rexp, "__module__", "") != __name__:
    compare.eval_rexp = eval_rexp
    compare.REXP_TAGS.add(TAG)
