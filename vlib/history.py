"""Operation histories over pools of metric objects: generation, execution on the real classes,
rendering for the Coq pool model, observation-by-observation comparison, shrinking."""
from __future__ import annotations
import copy
import io
import logging
import pickle
import warnings
from fractions import Fraction

from .model import T, run_model
from .compare import close, impl_val, state_val
from .catalogue import Entry

logging.disable(logging.CRITICAL)
warnings.simplefilter("ignore")

DEFAULT_MIX = {"upd": 10, "merge": 3, "compute": 4, "reset": 1, "clone": 1, "save": 1, "load": 1, "prep": 1, "new": 0.5, "pickle": 0.5}


def gen_history(rng, e: Entry, cfg, nobj=3, nops=12, mix=None, maxn=8, sizes=None):
    mix = dict(DEFAULT_MIX if mix is None else mix)
    kinds, weights = zip(*mix.items())
    ops = []
    saved = set()
    sizes = sizes or [e.min_batch, e.min_batch, 1, 2, 3, 5, maxn]
    for _ in range(nops):
        k = rng.choices(kinds, weights)[0]
        i = rng.randrange(nobj)
        if k == "upd":
            n = max(e.min_batch, rng.choice(sizes))
            ops.append(("upd", i, e.gen_batch(rng, cfg, n)))
        elif k == "merge":
            others = [j for j in range(nobj) if j != i]
            if not others:
                continue
            js = rng.sample(others, rng.randint(0 if rng.random() < 0.1 else 1, len(others)))
            ops.append(("merge", i, js, rng.choice(["list", "list", "tuple", "gen"])))
        elif k in ("compute", "reset", "prep", "new"):
            ops.append((k, i))
        elif k in ("clone", "pickle"):
            j = rng.randrange(nobj)
            if j != i:
                ops.append((k, i, j))
        elif k == "save":
            kk = rng.randrange(nobj)
            saved.add(kk)
            ops.append(("save", i, kk))
        elif k == "load":
            if saved:
                ops.append(("load", i, rng.choice(sorted(saved))))
    ops.append(("compute", rng.randrange(nobj)))
    if hasattr(e, "filter_ops"):
        ops = e.filter_ops(ops)
    return ops


class ImplPool:
    def __init__(self, e: Entry, cfg, nobj):
        self.e, self.cfg = e, cfg
        self.objs = [e.make(cfg) for _ in range(nobj)]
        self.dicts = [e.make(cfg).state_dict() for _ in range(nobj)]

    def st(self, i):
        return self.e.state_of(self.objs[i]) if hasattr(self.e, "state_of") else state_val(self.objs[i])

    def step(self, op):
        e, cfg = self.e, self.cfg
        k = op[0]
        if k == "upd":
            try:
                e.update(self.objs[op[1]], cfg, op[2])
            except Exception as ex:  # noqa
                return T("raise", self.st(op[1]))
            return self.st(op[1])
        if k == "merge":
            src = [self.objs[j] for j in op[2]]
            form = op[3] if len(op) > 3 else "list"
            arg = src if form == "list" else tuple(src) if form == "tuple" else (m for m in src)
            self.objs[op[1]].merge_state(arg)
            return self.st(op[1])
        if k == "compute":
            try:
                r = self.objs[op[1]].compute()
            except Exception as ex:  # noqa
                return T("err")
            return e.out_val(r)
        if k == "state":
            return self.st(op[1])
        if k == "reset":
            self.objs[op[1]].reset()
            return self.st(op[1])
        if k == "prep":
            self.objs[op[1]]._prepare_for_merge_state()
            return self.st(op[1])
        if k == "clone":
            from torcheval.metrics.toolkit import clone_metric
            self.objs[op[2]] = clone_metric(self.objs[op[1]])
            return self.st(op[2])
        if k == "pickle":
            self.objs[op[2]] = pickle.loads(pickle.dumps(self.objs[op[1]]))
            return self.st(op[2])
        if k == "save":
            self.dicts[op[2]] = self.objs[op[1]].state_dict()
            tmp = e.make(cfg)
            tmp.load_state_dict(self.dicts[op[2]])
            return self.e.state_of(tmp) if hasattr(e, "state_of") else state_val(tmp)
        if k == "load":
            self.objs[op[1]].load_state_dict(self.dicts[op[2]])
            return self.st(op[1])
        if k == "new":
            self.objs[op[1]] = e.make(cfg)
            return self.st(op[1])
        raise ValueError(k)


def run_impl(e, cfg, nobj, ops):
    p = ImplPool(e, cfg, nobj)
    return [p.step(o) for o in ops]


def op_val(e, cfg, op):
    k = op[0]
    if k == "upd":
        return T("upd", op[1], e.batch_val(cfg, op[2]))
    if k == "merge":
        return T("merge", op[1], list(op[2]))
    if k == "pickle":
        return T("clone", op[1], op[2])
    return T(k, *op[1:])


def model_case(e, cfg, nobj, ops):
    return (e.model, [e.cfg_val(cfg), nobj, [op_val(e, cfg, o) for o in ops]])


def compare_obs(e, ops, mobs, iobs):
    """First disagreement between model and implementation observations, or None."""
    if not isinstance(mobs, list):
        return {"at": -1, "why": f"model returned {mobs!r}"}
    if len(mobs) != len(iobs):
        return {"at": -1, "why": f"model produced {len(mobs)} observations for {len(iobs)} ops"}
    for k, (m, i) in enumerate(zip(mobs, iobs)):
        if isinstance(m, T) and m.tag == "err" and isinstance(i, T) and i.tag == "err":
            continue
        r = close(m, i, e.tol)
        if r:
            return {"at": k, "op": ops[k][0], "why": r}
    return None


def check_history(e, cfg, nobj, ops):
    iobs = run_impl(e, cfg, nobj, ops)
    mobs = run_model([model_case(e, cfg, nobj, ops)])[0]
    return compare_obs(e, ops, mobs, iobs)


def shrink_ops(ops, still_fails, budget=200):
    """Greedy delta debugging over the op list, then over batch contents."""
    ops = list(ops)
    changed = True
    while changed and budget > 0:
        changed = False
        for k in range(len(ops) - 1, -1, -1):
            trial = ops[:k] + ops[k + 1:]
            budget -= 1
            if trial and still_fails(trial):
                ops = trial
                changed = True
            if budget <= 0:
                break
    return ops


def shrink_batches(e, cfg, ops, still_fails, budget=150):
    ops = list(ops)
    for k, o in enumerate(ops):
        if o[0] != "upd":
            continue
        sm = e.samples(cfg, o[2])
        if not sm or len(sm) <= e.min_batch:
            continue
        keep = list(range(len(sm)))
        for drop in list(keep):
            if len(keep) <= max(1, e.min_batch) or budget <= 0:
                break
            cand = [x for x in keep if x != drop]
            nb = e.concat(cfg, [sm[x] for x in cand])
            if nb is None:
                break
            trial = ops[:k] + [("upd", o[1], nb)] + ops[k + 1:]
            budget -= 1
            if still_fails(trial):
                keep = cand
                ops = trial
    return ops
