"""Running the Coq model: through the extracted OCaml binary, and (sample) inside Coq."""
from __future__ import annotations
from fractions import Fraction
import subprocess, re, os, resource
from . import core


class T:
    """Tagged node [tag args...]."""
    __slots__ = ("tag", "args")

    def __init__(self, tag, *args):
        self.tag, self.args = tag, list(args)

    def __eq__(self, o):
        return isinstance(o, T) and o.tag == self.tag and o.args == self.args

    def __hash__(self):
        return hash((self.tag, tuple(map(repr, self.args))))

    def __repr__(self):
        return "[" + " ".join([self.tag] + [repr(a) for a in self.args]) + "]"


NONE = T("none")


def enc(v) -> str:
    if v is None:
        return "[none]"
    if isinstance(v, bool):
        return "#t" if v else "#f"
    if isinstance(v, int):
        return str(v)
    if isinstance(v, Fraction):
        return f"{v.numerator}/{v.denominator}"
    if isinstance(v, float):
        f = Fraction(v)
        return f"{f.numerator}/{f.denominator}"
    if isinstance(v, (list, tuple)):
        return "(" + " ".join(enc(x) for x in v) + ")"
    if isinstance(v, T):
        return "[" + " ".join([v.tag] + [enc(x) for x in v.args]) + "]"
    if isinstance(v, str):
        return "[" + v + "]"
    raise TypeError(f"cannot encode {type(v)}")


_tok = re.compile(r"[()\[\]]|[^\s()\[\]]+")


def dec(s: str):
    toks = _tok.findall(s)
    pos = 0

    def p():
        nonlocal pos
        t = toks[pos]; pos += 1
        if t == "(":
            out = []
            while toks[pos] != ")":
                out.append(p())
            pos += 1
            return out
        if t == "[":
            tag = toks[pos]; pos += 1
            args = []
            while toks[pos] != "]":
                args.append(p())
            pos += 1
            return T(tag, *args)
        if t == "#t":
            return True
        if t == "#f":
            return False
        if "/" in t:
            a, b = t.split("/")
            return Fraction(int(a), int(b))
        return int(t)
    return p()


def _unlimit():
    try:
        resource.setrlimit(resource.RLIMIT_STACK, (resource.RLIM_INFINITY, resource.RLIM_INFINITY))
    except Exception:
        pass


def run_model(cases: list[tuple[str, object]], timeout=1800) -> list:
    """cases: (model name, value). Returns decoded outputs, in order."""
    if not cases:
        return []
    exe = core.OCAML / "model_run"
    lines = [f"{i} {name} {enc(v)}" for i, (name, v) in enumerate(cases)]
    r = subprocess.run([str(exe)], input="\n".join(lines) + "\n", capture_output=True, text=True,
                       timeout=timeout, preexec_fn=_unlimit)
    out: list = [T("no-output")] * len(cases)
    for ln in r.stdout.splitlines():
        k, _, rest = ln.partition(" ")
        try:
            out[int(k)] = dec(rest)
        except Exception:
            pass
    return out


def coq_lit(v) -> str:
    if v is None:
        return "vnone"
    if isinstance(v, bool):
        return "(VB true)" if v else "(VB false)"
    if isinstance(v, int):
        return f"(VZ ({v}))"
    if isinstance(v, Fraction):
        return f"(VQ ({v.numerator}) {v.denominator})"
    if isinstance(v, float):
        return coq_lit(Fraction(v))
    if isinstance(v, (list, tuple)):
        return "(VL [" + "; ".join(coq_lit(x) for x in v) + "])"
    if isinstance(v, T):
        return f'(VT "{v.tag}" [' + "; ".join(coq_lit(x) for x in v.args) + "])"
    if isinstance(v, str):
        return f'(VT "{v}" [])'
    raise TypeError(type(v))


def crosscheck_in_coq(cases: list[tuple[str, object]], outs: list, tag: str, limit=120) -> tuple[int, int]:
    """Evaluate a sample of the same cases inside Coq by vm_compute and compare with what the
    extracted code printed.  Returns (checked, disagreements)."""
    if not cases:
        return 0, 0
    step = max(1, len(cases) // limit)
    sel = [(c, o) for (c, o) in list(zip(cases, outs))[::step] if len(enc(c[1])) < 4000][:limit]
    if not sel:
        return 0, 0
    core.TMP.mkdir(parents=True, exist_ok=True)
    f = core.TMP / f"Cases_{tag}_{os.getpid()}.v"
    body = ";\n".join(f'  ("{n}"%string, {coq_lit(v)}, {coq_lit(o)})' for ((n, v), o) in sel)
    f.write_text(
        "From Coq Require Import ZArith List String.\nFrom TE Require Import Base.Val Extract.Dispatch.\n"
        "Import ListNotations.\nOpen Scope Z_scope.\n"
        "Definition cases : list (string * val * val) := [\n" + body + "\n].\n"
        "Definition bad := List.length (List.filter (fun c => negb (val_eqb (dispatch (fst (fst c)) (snd (fst c))) (snd c))) cases).\n"
        "Eval vm_compute in bad.\n")
    r = core.sh(f"timeout 300 coqc -Q {core.COQ} TE {f}", cwd=core.TMP, timeout=320)
    for ext in (".v", ".vo", ".vok", ".vos", ".glob"):
        try:
            f.with_suffix(ext).unlink()
        except FileNotFoundError:
            pass
    try:
        (core.TMP / ("." + f.stem + ".aux")).unlink()
    except FileNotFoundError:
        pass
    m = re.search(r"=\s*(\d+)(?:%nat)?\s*:\s*nat", r.stdout)
    if not m:
        return len(sel), len(sel)
    return len(sel), int(m.group(1))
