"""Shared machinery of the C18 (shape contract) and C14 (fault injection) check parts.

* a catalogue-independent minimal table of VALID base calls (functional + class) per metric,
* recording wrappers around every `*check*` function of torcheval (what each check function actually
  received, and whether it returned / executed one of its own `raise` statements / made Python raise),
* the encoding of a check-function invocation as a ShapeLang environment (argument kinds + shapes,
  value atoms evaluated on the real arguments from the translator's side file),
* the finite perturbation set of C18.
"""
from __future__ import annotations
import ast
import inspect
import json
import logging
import sys
import warnings
from pathlib import Path

import torch

from . import core
from .model import T

warnings.simplefilter("ignore")
logging.disable(logging.CRITICAL)

META_PATH = core.ROOT / "out" / "gen" / "shape_checks.json"


def meta() -> dict:
    return json.loads(META_PATH.read_text())


# ------------------------------------------------------------------------------------------------
# base calls
# ------------------------------------------------------------------------------------------------
N, C, TK = 4, 3, 2


def _r(*s):
    n = 1
    for d in s:
        n *= d
    # distinct, exactly representable scores in (0,1)
    return ((torch.arange(n, dtype=torch.float32) * 7 % 16 + 1) / 32).reshape(s) if s else torch.tensor(0.25)


def _lab(*s):
    n = 1
    for d in s:
        n *= d
    return (torch.arange(n) * 3 % 2).reshape(s)


def _cls(n, c=C):
    return (torch.arange(n) * 2 + 1) % c


def _thr():
    return torch.tensor([0.0, 0.25, 0.5, 0.75, 1.0])


def base_calls() -> list[dict]:
    """One row per (metric, documented input layout).  `t`: tensor arguments (perturbed); `kw`: other
    arguments; `fn`: functional name (torcheval.metrics.functional or dotted path), `cls`: class name."""
    rows = [
        dict(fn="binary_accuracy", cls="BinaryAccuracy", t=dict(input=_r(N), target=_lab(N)), kw={}),
        dict(fn="multiclass_accuracy", cls="MulticlassAccuracy", t=dict(input=_cls(N), target=_cls(N)), kw={}, tag="labels"),
        dict(fn="multiclass_accuracy", cls="MulticlassAccuracy", t=dict(input=_r(N, C), target=_cls(N)),
             kw=dict(num_classes=C, average="macro"), tag="logits"),
        dict(fn="multiclass_accuracy", cls="MulticlassAccuracy", t=dict(input=_r(N, C), target=_cls(N)), kw=dict(k=2), tag="k2"),
        dict(fn="multilabel_accuracy", cls="MultilabelAccuracy", t=dict(input=_r(N, C), target=_lab(N, C)), kw={}),
        dict(fn="topk_multilabel_accuracy", cls="TopKMultilabelAccuracy", t=dict(input=_r(N, C), target=_lab(N, C)), kw=dict(k=2)),
        dict(fn="binary_precision", cls="BinaryPrecision", t=dict(input=_r(N), target=_lab(N)), kw={}),
        dict(fn="multiclass_precision", cls="MulticlassPrecision", t=dict(input=_r(N, C), target=_cls(N)),
             kw=dict(num_classes=C, average="macro"), tag="logits"),
        dict(fn="multiclass_precision", cls="MulticlassPrecision", t=dict(input=_cls(N), target=_cls(N)), kw={}, tag="labels"),
        dict(fn="binary_recall", cls="BinaryRecall", t=dict(input=_r(N), target=_lab(N)), kw={}),
        dict(fn="multiclass_recall", cls="MulticlassRecall", t=dict(input=_r(N, C), target=_cls(N)),
             kw=dict(num_classes=C, average="macro"), tag="logits"),
        dict(fn="multiclass_recall", cls="MulticlassRecall", t=dict(input=_cls(N), target=_cls(N)), kw={}, tag="labels"),
        dict(fn="binary_f1_score", cls="BinaryF1Score", t=dict(input=_r(N), target=_lab(N)), kw={}),
        dict(fn="multiclass_f1_score", cls="MulticlassF1Score", t=dict(input=_r(N, C), target=_cls(N)),
             kw=dict(num_classes=C, average="macro"), tag="logits"),
        dict(fn="multiclass_f1_score", cls="MulticlassF1Score", t=dict(input=_cls(N), target=_cls(N)), kw={}, tag="labels"),
        dict(fn="binary_confusion_matrix", cls="BinaryConfusionMatrix", t=dict(input=_r(N), target=_lab(N)), kw={}),
        dict(fn="multiclass_confusion_matrix", cls="MulticlassConfusionMatrix", t=dict(input=_r(N, C), target=_cls(N)),
             kw=dict(num_classes=C), tag="logits"),
        dict(fn="multiclass_confusion_matrix", cls="MulticlassConfusionMatrix", t=dict(input=_cls(N), target=_cls(N)),
             kw=dict(num_classes=C), tag="labels"),
        dict(fn="binary_auroc", cls="BinaryAUROC", t=dict(input=_r(N), target=_lab(N), weight=_r(N)), kw={}, tag="weighted"),
        dict(fn="binary_auroc", cls="BinaryAUROC", t=dict(input=_r(N), target=_lab(N)), kw={}, tag="unweighted"),
        dict(fn="binary_auroc", cls="BinaryAUROC", t=dict(input=_r(TK, N), target=_lab(TK, N), weight=_r(TK, N)),
             kw=dict(num_tasks=TK), tag="tasks"),
        dict(fn="multiclass_auroc", cls="MulticlassAUROC", t=dict(input=_r(N, C), target=_cls(N)), kw=dict(num_classes=C)),
        dict(fn="binary_auprc", cls="BinaryAUPRC", t=dict(input=_r(N), target=_lab(N)), kw={}, tag="1d"),
        dict(fn="binary_auprc", cls="BinaryAUPRC", t=dict(input=_r(1, N), target=_lab(1, N)), kw={}, tag="row"),
        dict(fn="binary_auprc", cls="BinaryAUPRC", t=dict(input=_r(TK, N), target=_lab(TK, N)), kw=dict(num_tasks=TK), tag="tasks"),
        dict(fn="multiclass_auprc", cls="MulticlassAUPRC", t=dict(input=_r(N, C), target=_cls(N)), kw=dict(num_classes=C)),
        dict(fn="multilabel_auprc", cls="MultilabelAUPRC", t=dict(input=_r(N, C), target=_lab(N, C)), kw=dict(num_labels=C)),
        dict(fn="binary_precision_recall_curve", cls="BinaryPrecisionRecallCurve", t=dict(input=_r(N), target=_lab(N)), kw={}),
        dict(fn="multiclass_precision_recall_curve", cls="MulticlassPrecisionRecallCurve",
             t=dict(input=_r(N, C), target=_cls(N)), kw=dict(num_classes=C)),
        dict(fn="multilabel_precision_recall_curve", cls="MultilabelPrecisionRecallCurve",
             t=dict(input=_r(N, C), target=_lab(N, C)), kw=dict(num_labels=C)),
        dict(fn="binary_recall_at_fixed_precision", cls="BinaryRecallAtFixedPrecision",
             t=dict(input=_r(N), target=_lab(N)), kw=dict(min_precision=0.5)),
        dict(fn="multilabel_recall_at_fixed_precision", cls="MultilabelRecallAtFixedPrecision",
             t=dict(input=_r(N, C), target=_lab(N, C)), kw=dict(num_labels=C, min_precision=0.5)),
        dict(fn="binary_binned_auroc", cls="BinaryBinnedAUROC", t=dict(input=_r(N), target=_lab(N), threshold=_thr()), kw={}, tag="1d"),
        dict(fn="binary_binned_auroc", cls="BinaryBinnedAUROC", t=dict(input=_r(TK, N), target=_lab(TK, N), threshold=_thr()),
             kw=dict(num_tasks=TK), tag="tasks"),
        dict(fn="multiclass_binned_auroc", cls="MulticlassBinnedAUROC", t=dict(input=_r(N, C), target=_cls(N), threshold=_thr()),
             kw=dict(num_classes=C)),
        dict(fn="binary_binned_auprc", cls="BinaryBinnedAUPRC", t=dict(input=_r(N), target=_lab(N), threshold=_thr()), kw={}, tag="1d"),
        dict(fn="binary_binned_auprc", cls="BinaryBinnedAUPRC", t=dict(input=_r(1, N), target=_lab(1, N), threshold=_thr()), kw={}, tag="row"),
        dict(fn="binary_binned_auprc", cls="BinaryBinnedAUPRC", t=dict(input=_r(TK, N), target=_lab(TK, N), threshold=_thr()),
             kw=dict(num_tasks=TK), tag="tasks"),
        dict(fn="multiclass_binned_auprc", cls="MulticlassBinnedAUPRC", t=dict(input=_r(N, C), target=_cls(N), threshold=_thr()),
             kw=dict(num_classes=C)),
        dict(fn="multilabel_binned_auprc", cls="MultilabelBinnedAUPRC", t=dict(input=_r(N, C), target=_lab(N, C), threshold=_thr()),
             kw=dict(num_labels=C)),
        dict(fn="binary_binned_precision_recall_curve", cls="BinaryBinnedPrecisionRecallCurve",
             t=dict(input=_r(N), target=_lab(N), threshold=_thr()), kw={}),
        dict(fn="multiclass_binned_precision_recall_curve", cls="MulticlassBinnedPrecisionRecallCurve",
             t=dict(input=_r(N, C), target=_cls(N), threshold=_thr()), kw=dict(num_classes=C), tag="vectorized"),
        dict(fn="multiclass_binned_precision_recall_curve", cls="MulticlassBinnedPrecisionRecallCurve",
             t=dict(input=_r(N, C), target=_cls(N), threshold=_thr()), kw=dict(num_classes=C, optimization="memory"), tag="memory"),
        dict(fn="multilabel_binned_precision_recall_curve", cls="MultilabelBinnedPrecisionRecallCurve",
             t=dict(input=_r(N, C), target=_lab(N, C), threshold=_thr()), kw=dict(num_labels=C), tag="vectorized"),
        dict(fn="multilabel_binned_precision_recall_curve", cls="MultilabelBinnedPrecisionRecallCurve",
             t=dict(input=_r(N, C), target=_lab(N, C), threshold=_thr()), kw=dict(num_labels=C, optimization="memory"), tag="memory"),
        dict(fn="binary_normalized_entropy", cls="BinaryNormalizedEntropy",
             t=dict(input=_r(N), target=_lab(N).float(), weight=_r(N)), kw={}, tag="weighted"),
        dict(fn="binary_normalized_entropy", cls="BinaryNormalizedEntropy", t=dict(input=_r(N), target=_lab(N).float()), kw={}, tag="unweighted"),
        dict(fn="binary_normalized_entropy", cls="BinaryNormalizedEntropy",
             t=dict(input=_r(TK, N), target=_lab(TK, N).float(), weight=_r(TK, N)), kw=dict(num_tasks=TK), tag="tasks"),
        dict(fn="mean", cls="Mean", t=dict(input=_r(N), weight=_r(N)), kw={}, pycontract="weight_like_input"),
        dict(fn="sum", cls="Sum", t=dict(input=_r(N), weight=_r(N)), kw={}, pycontract="weight_like_input"),
        dict(fn="auc", cls="AUC", t=dict(x=_r(N), y=_r(N)), kw={}, tag="1d"),
        dict(fn="auc", cls="AUC", t=dict(x=_r(TK, N), y=_r(TK, N)), kw={}, ckw=dict(n_tasks=TK), tag="tasks"),
        dict(fn="mean_squared_error", cls="MeanSquaredError", t=dict(input=_r(N), target=_r(N), sample_weight=_r(N)), kw={}, tag="1d-weighted"),
        dict(fn="mean_squared_error", cls="MeanSquaredError", t=dict(input=_r(N), target=_r(N)), kw={}, tag="1d"),
        dict(fn="mean_squared_error", cls="MeanSquaredError", t=dict(input=_r(N, C), target=_r(N, C), sample_weight=_r(N)), kw={}, tag="2d-weighted"),
        dict(fn="r2_score", cls="R2Score", t=dict(input=_r(N), target=_r(N) + 0.125), kw={}, tag="1d"),
        dict(fn="r2_score", cls="R2Score", t=dict(input=_r(N, C), target=_r(N, C) + 0.125), kw={}, tag="2d"),
        dict(fn="click_through_rate", cls="ClickThroughRate", t=dict(input=_lab(N).float(), weights=_r(N)), kw={}, tag="1d"),
        dict(fn="click_through_rate", cls="ClickThroughRate", t=dict(input=_lab(TK, N).float(), weights=_r(TK, N)),
             kw=dict(num_tasks=TK), tag="tasks"),
        dict(fn="weighted_calibration", cls="WeightedCalibration", t=dict(input=_r(N), target=_lab(N).float(), weight=_r(N)), kw={}, tag="1d"),
        dict(fn="weighted_calibration", cls="WeightedCalibration", t=dict(input=_r(TK, N), target=_lab(TK, N).float(), weight=_r(TK, N)),
             kw=dict(num_tasks=TK), tag="tasks"),
        dict(fn="hit_rate", cls="HitRate", t=dict(input=_r(N, C), target=_cls(N)), kw=dict(k=2)),
        dict(fn="reciprocal_rank", cls="ReciprocalRank", t=dict(input=_r(N, C), target=_cls(N)), kw=dict(k=2)),
        dict(fn="retrieval_precision", cls="RetrievalPrecision", t=dict(input=_r(N), target=_lab(N)), kw=dict(k=2), tag="1d"),
        dict(fn="retrieval_precision", cls=None, t=dict(input=_r(TK, N), target=_lab(TK, N)), kw=dict(k=2, num_tasks=TK), tag="tasks"),
        dict(fn="retrieval_recall", cls="RetrievalRecall", t=dict(input=_r(N), target=_lab(N)), kw=dict(k=2), tag="1d"),
        dict(fn="retrieval_recall", cls=None, t=dict(input=_r(TK, N), target=_lab(TK, N)), kw=dict(k=2, num_tasks=TK), tag="tasks"),
        dict(fn=None, cls="RetrievalPrecision", t=dict(input=_r(N), target=_lab(N), indexes=_cls(N)), kw=dict(k=2, num_queries=C), tag="queries"),
        dict(fn=None, cls="RetrievalRecall", t=dict(input=_r(N), target=_lab(N), indexes=_cls(N)), kw=dict(k=2, num_queries=C), tag="queries"),
        dict(fn="frequency_at_k", cls=None, t=dict(input=_r(N)), kw=dict(k=0.5)),
        dict(fn="num_collisions", cls=None, t=dict(input=_cls(N)), kw={}),
        dict(fn="perplexity", cls="Perplexity", t=dict(input=_r(2, N, C), target=(torch.arange(2 * N) % C).reshape(2, N)), kw={}),
        dict(fn="torcheval.metrics.functional.statistical.wasserstein.wasserstein_1d", cls=None,
             t=dict(x=_r(N), y=_r(N + 1), x_weights=_r(N), y_weights=_r(N + 1)), kw={}),
        dict(fn=None, cls="torcheval.metrics.statistical.wasserstein.Wasserstein1D",
             t=dict(new_samples_dist_1=_r(N), new_samples_dist_2=_r(N + 1), new_weights_dist_1=_r(N), new_weights_dist_2=_r(N + 1)), kw={}),
        dict(fn="multiclass_precision_recall_curve", cls="MulticlassPrecisionRecallCurve",
             t=dict(input=_r(N, C), target=_cls(N)), kw={}, tag="num_classes=None"),
        dict(fn="peak_signal_noise_ratio", cls="PeakSignalNoiseRatio", t=dict(input=_r(2, 3, N, N), target=_r(2, 3, N, N) / 2), kw={}),
        dict(fn=None, cls="WindowedMeanSquaredError", t=dict(input=_r(N), target=_r(N), sample_weight=_r(N)), kw={}, tag="1d"),
        dict(fn=None, cls="WindowedMeanSquaredError", t=dict(input=_r(N, TK), target=_r(N, TK), sample_weight=_r(N)),
             kw=dict(num_tasks=TK), tag="tasks"),
        dict(fn=None, cls="WindowedBinaryAUROC", t=dict(input=_r(N), target=_lab(N)), kw={}, tag="unweighted"),
        dict(fn=None, cls="WindowedBinaryAUROC", t=dict(input=_r(N), target=_lab(N), weight=_r(N)), kw={}, tag="weighted"),
        dict(fn=None, cls="WindowedBinaryNormalizedEntropy", t=dict(input=_r(N), target=_lab(N).float()), kw={}, tag="unweighted"),
        dict(fn=None, cls="WindowedBinaryNormalizedEntropy", t=dict(input=_r(N), target=_lab(N).float(), weight=_r(N)), kw={}, tag="weighted"),
        dict(fn=None, cls="WindowedBinaryNormalizedEntropy", t=dict(input=_r(TK, N), target=_lab(TK, N).float(), weight=_r(TK, N)),
             kw=dict(num_tasks=TK), tag="tasks"),
        dict(fn=None, cls="WindowedClickThroughRate", t=dict(input=_lab(N).float(), weights=_r(N)), kw={}, tag="1d"),
        dict(fn=None, cls="WindowedClickThroughRate", t=dict(input=_lab(TK, N).float(), weights=_r(TK, N)), kw=dict(num_tasks=TK), tag="tasks"),
        dict(fn=None, cls="WindowedWeightedCalibration", t=dict(input=_r(N), target=_lab(N).float(), weight=_r(N)), kw={}, tag="1d"),
        dict(fn=None, cls="WindowedWeightedCalibration", t=dict(input=_r(TK, N), target=_lab(TK, N).float(), weight=_r(TK, N)),
             kw=dict(num_tasks=TK), tag="tasks"),
    ]
    for r in rows:
        r.setdefault("tag", "")
        r.setdefault("ckw", {})
        r.setdefault("variant", False)
    return rows


# option arguments that select a code path: the perturbation set is run for EVERY value, one option at a time
OPTION_VALUES = {
    "optimization": ["vectorized", "memory"],
    "average": ["micro", "macro", "weighted", "none", None],
    "from_logits": [False, True],
    "multioutput": ["uniform_average", "raw_values", "variance_weighted"],
    "limit_k_to_size": [False, True],
    "criteria": ["exact_match", "hamming", "overlap", "contain", "belong"],
    "normalize": [None, "all", "pred", "true"],
    "reorder": [False, True],
    "empty_target_action": ["neg", "pos", "skip", "err"],
    "ignore_index": [None, 1],
    "enable_lifetime": [True, False],
}


def option_variants(rows: list[dict]) -> list[dict]:
    """rows + one variant row per (row, option parameter accepted by the functional or the class ctor, other value).
    A variant whose base call raises is an inapplicable option value for that layout and is skipped by the stream."""
    out = []
    seen = set()
    for r in rows:
        out.append(r)
        params = {}
        if r.get("fn"):
            params.update(inspect.signature(resolve_fn(r["fn"])).parameters)
        if r.get("cls"):
            params.update({k: v for k, v in inspect.signature(resolve_cls(r["cls"]).__init__).parameters.items() if k != "self"})
        for opt, values in OPTION_VALUES.items():
            if opt not in params:
                continue
            cur = r["kw"].get(opt, params[opt].default)
            for v in values:
                if v == cur and type(v) is type(cur):
                    continue
                key = (r.get("fn"), r.get("cls"), r["tag"], opt, repr(v))
                if key in seen:
                    continue
                seen.add(key)
                v2 = dict(r)
                v2["kw"] = {**r["kw"], opt: v}
                v2["tag"] = (r["tag"] + "," if r["tag"] else "") + f"{opt}={v}"
                v2["variant"] = True
                out.append(v2)
    return out


# weight-like tensor arguments and the argument whose shape they must have (documented: a tensor weight matches the
# input; only a Python scalar weight broadcasts).  MSE `sample_weight` is documented as (n_sample,).
WEIGHT_OF = {"weight": "input", "weights": "input", "x_weights": "x", "y_weights": "y",
             "new_weights_dist_1": "new_samples_dist_1", "new_weights_dist_2": "new_samples_dist_2"}


def weight_contract(targs: dict) -> list[str]:
    """Names of tensor weight arguments whose shape violates the documented contract."""
    bad = []
    for w, ref in WEIGHT_OF.items():
        if isinstance(targs.get(w), torch.Tensor) and isinstance(targs.get(ref), torch.Tensor):
            if list(targs[w].shape) != list(targs[ref].shape):
                bad.append(w)
    sw, ref = targs.get("sample_weight"), targs.get("input")
    if isinstance(sw, torch.Tensor) and isinstance(ref, torch.Tensor):
        if sw.ndim != 1 or ref.ndim < 1 or sw.shape[0] != ref.shape[0]:
            bad.append("sample_weight")
    return bad


def is_weight_arg(a: str) -> bool:
    return a in WEIGHT_OF or a == "sample_weight"


def resolve_fn(name: str):
    if "." in name:
        mod, _, f = name.rpartition(".")
        return getattr(__import__(mod, fromlist=[f]), f)
    import torcheval.metrics.functional as F
    return getattr(F, name)


def resolve_cls(name: str):
    if "." in name:
        mod, _, f = name.rpartition(".")
        return getattr(__import__(mod, fromlist=[f]), f)
    import torcheval.metrics as M
    return getattr(M, name)


def split_class_args(cls, row):
    """ctor kwargs / update kwargs from a row (by the signatures of __init__ and update)."""
    ip = set(inspect.signature(cls.__init__).parameters)
    up = set(inspect.signature(cls.update).parameters)
    allk = {**row["kw"], **row["ckw"]}
    ctor = {k: v for k, v in allk.items() if k in ip}
    upd = {k: v for k, v in row["t"].items() if k in up}
    ctor.update({k: v for k, v in row["t"].items() if k in ip and k not in up})   # threshold
    upd.update({k: v for k, v in allk.items() if k in up and k not in ip})
    return ctor, upd


# ------------------------------------------------------------------------------------------------
# perturbations (the finite set of C18)
# ------------------------------------------------------------------------------------------------
def reshape_cyclic(t: torch.Tensor, new: list[int]) -> torch.Tensor:
    n = 1
    for d in new:
        n *= d
    base = t.flatten()
    if base.numel() == 0:
        base = torch.zeros(1, dtype=t.dtype)
    reps = (n + base.numel() - 1) // base.numel() if n else 0
    return base.repeat(max(reps, 1))[:n].reshape(new)


def shape_perturbations(shp: list[int], weight: bool = False) -> list[tuple[str, list[int]]]:
    out = []
    if weight:      # single-element weights broadcast: always try (), (1,), (1,1)
        out += [("w-0dim", []), ("w-one", [1]), ("w-one-2d", [1, 1])]
    for i in range(len(shp)):
        out.append((f"drop{i}", shp[:i] + shp[i + 1:]))
    out.append(("lead1", [1] + shp))
    out.append(("trail1", shp + [1]))
    out.append(("lead2", [2] + shp))
    if shp:     # two extra dimensions, and trailing dimensions that BROADCAST against the sample dimension
        out += [("trail11", shp + [1, 1]), ("lead11", [1, 1] + shp), ("lead1trail1", [1] + shp + [1]),
                ("trailN", shp + [shp[0]]), ("trail1N", shp + [1, shp[0]])]
    for i, d in enumerate(shp):
        for tag, nd in (("to1", 1), ("minus1", d - 1), ("plus1", d + 1), ("to0", 0)):
            if nd != d and nd >= 0:
                new = shp[:]
                new[i] = nd
                out.append((f"dim{i}{tag}", new))
    seen, res = set(), []
    for tag, s in out:
        if tuple(s) not in seen and s != shp:
            seen.add(tuple(s))
            res.append((tag, s))
    return res


# ------------------------------------------------------------------------------------------------
# recording wrappers around the check functions
# ------------------------------------------------------------------------------------------------
class Recorder:
    """Wraps every translated check function wherever it is referenced inside torcheval; records
    (name, bound arguments, outcome) with outcome in {'ok', 'raise', 'pyerr'}."""

    def __init__(self):
        self.meta = meta()
        self.log: list[dict] = []
        self.installed = False
        self._raise_lines: dict[str, set[int]] = {}
        self._code_raises: dict = {}
        self.defaults: dict[str, dict] = {}   # check function -> {param: default}      # code object of every check function -> line numbers of its raise statements

    def install(self):
        if self.installed:
            return
        import torcheval.metrics  # noqa: F401  (loads every module)
        import torcheval.metrics.functional  # noqa: F401
        import importlib
        for name, m in self.meta.items():
            modname = m["file"][:-3].replace("/", ".")
            mod = importlib.import_module(modname)
            orig = getattr(mod, name, None)
            owner_cls = None
            if orig is None:      # a method (window class)
                for cn, c in vars(mod).items():
                    if inspect.isclass(c) and name in vars(c):
                        owner_cls, orig = c, vars(c)[name]
            if orig is None:
                raise RuntimeError(f"check function {name} not found in {modname}")
            src = Path(core.REPO / m["file"]).read_text()
            lines = set()
            for node in ast.walk(ast.parse(src)):
                if isinstance(node, ast.FunctionDef) and node.name == name:
                    for r in ast.walk(node):
                        if isinstance(r, ast.Raise):
                            lines.update(range(r.lineno, (r.end_lineno or r.lineno) + 1))
            self._raise_lines[name] = lines
            self._code_raises[orig.__code__] = lines
            self.defaults[name] = {k: v.default for k, v in inspect.signature(orig).parameters.items()
                                   if v.default is not inspect.Parameter.empty}
            wrapper = self._wrap(name, orig, owner_cls is not None)
            if owner_cls is not None:
                setattr(owner_cls, name, wrapper)
                continue
            for mn, mm in list(sys.modules.items()):
                if mm is None or not mn.startswith("torcheval"):
                    continue
                if getattr(mm, name, None) is orig:
                    setattr(mm, name, wrapper)
        self.installed = True

    def _wrap(self, name, orig, is_method):
        sig = inspect.signature(orig)
        code = orig.__code__
        rec = self

        def wrapper(*a, **k):
            try:
                b = sig.bind(*a, **k)
                b.apply_defaults()
                args = {p: v for p, v in b.arguments.items() if p != "self"}
            except TypeError:
                args = None
            entry = {"fn": name, "args": args, "outcome": None}
            rec.log.append(entry)
            try:
                r = orig(*a, **k)
                entry["outcome"] = "ok"
                return r
            except BaseException as ex:
                tb = ex.__traceback__
                last = None
                while tb is not None:
                    last = tb
                    tb = tb.tb_next
                # an explicit `raise` statement of this check function or of a check function it calls (inlined by the translator)
                own = last is not None and last.tb_lineno in rec._code_raises.get(last.tb_frame.f_code, ())
                entry["outcome"] = "raise" if own else "pyerr"
                entry["exc"] = type(ex).__name__
                raise
        wrapper.__wrapped__ = orig
        wrapper.__name__ = name
        return wrapper

    def take(self) -> list[dict]:
        out, self.log = self.log, []
        return out


# ------------------------------------------------------------------------------------------------
# encoding of one check-function invocation for the Coq model
# ------------------------------------------------------------------------------------------------
def aval(v):
    if isinstance(v, torch.Tensor):
        return T("t", [int(d) for d in v.shape])
    if v is None:
        return T("none")
    if isinstance(v, bool):
        return bool(v)
    if isinstance(v, int):
        return int(v)
    if isinstance(v, float):
        return T("f")
    if isinstance(v, str):
        return T("s", T(v)) if v and all(c.isalnum() or c == "_" for c in v) else T("o")
    if isinstance(v, list):
        return T("l", len(v))
    return T("o")


def eval_atoms(m: dict, args: dict) -> list:
    """Evaluate the value atoms of a check function on its real arguments (in source order; the opaque
    pre-statements are exec'd into the namespace first).  Exceptions -> [exc]."""
    from copy import deepcopy
    ns = {"torch": torch, "deepcopy": deepcopy}
    ns.update(args)
    vals = []
    for a in m["atoms"]:
        try:
            if a["expr"] is None:
                exec(a["name"], ns)
                vals.append(True)
            else:
                vals.append(bool(eval(a["expr"], ns)))
        except Exception:
            vals.append(T("exc"))
    return vals


def encode_invocation(m: dict, fname: str, args: dict):
    avs = [aval(args.get(p)) for p in m["params"]]
    with torch.no_grad():
        ats = eval_atoms(m, args)
    return [T(fname), avs, ats]


def describe(v):
    if isinstance(v, torch.Tensor):
        return {"shape": list(v.shape), "dtype": str(v.dtype).replace("torch.", "")}
    if isinstance(v, (int, float, str, bool)) or v is None:
        return v
    return repr(v)[:80]
