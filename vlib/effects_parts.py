"""Shared machinery of the effect-layer check parts (C09_registry, C10_registry, C11_effects,
C14_effects): reads the translator's report, re-evaluates the four checkers with the Python mirror
(vlib/effects_check.py) for LOCALISATION ONLY, runs the property-directed searches of
vlib/effects_dyn.py on the real classes, and reports

  * tie obligations (one per class: every method translated; one for the functionals; introspection),
  * per-class verdict counts into the stream distribution,
  * for every offence excused by known_findings.json: a KNOWN-FINDING with the dynamic witness,
  * for every unexcused offence (the Coq table theorem of the property is then broken): a located
    failing input on the real code, or no-failing-input-found with the offending statement,
  * stale excuses (the tree was repaired) as notes, never as violations,
  * a dynamic validation stream: a statically clean class must be clean on the probes too.
"""
from __future__ import annotations

import json

from . import core
from . import effects_check as EC

REPORT = core.OUT / "effects" / "report.json"
ENTRY = ["update", "compute", "merge_state", "_prepare_for_merge_state"]


def tup(x):
    return tuple(tup(y) for y in x) if isinstance(x, list) else x


def load_report():
    r = json.loads(REPORT.read_text())
    r["base"] = {m: {k: (tup(v) if v else None) for k, v in d.items()} for m, d in r["base"].items()}
    for e in r["classes"].values():
        e["methods"] = {m: (tup(v) if v else None) for m, v in e["methods"].items()}
        e["registered"] = [tuple(x) for x in e["registered"]]
    for k in r["excuses"]:
        for e in r["excuses"][k]:
            e["item"] = tup(e["item"])
    for e in r["stale_excuses"]:
        e["item"] = tup(e["item"])
    return r


def ties(ctx, rep, methods, functionals=False, base=True):
    """one tie obligation per class (its relevant methods were translated), + base class, + functionals"""
    ab = {}
    for a in rep["aborted"]:
        ab.setdefault(a["class"], []).append(a)
    for c in rep["classes"]:
        bad = [a for a in ab.get(c, []) if a["method"] in methods or a["method"] in ("*", "registry")]
        ctx.oblige(f"tie:tr_effects:{c}", not bad,
                   detail="; ".join(f"{a['method']}: {a['reason']}" for a in bad))
    if base:
        bad = ab.get("Metric", [])
        ctx.oblige("tie:tr_effects:Metric(base methods)", not bad, detail="; ".join(f"{a['method']}[{a.get('kind')}]: {a['reason']}" for a in bad))
    if functionals:
        bad = ab.get("functional", [])
        ctx.oblige("tie:tr_effects:functionals", not bad, detail="; ".join(f"{a['method']}: {a['reason']}" for a in bad)[:480])
    ctx.oblige("tie:tr_effects:introspection", not rep["introspect_errors"], detail="; ".join(rep["introspect_errors"])[:480])
    return {c for c, v in ab.items() if v}


def sites_of(rep, cls, atom=None, method=None, label=None):
    out = []
    for s in rep["sites"].get(cls, []):
        a = tup(s["atom"])
        if atom is not None:
            a2 = ("Append", a[1], a[2]) if a[0] == "BindElem" else a
            if a2 != atom:
                continue
        if method is not None and s["method"] != method:
            continue
        out.append(f"{s['method']}:{s['line']}: {s['src']}")
    return out[:6]


def excuse_for(rep, kind, prop, cls, item):
    """finding id of the LIVE excuse covering (cls, item) for this property, if any"""
    for e in rep["excuses"][kind]:
        if e["class"] == cls and e["item"] == item and e.get("property") == prop:
            return e["id"]
    return None


def stale_notes(ctx, rep, prop):
    for e in rep["stale_excuses"]:
        if e.get("property") == prop:
            ctx.notes.append(f"stale excuse: known finding {e['id']} ({e['class']} {list(e['item']) if isinstance(e['item'], tuple) else e['item']}) "
                             f"no longer matches the tree (repaired?) -- nothing is suppressed by it")


def mark_collateral(ctx, files, explained: bool):
    """a Props file fails as a whole: once the mirror has explained WHY a table file broke, its
    other theorems are not separate violations"""
    if not explained:
        return
    for o in ctx.obligations:
        if o["file"] in files and not o["ok"]:
            o["located"] = True


def report_offence(ctx, stream, prop, cls, theorem, static_detail, probe, finding_id, what):
    """run the property-directed search for a statically flagged class and emit the violation /
    known finding (with the failing input when one is found)"""
    n, w = (0, None)
    try:
        n, w = probe()
    except Exception as ex:  # noqa: BLE001
        static_detail = dict(static_detail, search_error=f"{type(ex).__name__}: {ex}"[:300])
    for _ in range(max(n, 1)):
        stream.case((cls, what, _), True)
    stream.count(f"search:{'failing-input' if w else 'none'}")
    detail = dict(static_detail)
    detail["broken"] = theorem
    detail["class"] = cls
    if w:
        detail.update(w)
        stream.mismatches.append({"class": cls, "what": what})
        ctx.violation("failing-input", cls, detail, finding_id=finding_id)
    else:
        detail["explanation"] = "static check over the translated skeleton flags this statement; the search on the real code found no failing input"
        ctx.violation("no-failing-input-found", cls, detail, finding_id=finding_id)


def dynamic_validation(ctx, name, probe_of, flagged: set, tie_prefix, group_over=4):
    """every class: run the probe; a statically clean class with a dynamic witness is a violation
    (the translator / classification table missed an effect).  When more than `group_over` classes
    fail the same probe the cause is shared (base class / a common helper): ONE violation is
    reported, listing the classes and carrying the first witness."""
    from . import effects_dyn as D
    s = ctx.stream(name)
    wit = {}
    for cls_name, cls in D.classes().items():
        if cls_name in flagged:
            s.count("skipped:statically-flagged")
            continue
        try:
            n, w = probe_of(cls_name, cls)
        except Exception as ex:  # noqa: BLE001
            ctx.oblige(f"{tie_prefix}:{cls_name}", False, detail=f"probe raised {type(ex).__name__}: {ex}"[:300])
            continue
        for i in range(n):
            s.case((cls_name, i), True, sample={"class": cls_name, "probe": name} if i == 0 else None)
        s.count("class-clean" if not w else "class-witness")
        ctx.oblige(f"{tie_prefix}:{cls_name}", w is None, detail=json.dumps(core.canon(w))[:400] if w else "")
        if w:
            wit[cls_name] = w
            s.mismatches.append({"class": cls_name})
            ctx.obligations[-1]["located"] = True
    expl = "the static effect check passes this class but the real code violates the property on this input"
    if len(wit) > group_over:
        first = next(iter(wit))
        ctx.violation("failing-input", "Metric (shared by %d classes)" % len(wit),
                      dict(wit[first], broken=f"{tie_prefix}:*", affected_classes=sorted(wit),
                           explanation="many classes fail the same probe: shared cause (base class metric.py or a common helper); first witness shown"))
    else:
        for cls_name, w in wit.items():
            ctx.violation("failing-input", cls_name, dict(w, broken=f"{tie_prefix}:{cls_name}", explanation=expl))
    return s


def base_offences(rep, method, placeholder):
    """mirror of Effects.base_binds_fresh: atoms of base method `method` that store something other
    than fresh storage / an immutable into the placeholder field"""
    out = []
    for k, sk in rep["base"].get(method, {}).items():
        if sk is None:
            out.append((k, "untranslated"))
            continue
        ats = EC.atoms(sk)
        if not any(a[0] == "Bind" and a[1] == placeholder for a in ats):
            out.append((k, f"no binding of {placeholder}"))
        for a in ats:
            if a[0] in ("Bind", "Append") and a[1] == placeholder and a[2][0] not in ("Fresh", "Imm"):
                out.append((k, list(a)))
            if a[0] == "InPlace" and a[1] == placeholder or a[0] == "Clobber":
                out.append((k, list(a)))
    return out


def base_report(ctx, rep, theorem, method, placeholder, mode, files):
    """metric.py copy discipline: if the translated base method stores an alias, look for a class
    whose tensors really share storage and report ONE violation"""
    from . import effects_dyn as D
    offs = base_offences(rep, method, placeholder)
    if not offs:
        return False
    w = None
    for cls_name, cls in D.classes().items():
        try:
            _, w = D.probe_copies(cls_name, cls, mode)
        except Exception:  # noqa: BLE001
            w = None
        if w:
            break
    detail = {"broken": theorem, "check": f"metric.py {method}() stores fresh storage into {placeholder}", "base_method": method,
              "offending_statements": [[k, a] for k, a in offs],
              "where": [f"{s_['method']}[{s_.get('kind')}]:{s_['line']}: {s_['src']}" for s_ in rep["sites"].get("Metric", []) if s_["method"] == method][:6]}
    if w:
        detail.update(w)
        ctx.violation("failing-input", f"Metric.{method}", detail)
    else:
        ctx.violation("no-failing-input-found", f"Metric.{method}", detail)
    mark_collateral(ctx, files, True)
    return True
