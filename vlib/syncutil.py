"""Shared machinery of the C15 / C02 check parts (T-trace tie of the L-proto models).

A SCENARIO is a JSON-able dict
  {"kind": "send" | "states" | "toolkit", "W": world size, "group": [global ranks, group order],
   "dst": None | int, "members": [one entry per member of the group], ...}
  send    : members[j] = tensor spec {"dtype", "shape", "data"}
  states  : members[j] = {metric: {state: spec}}, spec = tensor spec | {"list": [tensor spec]} |
            {"dict": [[key, tensor spec], ...] (insertion order)} | {"obj": number, "float": bool}
  toolkit : "entry" (one of the 6 toolkit functions), members[j] = [[name, class key, [update args ...]], ...]
It is executed (a) by the real synclib / toolkit code on the checking transport (vlib.simdist),
(b) by the extracted Coq model (models sync_send / sync_states / sync_toolkit), (c) optionally by the
real code on real gloo process groups (vlib.gloo_runner); per-rank traces and outcomes are compared.
"""
from __future__ import annotations
import copy
import logging
import warnings
from fractions import Fraction

import torch

from .model import T, NONE

DTYPES = {"float32": 0, "float64": 1, "int32": 2, "int64": 3, "bool": 4, "uint8": 5}
TORCH_DT = {"float32": torch.float32, "float64": torch.float64, "int32": torch.int32, "int64": torch.int64,
            "bool": torch.bool, "uint8": torch.uint8}
CODE_DT = {v: k for k, v in DTYPES.items()}


def quiet():
    logging.disable(logging.CRITICAL)
    warnings.simplefilter("ignore")


# ------------------------------------------------------------------------------ tensors <-> specs <-> vals
def mk_tensor(spec) -> torch.Tensor:
    dt = TORCH_DT[spec["dtype"]]
    shape = list(spec["shape"])
    flat = _flatten(spec["data"])
    return torch.tensor([float(Fraction(x)) if dt.is_floating_point else int(Fraction(x)) for x in flat], dtype=dt).reshape(shape)


def _flatten(x):
    if isinstance(x, list):
        out = []
        for y in x:
            out += _flatten(y)
        return out
    return [x]


def spec_of(t: torch.Tensor) -> dict:
    return {"dtype": str(t.dtype).replace("torch.", ""), "shape": list(t.shape), "data": _num(t.detach().tolist())}


def _num(x):
    if isinstance(x, list):
        return [_num(y) for y in x]
    if isinstance(x, bool):
        return int(x)
    if isinstance(x, (int, T)):
        return x
    if isinstance(x, Fraction):
        return x.numerator if x.denominator == 1 else x
    if x != x:
        return T("nan")
    if x in (float("inf"), float("-inf")):
        return T("pinf" if x > 0 else "ninf")
    f = Fraction(x)
    return f.numerator if f.denominator == 1 else f


def tval(t) -> T:
    """torch tensor or tensor spec -> model value [t code (shape) data]"""
    if isinstance(t, torch.Tensor):
        t = spec_of(t)
    return T("t", DTYPES[t["dtype"]], list(t["shape"]), _num_spec(t["data"]))


def _num_spec(x):
    if isinstance(x, list):
        return [_num_spec(y) for y in x]
    if isinstance(x, str):
        return Fraction(x)
    return _num(x)


def is_tspec(s):
    return isinstance(s, dict) and "dtype" in s


def state_val(s):
    """state spec or real state value -> model value"""
    if isinstance(s, torch.Tensor) or is_tspec(s):
        return tval(s)
    if isinstance(s, list):
        return [tval(x) for x in s]
    if isinstance(s, dict) and "list" in s:
        return [tval(x) for x in s["list"]]
    if isinstance(s, dict) and "dict" in s:
        return T("dict", *[[T(k), tval(v)] for k, v in s["dict"]])
    if isinstance(s, dict) and "obj" in s:
        return oval(float(s["obj"]) if s.get("float") else int(s["obj"]))
    if isinstance(s, dict):          # a real dict state (insertion order)
        return T("dict", *[[T(k), tval(v)] for k, v in s.items()])
    if isinstance(s, (int, float)):
        return oval(s)
    raise TypeError(type(s))


def oval(x):
    """a Python number state: ints and floats stay distinguishable"""
    if isinstance(x, bool):
        return T("o", T("b", int(x)))
    if isinstance(x, int):
        return T("o", x)
    return T("o", T("f", _num(x)))


def mk_state(s):
    if is_tspec(s):
        return mk_tensor(s)
    if "list" in s:
        return [mk_tensor(x) for x in s["list"]]
    if "dict" in s:
        return {k: mk_tensor(v) for k, v in s["dict"]}
    if "obj" in s:
        return float(s["obj"]) if s.get("float") else int(s["obj"])
    raise TypeError(s)


def mdict_val(md: dict):
    """{metric: {state: value-or-spec}} in insertion order -> model value"""
    return [[T(m), [[T(s), state_val(v)] for s, v in sd.items()]] for m, sd in md.items()]


def gathered_val(x):
    """a gathered state value as returned by the real sync_states -> model value (val_of_gs)"""
    if isinstance(x, torch.Tensor):
        return tval(x)
    if isinstance(x, list):
        return [tval(y) for y in x]
    if isinstance(x, dict):
        return T("dict", *[[T(k), tval(v)] for k, v in x.items()])
    if isinstance(x, (bool, int, float)):
        return oval(x)
    raise TypeError(type(x))


def gdicts_val(res):
    """result of sync_states: None | list (one per world slot) of {metric: {state: value}}"""
    if res is None:
        return NONE
    out = []
    for slot in res:
        out.append([[T(m), T(s), gathered_val(slot[m][s])] for m in sorted(slot) for s in sorted(slot[m])])
    return out


def desc_val(d):
    k = d[0]
    if k == "all_gather":
        return T(k, list(d[1]), DTYPES[d[2]])
    if k == "gather":
        return T(k, d[1], list(d[2]), DTYPES[d[3]])
    if k == "all_gather_object":
        return T(k)
    if k == "gather_object":
        return T(k, d[1])
    if k == "broadcast_object_list":
        return T(k, d[1], d[2])
    raise ValueError(d)


# ------------------------------------------------------------------------------ which variant does the tree implement?
_T1 = {"dtype": "float32", "shape": [2], "data": [5, 6]}
PROBES = {
    "D12": {"kind": "states", "W": 2, "group": [0, 1], "dst": None,
            "members": [{"m": {"x": {"list": []}}}, {"m": {"x": {"list": []}}}]},
    "D9": {"kind": "states", "W": 3, "group": [1, 2], "dst": None,
           "members": [{"m": {"x": {"list": []}}}, {"m": {"x": {"list": [_T1]}}}]},
    "DST": {"kind": "send", "W": 3, "group": [1, 2], "dst": 1, "members": [_T1, {"dtype": "float32", "shape": [3], "data": [1, 2, 3]}]},
    "D10": {"kind": "send", "W": 2, "group": [0, 1], "dst": None, "members": [{"dtype": "float32", "shape": [], "data": 1}, _T1]},
    # fixes/sync-dtype.patch (dtype negotiation next to the ndim negotiation): a float32 and a float64 scalar
    "DT": {"kind": "send", "W": 2, "group": [0, 1], "dst": None,
           "members": [{"dtype": "float32", "shape": [], "data": 1}, {"dtype": "float64", "shape": [], "data": 2}]},
}
_VARIANT = None


def detect_variant():
    """The correspondence DECIDES which variant of the model the tree implements (DESIGN 2.3): the three
    witness scenarios are run on the real code; returns {"D12": fixed?, "D9": fixed?, "DST": fixed?, "D10": fixed?,
    "DT": fixed?} (DT = dtype negotiation of send_tensors, fixes/sync-dtype.patch; model switch fx_dt)."""
    global _VARIANT
    if _VARIANT is not None:
        return _VARIANT
    v = {}
    out, _ = run_sim(PROBES["D12"])
    v["D12"] = out[0][0] == "ok" and out[0][1] != NONE and out[0][1][0][0][2] == []
    out, _ = run_sim(PROBES["D9"])
    v["D9"] = all(out[r][0] == "ok" for r in (1, 2))
    out, _ = run_sim(PROBES["DST"])
    v["DST"] = all(out[r][0] == "ok" for r in (1, 2))
    out, _ = run_sim(PROBES["D10"])
    v["D10"] = all(out[r][0] == "ok" for r in (0, 1))
    out, _ = run_sim(PROBES["DT"])
    v["DT"] = all(out[r][0] == "ok" for r in (0, 1))
    _VARIANT = v
    return v


def variant_val():
    v = detect_variant()
    return [v["D12"], v["D9"], v["DST"], v["D10"], v["DT"]]


def variant_note():
    v = detect_variant()
    return "model variant decided by the correspondence: " + ", ".join(f"{k}={'V_fixed' if x else 'V_code'}" for k, x in v.items())


# ------------------------------------------------------------------------------ model side
def model_case(scn):
    g = list(scn["group"])
    if scn["kind"] == "send":
        return ("sync_send", [scn["W"], g, scn["dst"], variant_val(), [tval(t) for t in scn["members"]]])
    if scn["kind"] == "states":
        return ("sync_states", [scn["W"], g, scn["dst"], variant_val(), [mdict_val({m: dict(sd) for m, sd in md.items()}) for md in scn["members"]]])
    if scn["kind"] == "toolkit":
        return toolkit_model_case(scn)
    raise ValueError(scn["kind"])


def model_outcome(out, n):
    """decoded model output -> (per-rank traces, per-rank outcomes | 'mismatch')"""
    if not (isinstance(out, list) and len(out) == 2):
        return None, ("bad-model-output", repr(out)[:200])
    rounds, res = out
    traces = [[] for _ in range(n)]
    for rnd in rounds:
        for j, c in enumerate(rnd):
            if c != NONE:
                traces[j].append(c)
    if isinstance(res, T) and res.tag == "mismatch":
        return traces, "mismatch"
    return traces, res


def compare(scn, mout, iout, itrace):
    """model output vs transport outcome.  Returns None or a description."""
    g = scn["group"]
    n = len(g)
    mtr, mres = model_outcome(mout, n)
    if mtr is None:
        return f"model output malformed: {mres}"
    for j, r in enumerate(g):
        it = [desc_val(d) for d in itrace[r]]
        if it != mtr[j]:
            return f"trace of group rank {j} (global {r}): model {mtr[j]} vs impl {it}"
    imis = any(iout[r][0] == "mismatch" for r in g)
    if mres == "mismatch" or imis:
        if (mres == "mismatch") != imis:
            return f"mismatch/hang: model {mres!r:.200} vs impl {[iout[r][0] for r in g]}"
        return None
    for j, r in enumerate(g):
        m, i = mres[j], iout[r]
        if i[0] == "exc":
            if not (isinstance(m, T) and m.tag == "exc" and m.args[0].tag == i[1]):
                return f"group rank {j}: model {m!r:.200} vs impl raised {i[1]}: {i[2]}"
        else:
            if not (isinstance(m, T) and m.tag == "ok" and m.args[0] == i[1]):
                return f"group rank {j}: model {m!r:.300} vs impl {i[1]!r:.300}"
    return None


# ------------------------------------------------------------------------------ implementation side
def exec_member(scn, j, group_obj):
    """What member j of the group executes (real synclib code); result canonicalised to a model value."""
    from torcheval.metrics import synclib
    if scn["kind"] == "send":
        t = mk_tensor(scn["members"][j])
        res = synclib.send_tensors(t, group=group_obj, rank=scn["dst"])
        return NONE if res is None else [tval(x) for x in res]
    if scn["kind"] == "states":
        md = {m: {s: mk_state(v) for s, v in sd.items()} for m, sd in scn["members"][j].items()}
        devices = {m: torch.device("cpu") for m in md}
        res = synclib.sync_states(md, devices, synclib.metrics_traversal_order(md), process_group=group_obj,
                                  rank=scn["dst"])
        return gdicts_val(res)
    if scn["kind"] == "toolkit":
        return exec_toolkit(scn, j, group_obj)
    raise ValueError(scn["kind"])


def run_sim(scn, member_fn=exec_member, delays=None):
    """Run a scenario on the checking transport.  Returns ({global rank: outcome}, {global rank: trace})."""
    from . import simdist
    g = list(scn["group"])
    W = scn["W"]

    def fn(r):
        j = g.index(r)
        grp = None if g == list(range(W)) and not scn.get("explicit_group") else simdist.SimGroup(g)
        return member_fn(scn, j, grp)
    with simdist.Sim(W, delays=delays) as s:
        return s.run(fn, ranks=g)


# ------------------------------------------------------------------------------ generators
def gen_group(rng, quick=True):
    W = rng.choice([1, 2, 2, 3, 3, 3, 4, 4, 5, 6, 7, 8])
    mode = rng.choice(["world", "world", "sub", "sub-no0", "sub"])
    lo = 1 if rng.random() < 0.15 else 2      # groups of one: world1_identity path
    if mode == "world" or W == 1:
        g = list(range(W))
    elif mode == "sub":
        k = rng.randint(min(lo, W), W)
        g = sorted(rng.sample(range(W), k))   # torch.distributed.new_group sorts the ranks
    else:
        k = rng.randint(min(lo, W - 1), W - 1)
        g = sorted(rng.sample(range(1, W), k))
    return W, g


def gen_data(rng, dtype, shape):
    def go(dims):
        if not dims:
            if dtype == "bool":
                return rng.randint(0, 1)
            if dtype == "uint8":
                return rng.randint(0, 9)
            if dtype.startswith("int"):
                return rng.randint(-9, 9)
            return Fraction(rng.randint(-12, 12), 2)
        return [go(dims[1:]) for _ in range(dims[0])]
    return go(list(shape))


def gen_tensor(rng, dtype, ndim, shape=None):
    shape = [rng.choice([0, 1, 1, 2, 2, 3]) for _ in range(ndim)] if shape is None else list(shape)
    return {"dtype": dtype, "shape": shape, "data": gen_data(rng, dtype, shape)}


def jsonable(x):
    if isinstance(x, Fraction):
        return str(x)
    if isinstance(x, list):
        return [jsonable(y) for y in x]
    if isinstance(x, tuple):
        return [jsonable(y) for y in x]
    if isinstance(x, dict):
        return {k: jsonable(v) for k, v in x.items()}
    return x


def shifted(g):
    return any(r != j for j, r in enumerate(g))


# ============================================================================== toolkit scenarios (C02)
ENTRIES = ["sync_and_compute", "get_synced_metric", "get_synced_state_dict",
           "sync_and_compute_collection", "get_synced_metric_collection", "get_synced_state_dict_collection"]


def _harness_metrics():
    """Custom metrics over every TState kind (the repo's DummySumDictStateMetric.merge_state calls
    ``metric.keys()`` and cannot be merged at all, so the dict-state metric is defined here)."""
    from collections import defaultdict
    from torcheval.metrics import Metric

    class DictSumMetric(Metric[dict]):
        def __init__(self, device=None):
            super().__init__(device=device)
            self._add_state("x", defaultdict(lambda: torch.tensor(0.0)))

        @torch.inference_mode()
        def update(self, k, v):
            self.x[k] = self.x[k] + v
            return self

        @torch.inference_mode()
        def compute(self):
            return {k: v for k, v in sorted(self.x.items())}

        @torch.inference_mode()
        def merge_state(self, metrics):
            for m in metrics:
                for k in m.x.keys():
                    self.x[k] = self.x[k] + m.x[k]
            return self

    class MixedMetric(Metric[tuple]):
        """tensor + list + dict + int + float states"""

        def __init__(self, device=None):
            super().__init__(device=device)
            self._add_state("total", torch.zeros(2, dtype=torch.float64))
            self._add_state("items", [])
            self._add_state("by_key", {})
            self._add_state("count", 0)
            self._add_state("weight", 0.0)

        @torch.inference_mode()
        def update(self, x):
            self.total = self.total + torch.stack([x.double().sum(), (x.double() ** 2).sum()])
            self.items.append(x)
            k = "n%d" % x.numel()
            self.by_key[k] = self.by_key.get(k, torch.tensor(0.0)) + x.float().sum()
            self.count += int(x.numel())
            self.weight += 0.5
            return self

        @torch.inference_mode()
        def compute(self):
            return (self.total, [t for t in self.items], {k: self.by_key[k] for k in sorted(self.by_key)},
                    self.count, self.weight)

        @torch.inference_mode()
        def merge_state(self, metrics):
            for m in metrics:
                self.total = self.total + m.total
                self.items.extend(m.items)
                for k in m.by_key:
                    self.by_key[k] = self.by_key.get(k, torch.tensor(0.0)) + m.by_key[k]
                self.count += m.count
                self.weight += m.weight
            return self

    return {"DictSumMetric": DictSumMetric, "MixedMetric": MixedMetric}


_CLS = None


def classes():
    """class key -> (constructor, update-argument generator (rng, variant) -> list of arg specs)"""
    global _CLS
    if _CLS is not None:
        return _CLS
    import torcheval.metrics as M
    from torcheval.utils.test_utils.dummy_metric import DummySumMetric, DummySumListStateMetric
    H = _harness_metrics()

    def vec(rng, dtype="float32", lo=0, hi=3):
        return gen_tensor(rng, dtype, 1, [rng.randint(lo, hi)])

    def xy(rng, k=None, cols=None, dt="float32"):
        k = rng.randint(1, 3) if k is None else k
        shape = [k] if cols is None else [k, cols]
        return [gen_tensor(rng, dt, len(shape), shape), gen_tensor(rng, dt, len(shape), shape)]

    def acc_args(rng, v, dt="float32"):
        k = rng.randint(1, 3)
        return [gen_tensor(rng, dt, 2, [k, 3]),
                {"dtype": "int64", "shape": [k], "data": [rng.randint(0, 2) for _ in range(k)]}]

    def auroc_args(rng, v, dt="float32"):
        k = rng.randint(1, 3)
        return [gen_tensor(rng, dt, 1, [k]),
                {"dtype": "float32", "shape": [k], "data": [rng.randint(0, 1) for _ in range(k)]}]

    # every generator: (rng, variant, dt="float32") -> update arguments; ``dt`` is the dtype of the data
    # tensors (all of them: input and target of the regression classes share it)
    _CLS = {
        "Mean": (lambda: M.Mean(), lambda rng, v, dt="float32": [vec(rng, dt, lo=1)]),
        "Sum": (lambda: M.Sum(), lambda rng, v, dt="float32": [vec(rng, dt, lo=1)]),
        "Max": (lambda: M.Max(), lambda rng, v, dt="float32": [vec(rng, dt, lo=1)]),
        "Min": (lambda: M.Min(), lambda rng, v, dt="float32": [vec(rng, dt, lo=1)]),
        "Cat": (lambda: M.Cat(), lambda rng, v, dt="float32": [vec(rng, rng.choice(["float32", "int64"]) if v is None else v)]),
        "Cat2d": (lambda: M.Cat(dim=0), lambda rng, v, dt="float32": [gen_tensor(rng, dt, 2, [rng.randint(0, 3), 2])]),
        "Throughput": (lambda: M.Throughput(), lambda rng, v, dt="float32": [rng.randint(1, 9), rng.randint(1, 8) / 4]),
        "MulticlassAccuracy": (lambda: M.MulticlassAccuracy(), acc_args),
        "MulticlassAccuracyMacro": (lambda: M.MulticlassAccuracy(average="macro", num_classes=3), acc_args),
        "BinaryAUROC": (lambda: M.BinaryAUROC(), auroc_args),
        "MeanSquaredError": (lambda: M.MeanSquaredError(), lambda rng, v, dt="float32": xy(rng, dt=dt)),
        "MeanSquaredErrorRaw": (lambda: M.MeanSquaredError(multioutput="raw_values"), lambda rng, v, dt="float32": xy(rng, cols=2, dt=dt)),
        "R2ScoreRaw": (lambda: M.R2Score(multioutput="raw_values"), lambda rng, v, dt="float32": xy(rng, k=rng.randint(2, 3), cols=2, dt=dt)),
        "Covariance": (lambda: M.Covariance(), lambda rng, v, dt="float32": [gen_tensor(rng, dt, 2, [rng.randint(1, 3), 2])]),
        "DummySumMetric": (lambda: DummySumMetric(), lambda rng, v, dt="float32": [gen_tensor(rng, dt, 0)]),
        "DummySumListStateMetric": (lambda: DummySumListStateMetric(), lambda rng, v, dt="float32": [gen_tensor(rng, dt, rng.choice([1, 2]) if v is None else v)]),
        "DictSumMetric": (H["DictSumMetric"], lambda rng, v, dt="float32": [rng.choice(["a", "b", "c"]) if v is None else v, gen_tensor(rng, dt, 0)]),
        "MixedMetric": (H["MixedMetric"], lambda rng, v, dt="float32": [vec(rng, dt, lo=1)]),
    }
    return _CLS


_FLOATS = ["float32", "float64"]
_NUMS = ["float32", "float64", "int32", "int64"]
# dtypes of update data fed to the SCHEMA tie (Models/SyncSchema.v), raising ones included: an update that
# raises leaves the schema unchanged (bool: ``-`` on bool tensors; Covariance: mean() of integer data;
# MSE / R2: a float batch added in place to an integer state)
UPDATE_DTYPES = {
    "Mean": _NUMS, "Sum": _NUMS, "Max": _NUMS + ["uint8", "bool"], "Min": _NUMS + ["uint8", "bool"],
    "Cat": ["float32"], "Cat2d": _NUMS, "Throughput": ["float32"],
    "MulticlassAccuracy": _NUMS, "MulticlassAccuracyMacro": _NUMS, "BinaryAUROC": _NUMS,
    "MeanSquaredError": _NUMS + ["uint8", "bool"], "MeanSquaredErrorRaw": _NUMS + ["uint8", "bool"],
    "R2ScoreRaw": _NUMS + ["uint8", "bool"], "Covariance": _FLOATS + _FLOATS + ["int64", "bool"],
    "DummySumMetric": _NUMS, "DummySumListStateMetric": _NUMS, "DictSumMetric": _FLOATS, "MixedMetric": _NUMS,
}
# dtypes that may be mixed freely inside one VALID history of a toolkit scenario (every update succeeds).
# Classes with list / dict states keep float32 data (element dtypes are an input contract of synclib).
MIXABLE_DTYPES = {
    "Mean": ["float32", "float64", "int64"], "Sum": ["float32", "float64", "int64"],
    "Max": ["float32", "float64", "int64"], "Min": ["float32", "float64", "int64"],
    "MulticlassAccuracy": _FLOATS, "MulticlassAccuracyMacro": _FLOATS,
    "MeanSquaredError": ["float32", "float64", "int64"], "MeanSquaredErrorRaw": _FLOATS, "R2ScoreRaw": _FLOATS,
    "Covariance": _FLOATS, "DummySumMetric": ["float32", "float64", "int64"],
}
# classes with a tensor state whose dtype follows the data (known finding C02-state-dtype-follows-data)
DTYPE_FOLLOWS_DATA = {"Max", "Min", "MeanSquaredErrorRaw", "R2ScoreRaw", "Covariance"}


NDIM_BY_FIRST_UPDATE = {"MeanSquaredErrorRaw", "R2ScoreRaw", "Covariance"}


def build_metric(mspec):
    """mspec = [name, class key, [update args ...]] -> a freshly constructed and updated metric"""
    _, ck, updates = mspec
    m = classes()[ck][0]()
    for args in updates:
        m.update(*[mk_tensor(a) if is_tspec(a) else a for a in args])
    return m


def prepared_state_dict(metric):
    c = copy.deepcopy(metric)
    c._prepare_for_merge_state()
    return c.state_dict()


def toolkit_model_case(scn):
    g = list(scn["group"])
    coll = scn["entry"].endswith("_collection")
    mds = []
    for member in scn["members"]:
        md = {}
        for mspec in member:
            md["tmp" if not coll else mspec[0]] = prepared_state_dict(build_metric(mspec))
        mds.append(mdict_val(md))
    return ("sync_toolkit", [scn["W"], g, 1 if coll else 0, variant_val(), mds])


def result_val(x):
    """canonical value of whatever a toolkit entry point returns"""
    from torcheval.metrics import Metric
    if isinstance(x, Metric):
        return T("metric", result_val(x.state_dict()))
    if isinstance(x, torch.Tensor):
        return tval(x)
    if isinstance(x, dict):
        return T("dict", *[[T(str(k)), result_val(v)] for k, v in sorted(x.items(), key=lambda kv: str(kv[0]))])
    if isinstance(x, (list, tuple)):
        return [result_val(y) for y in x]
    if isinstance(x, (bool, int, float)):
        return oval(x)
    if x is None:
        return NONE
    return T("repr:" + type(x).__name__)


def post(entry, synced):
    """what the entry point does with the synced metric(s)"""
    if entry == "sync_and_compute":
        return synced.compute()
    if entry == "get_synced_metric":
        return synced
    if entry == "get_synced_state_dict":
        return synced.state_dict() if synced else {}
    if entry == "sync_and_compute_collection":
        return {k: m.compute() for k, m in synced.items()}
    if entry == "get_synced_metric_collection":
        return dict(synced)
    if entry == "get_synced_state_dict_collection":
        return {k: m.state_dict() for k, m in synced.items()}
    raise ValueError(entry)


def exec_toolkit(scn, j, group_obj):
    from torcheval.metrics import toolkit
    entry = scn["entry"]
    ms = [(mspec[0], build_metric(mspec)) for mspec in scn["members"][j]]
    arg = dict(ms) if entry.endswith("_collection") else ms[0][1]
    return result_val(getattr(toolkit, entry)(arg, group_obj))


def _tofloat(x):
    if isinstance(x, T):
        return {"nan": float("nan"), "pinf": float("inf"), "ninf": float("-inf")}[x.tag]
    return float(x)


def tensor_from_val(v):
    dt = TORCH_DT[CODE_DT[v.args[0]]]
    flat = _flatten(v.args[2])
    return torch.tensor([_tofloat(x) if dt.is_floating_point else int(x) for x in flat], dtype=dt).reshape(list(v.args[1]))


def pseudo_from_val(pv, local_sd):
    """model value of a pseudo metric ((name gathered-value) ...) -> object with those attributes"""
    attrs = {}
    for name, v in pv:
        name = name.tag
        if isinstance(v, T) and v.tag == "t":
            attrs[name] = tensor_from_val(v)
        elif isinstance(v, list):
            attrs[name] = [tensor_from_val(x) for x in v]
        elif isinstance(v, T) and v.tag == "dict":
            attrs[name] = {k.tag: tensor_from_val(t) for k, t in v.args}
        elif isinstance(v, T) and v.tag == "o":
            x = v.args[0]
            attrs[name] = _tofloat(x.args[0]) if isinstance(x, T) and x.tag == "f" else int(x)
        else:
            raise ValueError(repr(v))
    return type("", (), attrs)


def expected_from_recipe(scn, j, mval):
    """the model's answer for member j (``self`` or ``merged others``) executed with the real classes"""
    entry = scn["entry"]
    coll = entry.endswith("_collection")
    ms = [(mspec[0], build_metric(mspec)) for mspec in scn["members"][j]]

    def realise(metric, rec):
        if rec.tag == "self":
            return metric
        metric._prepare_for_merge_state()
        sd = metric.state_dict()
        return copy.deepcopy(metric).merge_state([pseudo_from_val(p, sd) for p in rec.args[0]])
    if not coll:
        return result_val(post(entry, realise(ms[0][1], mval)))
    recs = {k.tag: r for k, r in mval}
    return result_val(post(entry, {k: realise(m, recs[k]) for k, m in ms}))


def local_merge(scn, j):
    """C02's promise for member j: clone(local).merge_state(other members in rank order), computed locally"""
    entry = scn["entry"]
    n = len(scn["group"])
    if n == 1:
        ms = [(mspec[0], build_metric(mspec)) for mspec in scn["members"][j]]
        return result_val(post(entry, dict(ms) if entry.endswith("_collection") else ms[0][1]))
    allm = [[(mspec[0], build_metric(mspec)) for mspec in member] for member in scn["members"]]
    for member in allm:
        for _, m in member:
            m._prepare_for_merge_state()
    out = {}
    byname = [dict(member) for member in allm]
    for name, m in allm[j]:
        out[name] = copy.deepcopy(m).merge_state([byname[k][name] for k in range(n) if k != j])
    if not entry.endswith("_collection"):
        return result_val(post(entry, next(iter(out.values()))))
    return result_val(post(entry, out))


def compare_toolkit(scn, mout, iout, itrace):
    g = scn["group"]
    n = len(g)
    mtr, mres = model_outcome(mout, n)
    if mtr is None:
        return f"model output malformed: {mres}"
    for j, r in enumerate(g):
        it = [desc_val(d) for d in itrace[r]]
        if it != mtr[j]:
            return f"trace of group rank {j} (global {r}): model {mtr[j]} vs impl {it}"
    imis = any(iout[r][0] == "mismatch" for r in g)
    if mres == "mismatch" or imis:
        if (mres == "mismatch") != imis:
            return f"mismatch/hang: model {mres!r:.200} vs impl {[iout[r][0] for r in g]}"
        return None
    for j, r in enumerate(g):
        m, i = mres[j], iout[r]
        if isinstance(m, T) and m.tag == "exc":
            if not (i[0] == "exc" and m.args[0].tag == i[1]):
                return f"group rank {j}: model {m!r:.200} vs impl {i!r:.200}"
            continue
        try:
            exp = ("ok", expected_from_recipe(scn, j, m.args[0]))
        except Exception as ex:          # merge_state / compute of the real class raised on the model's recipe
            exp = ("exc", type(ex).__name__, str(ex)[:200])
        if exp[0] != i[0] or exp[1] != i[1]:
            return f"group rank {j}: model recipe gives {exp!r:.300} vs impl {i!r:.300}"
    return None
