"""C01 -- sharded accumulation: merge trees equal a single instance."""
from .. import core, history, generic
from ..catalogue import entries
from ..model import run_model, crosscheck_in_coq

PROPS_FILES = ["Props/C01.v"]
LEVEL_NOTE = ("generic merge-tree theorem + per-class Alg instances; tie = history correspondence (state-level) "
              "of the Coq pool model against the real classes; exact arithmetic, float re-association absorbed by tolerance")


def corr_stream(ctx, mix=None, name="history-correspondence", nhist=None, ents=None):
    s = ctx.stream(name)
    cases, meta = [], []
    for e in (ents or entries()):
        if not e.model:
            continue
        cfgs = e.configs(ctx.rng, ctx.quick)
        per = nhist or ctx.n(12, 150)
        for h in range(per):
            cfg = cfgs[h % len(cfgs)]
            nobj = ctx.rng.choice([2, 3, 3, 4])
            ops = history.gen_history(ctx.rng, e, cfg, nobj=nobj, nops=ctx.rng.choice([4, 8, 14]), mix=mix)
            cases.append(history.model_case(e, cfg, nobj, ops))
            meta.append((e, cfg, nobj, ops))
    outs = run_model(cases)
    bad_entries = {}
    for (e, cfg, nobj, ops), mobs in zip(meta, outs):
        iobs = history.run_impl(e, cfg, nobj, ops)
        d = history.compare_obs(e, ops, mobs, iobs)
        kinds = {o[0] for o in ops}
        s.case((e.name, repr(cfg), repr(ops)), len(kinds) >= 3 and len(ops) >= 4,
               sample={"class": e.name, "cfg": cfg, "nobj": nobj, "ops": [list(o[:2]) for o in ops][:8]})
        s.count("class:" + e.name)
        for o in ops:
            s.count("op:" + o[0])
        if d and e.name not in bad_entries:
            def fails(trial, e=e, cfg=cfg, nobj=nobj):
                return history.check_history(e, cfg, nobj, trial) is not None
            small = history.shrink_ops(ops, fails)
            small = history.shrink_batches(e, cfg, small, fails)
            d2 = history.check_history(e, cfg, nobj, small) or d
            bad_entries[e.name] = {"class": e.name, "cfg": cfg, "nobj": nobj, "ops": small, "disagreement": d2}
            s.mismatches.append(bad_entries[e.name])
    n, dis = crosscheck_in_coq(cases, outs, ctx.prop + name.replace("-", ""), limit=ctx.n(60, 200))
    ctx.oblige("tie:extraction-vs-vm_compute", dis == 0, detail=f"{dis} of {n} sampled cases differ between extracted OCaml and in-Coq vm_compute")
    s.dist["in_coq_crosschecked"] = n
    for e in (ents or entries()):
        if e.model:
            m = bad_entries.get(e.name)
            ctx.oblige(f"tie:corr:{e.name}", m is None, detail=repr(m)[:1500] if m else "")
    return bad_entries


def tree_stream(ctx):
    s = ctx.stream("merge-tree-vs-single-instance (implementation only)")
    for e in entries():
        if not e.merge_exact:
            continue
        cfgs = e.configs(ctx.rng, ctx.quick)
        found = False
        for h in range(ctx.n(15, 200)):
            cfg = cfgs[h % len(cfgs)]
            t = generic.gen_tree(ctx.rng, e, cfg, depth=ctx.rng.choice([1, 2, 2, 3]))
            try:
                d = generic.tree_vs_single(e, cfg, t)
            except Exception as ex:
                d = f"exception {type(ex).__name__}: {ex}"
            s.case((e.name, repr(cfg), repr(t)), generic.tree_size(t) >= 3,
                   sample={"class": e.name, "cfg": cfg, "tree_size": generic.tree_size(t), "batches": len(generic.tree_stream(t))})
            s.count("class:" + e.name)
            if d and not found:
                found = True

                def fails(v, e=e, cfg=cfg):
                    try:
                        return generic.tree_vs_single(e, cfg, v) is not None
                    except Exception:
                        return True
                small = generic.shrink_tree(e, cfg, t, fails)
                try:
                    d2 = generic.tree_vs_single(e, cfg, small)
                except Exception as ex:
                    d2 = f"exception {type(ex).__name__}: {ex}"
                s.mismatches.append({"class": e.name})
                ctx.violation("failing-input", e.name,
                              {"check": "tree_vs_single", "class": e.name, "cfg": cfg, "tree": small,
                               "observed": d2 or d, "broken": f"tie:corr:{e.name}"},
                              finding_id=match_finding(ctx, e.name, cfg, small))


def match_finding(ctx, cls, cfg, tree):
    for f in core.load_findings():
        if f.get("property") != ctx.prop:
            continue
        pat = f.get("pattern", {})
        if cls in pat.get("classes", []):
            if pat.get("merge_form") and not _has_form(tree, pat["merge_form"]):
                continue
            return f["id"]
    return None


def _has_form(t, form):
    if t[0] == "shard":
        return False
    return (len(t) > 4 and t[4] == form) or _has_form(t[1], form) or any(_has_form(o, form) for o in t[2])


def run(ctx):
    corr_stream(ctx)
    tree_stream(ctx)
