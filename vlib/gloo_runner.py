"""Real torch.distributed (backend gloo) runner: validates the checking transport itself.

One launch = W worker processes (subprocess, file:// rendezvous) executing MANY scenarios with the real
synclib / toolkit code; every collective is recorded by a thin wrapper (kind, root, shape, dtype) so
that per-rank traces as well as outcomes can be compared with the checking transport's.
Only scenarios on which the checking transport reports no CollectiveMismatch are sent to gloo (a
mismatch on gloo is a hang or SIGABRT -- thorough tier / sacrificial launches only).

worker:  python -m vlib.gloo_runner worker <rank> <W> <init file> <scenario json> <out json>
"""
from __future__ import annotations
import json
import os
import subprocess
import sys
import tempfile
import time
from pathlib import Path


def _worker(rank, W, initfile, scn_path, out_path):
    import torch
    import torch.distributed as dist
    from . import syncutil as su
    from .model import enc
    su.quiet()
    dist.init_process_group("gloo", init_method=f"file://{initfile}", rank=rank, world_size=W)
    trace = []
    real = {k: getattr(dist, k) for k in ["all_gather", "gather", "all_gather_object", "gather_object", "broadcast_object_list"]}
    dn = lambda t: str(t.dtype).replace("torch.", "")

    def all_gather(tensor_list, tensor, group=None, async_op=False):
        trace.append(("all_gather", tuple(tensor.shape), dn(tensor)))
        return real["all_gather"](tensor_list, tensor, group=group, async_op=async_op)

    def gather(tensor, gather_list=None, dst=0, group=None, async_op=False, group_dst=None):
        trace.append(("gather", dst, tuple(tensor.shape), dn(tensor)))
        return real["gather"](tensor, gather_list, dst=dst, group=group, async_op=async_op)

    def all_gather_object(object_list, obj, group=None):
        trace.append(("all_gather_object",))
        return real["all_gather_object"](object_list, obj, group=group)

    def gather_object(obj, object_gather_list=None, dst=0, group=None):
        trace.append(("gather_object", dst))
        return real["gather_object"](obj, object_gather_list, dst=dst, group=group)

    def broadcast_object_list(object_list, src=0, group=None, device=None):
        trace.append(("broadcast_object_list", src, len(object_list)))
        return real["broadcast_object_list"](object_list, src=src, group=group, device=device)

    dist.all_gather, dist.gather = all_gather, gather
    dist.all_gather_object, dist.gather_object = all_gather_object, gather_object
    dist.broadcast_object_list = broadcast_object_list

    scns = json.loads(Path(scn_path).read_text())
    groups = {}
    results = []
    for scn in scns:
        g = list(scn["group"])
        key = tuple(g)
        if g == list(range(W)):
            grp = None
        else:
            if key not in groups:
                groups[key] = dist.new_group(g)         # collective over the whole world
            grp = groups[key]
        if rank not in g:
            results.append(None)
            continue
        del trace[:]
        # inside the nested collectives of the object collectives only the outermost call is a trace entry
        try:
            v = su.exec_member(scn, g.index(rank), grp)
            out = ["ok", enc(v)]
        except BaseException as ex:  # noqa
            out = ["exc", type(ex).__name__, str(ex)[:200]]
        results.append({"out": out, "trace": [enc(su.desc_val(d)) for d in _outer(trace)]})
    Path(out_path).write_text(json.dumps(results))
    dist.barrier()
    dist.destroy_process_group()


def _outer(trace):
    return list(trace)


def launch(scns, W=3, timeout=150):
    """Run the scenarios (all with world size W) on real gloo.  Returns per-scenario {global rank: result} or raises."""
    from . import core, syncutil as su
    core.TMP.mkdir(parents=True, exist_ok=True)
    d = Path(tempfile.mkdtemp(prefix="gloo_", dir=core.TMP))
    (d / "scn.json").write_text(json.dumps(su.jsonable(scns)))
    env = dict(os.environ)
    env["PYTHONPATH"] = f"{core.REPO}:{core.ROOT}"
    env["OMP_NUM_THREADS"] = "1"
    procs = []
    for r in range(W):
        procs.append(subprocess.Popen([sys.executable, "-m", "vlib.gloo_runner", "worker", str(r), str(W), str(d / "init"),
                                       str(d / "scn.json"), str(d / f"out{r}.json")], env=env, cwd=str(core.ROOT),
                                      stdout=subprocess.PIPE, stderr=subprocess.PIPE, text=True))
    t_end = time.time() + timeout
    errs = []
    for p in procs:
        try:
            _, e = p.communicate(timeout=max(1, t_end - time.time()))
            if p.returncode != 0:
                errs.append(f"exit {p.returncode}: {e[-600:]}")
        except subprocess.TimeoutExpired:
            for q in procs:
                q.kill()
            errs.append("timeout (hang)")
            break
    if errs:
        raise RuntimeError("gloo launch failed: " + " | ".join(errs))
    per_rank = [json.loads((d / f"out{r}.json").read_text()) for r in range(W)]
    return [{r: per_rank[r][k] for r in range(W) if per_rank[r][k] is not None} for k in range(len(scns))]


def gloo_stream(ctx, gens, toolkit=False, classify=None, extra=()):
    """quick: ONE launch of 3 processes; thorough: one launch each for W = 2, 3, 4.
    extra: fixed scenarios (witnesses) that join the launch of their world size -- like every other
    scenario only when the checking transport reports no mismatch for them (i.e. once repaired)."""
    for W in ([3] if ctx.quick else [2, 3, 4]):
        gloo_stream_w(ctx, gens, W, [x for x in extra if x["W"] == W])


def gloo_stream_w(ctx, gens, W, extra=()):
    """ONE gloo launch: the same scenarios on the checking transport and on real gloo must agree
    (outcomes and traces)."""
    from . import core, syncutil as su
    from .model import enc
    s = ctx.stream(f"transport validation: checking transport vs real gloo (W={W}, one launch)")
    want = ctx.n(40, 150)
    scns, sims = [], []
    tries = 0
    pending = list(extra)
    while len(scns) < want and tries < 5000:
        tries += 1
        if pending:
            scn = pending.pop(0)
            s.count("witness-scenario")
        else:
            scn = gens[tries % len(gens)](ctx.rng, W) if gens[tries % len(gens)].__code__.co_argcount == 2 else gens[tries % len(gens)](ctx.rng)
        if scn["W"] != W or len(scn["group"]) < 1:
            continue
        iout, itr = su.run_sim(scn)
        if any(iout[r][0] == "mismatch" for r in scn["group"]):
            s.count("skipped:mismatch-on-checking-transport")
            continue
        scns.append(scn)
        sims.append((iout, itr))
    t0 = time.time()
    try:
        res = launch(scns, W, timeout=150 if ctx.quick else 400)
    except Exception as ex:
        ctx.oblige("tie:transport-vs-gloo", False, detail=str(ex)[:1200])
        ctx.violation("no-failing-input-found", "gloo", {"broken": f"tie:transport-vs-gloo:W={W}", "detail": str(ex)[:2000]})
        return
    s.note = f"gloo launch {time.time() - t0:.1f}s for {len(scns)} scenarios"
    bad = None
    for scn, (iout, itr), gres in zip(scns, sims, res):
        s.case(repr(su.jsonable(scn)), len(scn["group"]) >= 2, sample={"group": scn["group"], "kind": scn["kind"]})
        s.traces += len(scn["group"])
        s.count("group=" + ("world" if scn["group"] == list(range(W)) else str(scn["group"])))
        for r in scn["group"]:
            so, go = iout[r], gres[r]["out"]
            st = [enc(su.desc_val(d)) for d in itr[r]]
            ok = (so[0] == go[0]) and ((so[0] == "ok" and enc(so[1]) == go[1]) or (so[0] == "exc" and so[1] == go[1]))
            if so[0] == "exc":
                s.count("exception:" + so[1])
            if (not ok or st != gres[r]["trace"]) and bad is None:
                bad = {"scenario": su.jsonable(scn), "rank": r, "checking_transport": [so[0], enc(so[1]) if so[0] == "ok" else so[1:]],
                       "gloo": go, "trace_checking": st, "trace_gloo": gres[r]["trace"]}
    ctx.oblige(f"tie:transport-vs-gloo:W={W}", bad is None, detail=repr(bad)[:1500] if bad else "")
    if bad:
        s.mismatches.append(bad)
        ctx.violation("failing-input", "gloo", {"check": "transport-vs-gloo", **bad, "broken": f"tie:transport-vs-gloo:W={W}"})


if __name__ == "__main__":
    if sys.argv[1] == "worker":
        _worker(int(sys.argv[2]), int(sys.argv[3]), sys.argv[4], sys.argv[5], sys.argv[6])
