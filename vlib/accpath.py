"""C19, addend paths: update-call layouts whose addend is a caller-supplied VALUE or WEIGHT, and the dynamic probes
that determine through which kind the addend effectively reaches each registered accumulator.

Shared by tools/introspect_path.py (writes coq/Generated/AccPaths.v, KnownPaths.v) and vlib/parts/C19_path.py
(bit-exact correspondence of the real classes with the extracted acc_add_via / acc_add_fused).

A layout is (name, class name, ctor kwargs, class, build) with build(V) -> (args, kwargs) of ONE update in which the
probed argument is V everywhere.  Two sources:
  * explicit: the rows of vlib/parts/C19_addends.table() (same labels, classes, ctor kwargs), in single-addend form;
  * generic: every case of vlib/basecalls.py, every floating tensor / python number argument of its update call,
    presented as float64 and as int64 (pyfloat / pyint for python numbers) -- kept when the update accepts it.
Which states a layout feeds, and with which exact integer addend a + b*V per element, is not written down anywhere: it
is fitted on the real class with V = 1, 2 and verified with V = 3, 6 and a repeated update (additive accumulator).
"""
from __future__ import annotations
import logging
import random
import warnings

import torch

from . import basecalls

logging.disable(logging.CRITICAL)
warnings.simplefilter("ignore")

f64, i64 = torch.float64, torch.int64
KIND = {torch.float16: "F16", torch.bfloat16: "BF16", torch.float32: "F32", torch.float64: "F64",
        torch.int8: "I8", torch.uint8: "U8", torch.int16: "I16", torch.int32: "I32", torch.int64: "I64"}
KNAME = {"F16": "float16", "BF16": "bfloat16", "F32": "float32", "F64": "float64", "I8": "int8", "U8": "uint8",
         "I16": "int16", "I32": "int32", "I64": "int64", "PyInt": "pyint", "PyFloat": "pyfloat"}
WIDE = {"F64", "I64", "PyInt", "PyFloat"}
# mirrors AccPath.edge
EDGE = {"BF16": 2 ** 8, "F16": 2 ** 11, "F32": 2 ** 24, "F64": 2 ** 53, "PyFloat": 2 ** 53, "I8": 2 ** 7, "U8": 2 ** 8,
        "I16": 2 ** 15, "I32": 2 ** 31, "I64": 2 ** 63, "PyInt": 2 ** 63}
BITS = {"BF16": 8, "F16": 11, "F32": 24, "F64": 53, "PyFloat": 53}
KS = [7, 8, 11, 15, 24, 31, 40, 52]
# the kinds that first lose 2^k + 1 at probe k (mirrors AccPath.edge: lost iff edge <= 2^k)
FIRST_LOST = {7: ["I8"], 8: ["BF16", "U8"], 11: ["F16"], 15: ["I16"], 24: ["F32"], 31: ["I32"]}
LIMIT = 2 ** 53


# ---------------------------------------------------------------------------------------------------------------
# python mirror of AccPath.round_kind (used only to choose between the converted and the fused add of a row whose
# path is as narrow as its storage; the choice is then validated bit-exactly through the extracted model)
def rne(p, z):
    if z < 0:
        return -rne(p, -z)
    e = max(0, z.bit_length() - p)
    if e == 0:
        return z
    q, r, half = z >> e, z & ((1 << e) - 1), 1 << (e - 1)
    return (q + 1) << e if r > half or (r == half and q & 1) else q << e


def round_kind(k, v):
    if k in BITS:
        return rne(BITS[k], v)
    if k == "PyInt":
        return v
    if k == "U8":
        return v % 256
    b = {"I8": 8, "I16": 16, "I32": 32, "I64": 64}[k]
    return (v + 2 ** (b - 1)) % 2 ** b - 2 ** (b - 1)


# ---------------------------------------------------------------------------------------------------------------
class Layout:
    def __init__(self, name, cname, kw, cls, build, source):
        self.name, self.cname, self.kw, self.cls, self.build, self.source = name, cname, kw, cls, build, source

    def make(self):
        return basecalls.make(self.cname, self.kw, self.cls)


def explicit_builders():
    t = torch.tensor
    b = {
        "Sum(float64 data)": lambda v: ((t([v], dtype=f64),), {}),
        "Sum(int64 data)": lambda v: ((t([v], dtype=i64),), {}),
        "Sum(int64 data, float weight)": lambda v: ((t([v], dtype=i64),), {"weight": 2.0}),
        "Sum(float64 weights)": lambda v: ((t([1], dtype=f64),), {"weight": t([v], dtype=f64)}),
        "Sum(int64 data, float64 weights)": lambda v: ((t([v], dtype=i64),), {"weight": t([1], dtype=f64)}),
        "Mean(float64 data)": lambda v: ((t([v], dtype=f64),), {}),
        "Mean(int64 data)": lambda v: ((t([v], dtype=i64),), {}),
        "Mean(float64 weights)": lambda v: ((t([1], dtype=f64),), {"weight": t([v], dtype=f64)}),
        "Throughput": lambda v: ((v, 2.0), {}),
    }
    for c in ("ClickThroughRate", "WindowedClickThroughRate"):
        b[c + "(float64 weights)"] = lambda v: ((t([1], dtype=f64), t([v], dtype=f64)), {})
    for c in ("WeightedCalibration", "WindowedWeightedCalibration"):
        b[c + "(float64 weights)"] = lambda v: ((t([1], dtype=f64), t([1], dtype=f64), t([v], dtype=f64)), {})
    for c in ("BinaryNormalizedEntropy", "WindowedBinaryNormalizedEntropy"):
        b[c + "(float64 weights)"] = lambda v: ((t([0.5], dtype=f64), t([1], dtype=f64)), {"weight": t([v], dtype=f64)})
    for c in ("MeanSquaredError", "WindowedMeanSquaredError"):
        b[c + "(float64 sample_weight)"] = lambda v: ((t([1], dtype=f64), t([0], dtype=f64)), {"sample_weight": t([v], dtype=f64)})
    return b


def explicit_layouts():
    """One layout per row of C19_addends.table(); fail closed when the two tables drift apart.
    Returns (layouts, {layout name: states the addends table expects to depend on the addend})."""
    import torcheval.metrics as M
    from .parts import C19_addends
    builders = explicit_builders()
    out, expect = [], {}
    for label, cname, kw, _build, exp in C19_addends.table():
        if label not in builders:
            raise RuntimeError(f"C19_addends row {label!r} has no single-addend layout in vlib/accpath.py")
        out.append(Layout(label, cname, kw, getattr(M, cname), builders[label], "addends-table"))
        expect[label] = sorted(st for st, f in exp.items() if f(5) != f(7))
    extra = set(builders) - {lay.name for lay in out}
    if extra:
        raise RuntimeError(f"layouts without a C19_addends row: {sorted(extra)}")
    return out, expect


def _present(val, V, how):
    if isinstance(val, torch.Tensor):
        return torch.full(val.shape, V, dtype=f64 if how == "float64" else i64)
    return float(V) if how == "pyfloat" else int(V)


def generic_layouts():
    out = []
    for label, cname, kw, call, cls in basecalls.all_cases():
        a0, k0 = call(random.Random(7), 1)
        slots = [(("arg", i), v) for i, v in enumerate(a0)] + [(("kw", k), v) for k, v in sorted(k0.items())]
        for (where, key), val in slots:
            if isinstance(val, torch.Tensor) and val.is_floating_point():
                hows = ["float64", "int64"]
            elif isinstance(val, (int, float)) and not isinstance(val, bool):
                hows = ["pyfloat", "pyint"]
            else:
                continue
            for how in hows:
                def build(V, call=call, where=where, key=key, how=how):
                    a, k = call(random.Random(7), 1)
                    a = list(a)
                    if where == "arg":
                        a[key] = _present(a[key], V, how)
                    else:
                        k = dict(k)
                        k[key] = _present(k[key], V, how)
                    return tuple(a), k
                arg = f"arg{key}" if where == "arg" else key
                out.append(Layout(f"{label}:{arg}:{how}", cname, kw, cls, build, "basecalls"))
    return out


def synthetic_layouts():
    """[(layout, expected effective kind)]: a float64 accumulator fed through ONE cast to each modelled tensor kind.
    Not torcheval code: the self-test of the classifier, and the only place where round_kind for the kinds that
    torcheval does not use on a path today (float16, bfloat16, int8 ... int32) is compared with torch itself."""
    from torcheval.metrics.metric import Metric

    class CastThenAdd(Metric):
        def __init__(self, via="float32"):
            super().__init__()
            self.via = getattr(torch, via)
            self._add_state("total", torch.tensor(0.0, dtype=f64))

        @torch.inference_mode()
        def update(self, x):
            self.total += x.to(self.via).to(f64).sum()
            return self

        def compute(self):
            return self.total

        def merge_state(self, metrics):
            for m in metrics:
                self.total += m.total
            return self

    out = []
    for dt, kind in KIND.items():
        via = str(dt).replace("torch.", "")
        # float -> integer conversion of an out-of-range value is undefined in C; integer kinds are fed int64 data
        how = f64 if dt.is_floating_point else i64
        out.append((Layout(f"CastThenAdd({via})", "CastThenAdd", {"via": via}, CastThenAdd,
                           lambda v, how=how: ((torch.tensor([v], dtype=how),), {}), "synthetic"), kind))
    return out


def all_layouts():
    ex, expect = explicit_layouts()
    return ex + generic_layouts(), expect


# ---------------------------------------------------------------------------------------------------------------
def kind_of(v):
    if isinstance(v, torch.Tensor):
        return KIND.get(v.dtype)
    if isinstance(v, bool):
        return None
    if isinstance(v, int):
        return "PyInt"
    if isinstance(v, float):
        return "PyFloat"
    return None


def _num(x):
    """exact python number of a state element: int when integral, float otherwise (nan / inf stay floats)"""
    if isinstance(x, int):
        return x
    return int(x) if x == x and abs(x) != float("inf") and x == int(x) else x


def read_states(m):
    """{state: (kind, [elements])} for every registered numeric state (tensors flattened)"""
    out = {}
    for st, v in m.state_dict().items():
        k = kind_of(v)
        if k is None:
            continue
        if isinstance(v, torch.Tensor):
            out[st] = (k, [_num(x) for x in v.detach().to(f64).flatten().tolist()] if v.dtype != i64
                       else [int(x) for x in v.flatten().tolist()])
        else:
            out[st] = (k, [_num(v)])
    return out


def apply(lay, V, times=1):
    m = lay.make()
    for _ in range(times):
        a, k = lay.build(V)
        m.update(*a, **k)
    return read_states(m)


def fit(lay):
    """{state: (a, b)}: per element the state after ONE update from fresh is exactly a[i] + b[i]*V (integers, some
    b[i] != 0), zero when fresh, and a second identical update adds the same again.  {} when the update rejects the
    presentation or nothing is fed by the probed argument."""
    try:
        s0 = read_states(lay.make())
        s = {V: apply(lay, V) for V in (1, 2, 3, 6)}
        s33 = apply(lay, 3, times=2)
    except Exception:
        return {}
    out = {}
    for st, (kind, v1) in s[1].items():
        try:
            v2, v3, v6, v33 = s[2][st][1], s[3][st][1], s[6][st][1], s33[st][1]
            z = s0[st][1]
        except KeyError:
            continue
        n = len(v1)
        if not (len(v2) == len(v3) == len(v6) == len(v33) == n):
            continue
        if len(z) == 1 and n > 1:
            z = z * n
        if len(z) != n or any(x != 0 for x in z):
            continue
        if not all(isinstance(x, int) for x in v1 + v2 + v3 + v6 + v33):
            continue
        b = [y - x for x, y in zip(v1, v2)]
        a = [x - bb for x, bb in zip(v1, b)]
        if not any(b):
            continue
        if any(aa + 3 * bb != x for aa, bb, x in zip(a, b, v3)) or any(aa + 6 * bb != x for aa, bb, x in zip(a, b, v6)):
            continue
        if any(2 * x != y for x, y in zip(v3, v33)):
            continue
        out[st] = (a, b)
    return out


def probe_values(a, b):
    """[(k, V)]: V = 2^k + 1 for the probe exponents, the top ones lowered so that every |a + b*V| stays below 2^53"""
    out, seen = [], set()
    for k in KS:
        kk = k
        while kk > 0 and max(abs(aa + bb * (2 ** kk + 1)) for aa, bb in zip(a, b)) >= LIMIT:
            kk -= 1
        if kk in seen or (out and kk <= out[-1][0]):
            continue
        seen.add(kk)
        out.append((kk, 2 ** kk + 1))
    return out


def classify(lay, st, a, b):
    """(storage kind, effective path kind, kept {k: bool}, problem or None) of state `st` under layout `lay`"""
    kept, storage, obs8 = {}, None, None
    for k, V in probe_values(a, b):
        try:
            kind, obs = apply(lay, V)[st]
        except Exception as ex:
            return None, None, kept, f"update raises at V=2^{k}+1: {type(ex).__name__}: {ex}"
        storage = storage or kind
        if kind != storage:
            return None, None, kept, f"storage kind changes with the addend ({storage} / {kind})"
        kept[k] = all(o == aa + bb * V for o, aa, bb in zip(obs, a, b) if bb != 0)
        if k == 8:
            obs8 = (obs, V)
    ks = sorted(kept)
    if not ks or ks[-1] < 40:
        return storage, None, kept, "no probe above 2^40 possible"
    lost = [k for k in ks if not kept[k]]
    if not lost:
        return storage, storage, kept, None
    first = lost[0]
    if any(kept[k] for k in ks if k > first):
        return storage, None, kept, f"non-monotone: 2^{first}+1 lost but a larger probe kept"
    # the probe exponents are exactly the edges of the kinds; a lowered top probe (k in 32..52) has no kind of its own
    cands = FIRST_LOST.get(first)
    if not cands:
        return storage, None, kept, f"addend 2^{first}+1 lost: no modelled kind has its edge there"
    eff = cands[0]
    if len(cands) > 1 and obs8:
        obs, V = obs8
        for c in cands:
            if all(o == aa + bb * round_kind(c, V) for o, aa, bb in zip(obs, a, b) if bb != 0):
                eff = c
                break
    if EDGE[storage] < EDGE[eff]:
        eff = storage
    return storage, eff, kept, None


def run_from(lay, st, base, V):
    """Inject `base` into every element of state `st` (load_state_dict), apply one update of the layout at V.
    Returns (injected elements as stored, observed elements)."""
    probe = lay.make()
    a, k = lay.build(1)
    probe.update(*a, **k)
    sd = probe.state_dict()
    cur = sd[st]
    sd[st] = torch.full_like(cur, base) if isinstance(cur, torch.Tensor) else type(cur)(base)
    m = lay.make()
    m.load_state_dict(sd)
    inj = read_states(m)[st][1]
    a, k = lay.build(V)
    m.update(*a, **k)
    return inj, read_states(m)[st][1]


def add_mode(lay, st, a, b, storage, eff):
    """'fused' when the real `state += addend` is computed in a wider kind and rounded once, else 'conv'.
    Only distinguishable (and only asked) when the effective path is the storage kind itself and that kind is narrow."""
    if storage in WIDE or eff != storage or storage not in BITS:
        return "conv"
    V = EDGE[storage] + 1
    try:
        inj, obs = run_from(lay, st, 1, V)
    except Exception:
        return "conv"
    fused = conv = True
    differ = False
    for i, o, aa, bb in zip(inj, obs, a, b):
        if bb == 0:
            continue
        x = aa + bb * V
        pf, pc = round_kind(storage, i + x), round_kind(storage, i + round_kind(storage, x))
        differ |= pf != pc
        fused &= o == pf
        conv &= o == pc
    return "fused" if (differ and fused and not conv) else "conv"


def model_case(storage, eff, mode, state, addends):
    """the extracted-model case of one row: [mode] (path) acc state (addends)"""
    from .model import T
    path = [] if mode == "fused" else [T(KNAME[eff])]
    return ("accpath", [T(mode), path, T(KNAME[storage]), state, list(addends)])
