import sys
from . import core, driver

ALL_GENERATORS = []


def main():
    ctx = core.Ctx("setup", "quick", 0)
    import importlib, pkgutil
    from . import parts
    gens = []
    for m in pkgutil.iter_modules(parts.__path__):
        mod = importlib.import_module(f"vlib.parts.{m.name}")
        for g in getattr(mod, "GENERATORS", []):
            if g not in gens:
                gens.append(g)
    driver.regenerate(ctx, gens)
    b = core.build()
    print(f"coq build ok={b.ok} wall={b.wall:.1f}s")
    for f, e in b.failed.items():
        print("FAILED", f, e[:500])
    for o in ctx.obligations:
        if not o["ok"]:
            print("GENERATOR FAILED", o["name"], o["detail"][:500])
    core.build_ocaml()
    # a failed proof obligation is reported by the checks, not by setup
    sys.exit(0 if (core.OCAML / "model_run").exists() else 1)


if __name__ == "__main__":
    main()
