"""The check protocol (DESIGN 2.3), common to all properties."""
from __future__ import annotations
import importlib
import json
import os
import re
import shutil
import sys
import time
import traceback
from pathlib import Path

from . import core
from .core import Ctx, ROOT, COQ, EVID, OUT

TRUSTED_BASE = [
    "Coq 8.16.1 kernel (coqc; vm_compute used for finite tables/examples; native_compute not used)",
    "no axioms declared; Print Assumptions output recorded per theorem in 'assumptions'",
    "extraction: ExtrOcamlBasic only, no Extract Constant; ocaml/driver.ml (s-expression glue, Zarith for I/O)",
    "translators tools/*.py (Python ast, fail-closed) and the torch-operation alias table",
    "correspondence harness vlib/ (generators, canonicalisation, tolerance comparison, mpmath for symbolic log/exp)",
    "assumed semantics of torch primitives (sort, argmax=first max, histc, searchsorted, masked_scatter row-major)",
    "modelled, not verified: torch kernels, TorchScript, floating-point rounding (except C19 integer model), pickle/deepcopy, device moves",
]


def regenerate(ctx: Ctx, gens: list[str]) -> None:
    """Re-run the translators the property depends on (T-tr). Each writes coq/Generated/*.v."""
    r = core.sh(f"{sys.executable} {ROOT}/tools/gen_dispatch.py", timeout=60)
    if r.returncode != 0:
        ctx.oblige("tie:gen_dispatch", False, detail=r.stdout + r.stderr)
    for g in gens:
        r = core.sh(f"{sys.executable} {ROOT}/tools/{g}", timeout=600,
                    env={"PYTHONPATH": f"{core.REPO}:{ROOT}", "PYTHONHASHSEED": "0", core.GUARD: "1"})
        ok = r.returncode == 0
        ctx.oblige(f"tie:translator:{g}", ok, detail=(r.stdout + r.stderr)[-1500:] if not ok else "")
        if r.stdout.strip():
            ctx.notes.append(f"{g}: " + r.stdout.strip().splitlines()[-1][:300])


def coq_obligations(ctx: Ctx, files: list[str]) -> None:
    """Build the project; every Theorem in the listed Props files is an obligation."""
    b = core.build()
    ctx.build = b
    ctx.notes.append(f"coq build {b.wall:.1f}s ok={b.ok}")
    for f in files:
        if not (COQ / f).exists():
            ctx.oblige(f"{f}", False, f, "file missing")
            continue
        ths = core.theorems_in(f)
        # a Props file stops at its first error: theorems before it checked, the one containing the
        # error line failed, later ones are unchecked (reported once, with the failing theorem)
        err = b.failed.get(f)
        if err and "not built" in err:
            deps = [f"{k}: {v}" for k, v in b.failed.items() if "not built" not in v]
            err = "dependency failed: " + "; ".join(deps)[:800] if deps else err
        bad_line = None
        if err:
            m = re.match(r"line (\d+):", err)
            bad_line = int(m.group(1)) if m else 0
        spans = core.theorem_spans(f)
        for t in ths:
            lo, hi = spans.get(t, (0, 0))
            if err is None or (bad_line and hi < bad_line):
                ctx.oblige(t, True, f)
            elif bad_line == 0 or lo <= bad_line <= hi:
                ctx.oblige(t, False, f, err)
            else:
                ctx.obligations.append({"name": t, "file": f, "ok": False, "detail": "unchecked: the file failed at an earlier theorem", "located": True})
        if err is None:
            ass = core.assumptions_of(f)
            for k, v in ass.items():
                ctx.assumptions[f"{f}:{k}"] = v
                if k == "__error__":
                    ctx.oblige(f"{f}:recheck", False, f, v)
    bad = core.forbidden_scan()
    ctx.oblige("no-escape-hatches (Admitted/admit/Axiom/Parameter/... scan of the whole development)", not bad,
               detail="; ".join(bad[:10]))
    if ctx.tier == "thorough" and b.ok:
        for f in files:
            lib = "TE." + f.replace("/", ".").replace(".v", "")
            r = core.sh(f"timeout 1500 coqchk -silent -o -Q . TE {lib} 2>&1 | tail -40", cwd=COQ, timeout=1600)
            ok = r.returncode == 0 and "Fatal" not in r.stdout and "rror" not in r.stdout
            ctx.oblige(f"coqchk:{lib}", ok, f, r.stdout[-1500:])
            ctx.assumptions[f"coqchk:{lib}"] = r.stdout[-1500:]


def finish(ctx: Ctx, level_note: str = "") -> int:
    """Decide, print VIOLATION / KNOWN-FINDING lines, write evidence."""
    findings = [f for f in core.load_findings() if f.get("property") == ctx.prop]
    known_ids = {f["id"] for f in findings if f.get("status") == "known"}
    rc = 0
    lines = []
    reported_known = set()
    for v in ctx.violations:
        if v.finding_id and v.finding_id in known_ids:
            if v.finding_id not in reported_known:
                reported_known.add(v.finding_id)
                f = next(x for x in findings if x["id"] == v.finding_id)
                lines.append(f"KNOWN-FINDING: property={ctx.prop} {f['id']} {f['description']}")
            continue
        payload = {"property": ctx.prop, "kind": v.kind, "target": v.target, "seed": ctx.seed,
                   "tier": ctx.tier, **v.detail}
        p = core.write_replay(ctx.prop, payload)
        tail = " no-failing-input-found" if v.kind == "no-failing-input-found" else ""
        lines.append(f"VIOLATION property={ctx.prop} replay={p}{tail}")
        rc = 1
    for ln in lines:
        print(ln, flush=True)
    # obligations whose failure IS a recorded known finding are reported separately: the claim is
    # "proved except where refuted by a listed finding", so they are not counted as open obligations
    known_v = [v for v in ctx.violations if v.finding_id and v.finding_id in known_ids]
    kb = {v.detail.get("broken") for v in known_v} | {v.target for v in known_v}
    excused = [o for o in ctx.obligations if not o["ok"] and (o["name"] in kb or (set(o["name"].split(":")) & kb))]
    counted = [o for o in ctx.obligations if o not in excused]
    n_obl = len(counted)
    n_ok = sum(1 for o in counted if o["ok"])
    ev = sum(s.evaluations for s in ctx.streams)
    nontriv = sum(len(s.nontrivial) for s in ctx.streams)
    samples = []
    for s in ctx.streams:
        samples += [{"stream": s.name, "case": core.canon(x)} for x in s.samples[:2]]
    samples += [{"obligation": o["name"], "file": o["file"], "ok": o["ok"]} for o in ctx.obligations[:4]]
    evidence = {
        "property_id": ctx.prop, "tier": ctx.tier, "seed": ctx.seed, "level": "proof",
        "coverage": {
            "obligations": n_obl, "discharged": n_ok,
            "checker_cmd": "coq_makefile -f _CoqProject -o Makefile && make -k -j16 (full .vo build) ; coqc Props/<id>*.v with Print Assumptions"
                           + (" ; coqchk -o" if ctx.tier == "thorough" else ""),
            "trusted_base": TRUSTED_BASE,
            "evaluations": ev, "distinct_nontrivial": nontriv,
            "traces_validated_against_impl": sum(s.traces for s in ctx.streams) or ev,
            "rule": "cases come from the per-stream generators (seeded by VERIF_SEED); a case counts as non-trivial "
                    "when it exercises at least one tie / degenerate / multi-batch / multi-object feature; distinct by hash of the case",
            "samples": samples[:12] or [{"note": "no stream cases"}],
            "streams": [{"name": s.name, "evaluations": s.evaluations, "distinct_nontrivial": len(s.nontrivial),
                         "mismatches": len(s.mismatches), "distribution": s.dist, "exhaustive": s.exhaustive,
                         "note": s.note} for s in ctx.streams],
            "obligation_list": counted,
            "obligations_refuted_by_known_findings": excused,
            "axioms_reported": ctx.assumptions,
            "known_findings_reported": sorted(reported_known),
            "exhaustive": bool(ctx.streams) and all(s.exhaustive for s in ctx.streams),
        },
        "assumptions": ([level_note] if level_note else []) + ctx.notes,
        "wall_s": round(time.time() - ctx.t0, 2),
        "violations": sum(1 for ln in lines if ln.startswith("VIOLATION")),
    }
    # evidence is only ever written for runs against /repo itself; runs against a scratch copy
    # (VERIF_REPO=..., used when seeded changes are tried) leave the committed evidence alone
    evdir = EVID if str(core.REPO) == "/repo" else OUT / "evidence-scratch"
    evdir.mkdir(parents=True, exist_ok=True)
    (evdir / f"{ctx.prop}.json").write_text(json.dumps(core.canon(evidence), indent=1))
    shutil.rmtree(core.TMP, ignore_errors=True)
    return rc


def broken_obligations(ctx: Ctx) -> list[dict]:
    return [o for o in ctx.obligations if not o["ok"]]


def run_check(prop: str, tier: str, seed: int) -> int:
    ctx = Ctx(prop, tier, seed)
    for old in (OUT / prop).glob("replay-*.json") if (OUT / prop).exists() else []:
        old.unlink()
    os.environ["PYTHONHASHSEED"] = "0"
    from . import parts as _parts
    import pkgutil
    names = sorted(m.name for m in pkgutil.iter_modules(_parts.__path__) if m.name.startswith(prop + "_"))
    if not names:
        print(f"no check parts for {prop}", file=sys.stderr)
        return 2
    mods = []
    try:
        mods = [importlib.import_module(f"vlib.parts.{n}") for n in names]
        gens = []
        for m in mods:
            for g in getattr(m, "GENERATORS", []):
                if g not in gens:
                    gens.append(g)
        regenerate(ctx, gens)
        files = sorted(str(p.relative_to(COQ)) for p in (COQ / "Props").glob(f"{prop}*.v"))
        coq_obligations(ctx, files)
        for m in mods:
            m.run(ctx)
        # proof obligations or ties that broke without a located failing input
        located = {v.detail.get("broken") for v in ctx.violations}
        targets = {v.target for v in ctx.violations if v.kind == "failing-input"}
        for o in broken_obligations(ctx):
            if o["name"] in located or o.get("located") or (set(o["name"].split(":")) & targets):
                continue
            ctx.violation("no-failing-input-found", o["file"] or o["name"],
                          {"broken": o["name"], "detail": o["detail"],
                           "explanation": "this theorem / tie no longer checks; the property-directed search found no failing input"})
    except Exception:
        tb = traceback.format_exc()
        print(tb, file=sys.stderr)
        ctx.oblige("harness:internal", False, detail=tb[-1500:])
        ctx.violation("no-failing-input-found", "harness", {"broken": "harness:internal", "detail": tb[-3000:]})
    return finish(ctx, " | ".join(getattr(m, "LEVEL_NOTE", "") for m in mods if getattr(m, "LEVEL_NOTE", "")))
