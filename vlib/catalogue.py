"""Class catalogue (DESIGN Appendix D): one Entry per metric class.

An Entry tells the harness how to construct the class for a configuration, how to generate
exactly-representable batches, how to call update() with them, how to render configuration
and batches for the Coq model, which Coq model mirrors it, and what the functional form is.
Family modules under vlib/families/ each define ENTRIES = [Entry subclasses instances].
"""
from __future__ import annotations
import importlib
import pkgutil
from fractions import Fraction
from typing import Any

from .compare import TOL32, TOL64, impl_val


def F(a, b=1):
    return Fraction(a, b)


def tens(x, dtype=None):
    """nested lists of Fractions/ints -> tensor (float32 unless told otherwise)."""
    import torch

    def conv(y):
        if isinstance(y, list):
            return [conv(z) for z in y]
        if isinstance(y, Fraction):
            return float(y)
        return y
    d = conv(x)
    if dtype is None:
        flat = _flat(x)
        dtype = torch.float32 if any(isinstance(z, Fraction) for z in flat) else (torch.int64 if flat or True else torch.float32)
    return torch.tensor(d, dtype=dtype)


def _flat(x):
    if isinstance(x, list):
        out = []
        for y in x:
            out += _flat(y)
        return out
    return [x]


def grid(rng, n, den, lo=0, hi=None):
    """n values k/den with lo <= k <= hi (default den): dyadic when den is a power of two."""
    hi = den if hi is None else hi
    return [Fraction(rng.randint(lo, hi), den) for _ in range(n)]


def f64_only(rng, n):
    """n exact values of float64 numbers that float32 cannot represent (0.1, 0.7000000001, magnitudes beyond the float32
    range, sub-float32-resolution differences): as Fractions, so the exact models can follow them"""
    out = []
    for _ in range(n):
        u = rng.random()
        if u < 0.4:
            v = rng.choice([0.1, 0.2, 0.3, 0.7000000001, -0.1, 1 / 3, 2 / 3, 1e-50, -1e-50])
        elif u < 0.6:
            v = rng.choice([1e39, -1e39, 3.5e38, -3.5e38, 1e300])
        elif u < 0.8:
            v = 1.0 + rng.randint(1, 1000) * 2.0 ** -40          # distinct in float64, all equal to 1.0 in float32
        else:
            v = rng.uniform(-4, 4)
        out.append(Fraction(v))
    return out


class Entry:
    name = ""
    cls: Any = None
    model: str | None = None          # pool model name (Coq)
    fn_model: str | None = None       # functional-form model name (Coq)
    family = "additive"               # additive | cache | ordered | pruned | window | special
    tol = TOL32
    order_free = True                 # C12: result independent of sample order
    batching_free = True              # C12: result independent of batching
    merge_exact = True                # C01: merged == single instance (False: documented deviation)
    has_functional = True
    min_batch = 1                     # minimum samples per update
    min_compute = 1                   # minimum samples before compute() is defined

    # ---- configuration
    def configs(self, rng, quick=True) -> list[dict]:
        return [{}]

    def make(self, cfg):
        return self.cls(**self.kwargs(cfg))

    def kwargs(self, cfg) -> dict:
        return dict(cfg)

    def cfg_val(self, cfg):
        return []

    # ---- batches
    def gen_batch(self, rng, cfg, n) -> dict:
        raise NotImplementedError

    def args(self, cfg, batch) -> tuple[tuple, dict]:
        raise NotImplementedError

    def update(self, metric, cfg, batch):
        a, k = self.args(cfg, batch)
        return metric.update(*a, **k)

    def batch_val(self, cfg, batch):
        raise NotImplementedError

    def concat(self, cfg, batches: list[dict]) -> dict | None:
        """Concatenation of batches along the sample dimension (None: not expressible)."""
        out: dict = {}
        for b in batches:
            for k, v in b.items():
                if isinstance(v, list):
                    out.setdefault(k, [])
                    out[k] = out[k] + v
                else:
                    if k in out and out[k] != v:
                        return None
                    out[k] = v
        return out

    def size(self, batch) -> int:
        for v in batch.values():
            if isinstance(v, list):
                return len(v)
        return 1

    def samples(self, cfg, batch) -> list[dict] | None:
        """Split a batch into single-sample batches (None: not expressible)."""
        n = self.size(batch)
        out = []
        for i in range(n):
            out.append({k: ([v[i]] if isinstance(v, list) else v) for k, v in batch.items()})
        return out

    # ---- functional form
    def functional(self, cfg, batch):
        raise NotImplementedError

    def fn_val(self, result):
        """Presentation-normalised functional result."""
        return impl_val(result)

    def out_val(self, result):
        """Presentation-normalised class result."""
        return impl_val(result)

    def defined(self, cfg, batches) -> bool:
        """Whether the functional value on the concatenation is defined (non-zero denominators)."""
        return sum(self.size(b) for b in batches) >= self.min_compute


_ENTRIES: list[Entry] | None = None


def entries() -> list[Entry]:
    global _ENTRIES
    if _ENTRIES is None:
        out = []
        from . import families
        for m in sorted(pkgutil.iter_modules(families.__path__), key=lambda m: m.name):
            mod = importlib.import_module(f"{families.__name__}.{m.name}")
            out += list(getattr(mod, "ENTRIES", []))
        names = [e.name for e in out]
        assert len(names) == len(set(names)), "duplicate entries"
        _ENTRIES = out
    return _ENTRIES


def entry(name: str) -> Entry:
    for e in entries():
        if e.name == name:
            return e
    raise KeyError(name)
