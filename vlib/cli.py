import argparse, os, sys
from . import driver


def main():
    if len(sys.argv) >= 2 and sys.argv[1] == "replay":
        from . import replay
        sys.exit(replay.main(sys.argv[2:]))
    ap = argparse.ArgumentParser()
    ap.add_argument("prop")
    ap.add_argument("--tier", default=os.environ.get("VERIF_TIER", "quick"), choices=["quick", "thorough"])
    ap.add_argument("--seed", type=int, default=int(os.environ.get("VERIF_SEED", "0")))
    a = ap.parse_args()
    sys.exit(driver.run_check(a.prop, a.tier, a.seed))


if __name__ == "__main__":
    main()
