"""Class-generic, implementation-only statements of C09 / C10 / C11 over EVERY metric class
(vlib/basecalls.py): two executions of the real code compared with each other.  They yield the
failing input when a proof obligation or tie breaks, and localise genuine defects."""
from __future__ import annotations
import copy
import pickle
import random

import torch

from . import basecalls
from .compare import impl_val, close
from .model import T

SKIP_ATTRS = {"_state_name_to_default", "_device", "training"}


def attr_val(v):
    if isinstance(v, torch.Tensor):
        return [T("dtype:" + str(v.dtype).replace("torch.", "")), impl_val(v)]
    if isinstance(v, (bool, int, float, str)) or v is None:
        return impl_val(v)
    if isinstance(v, (list, tuple)):
        return [attr_val(x) for x in v]
    if isinstance(v, dict):
        return [[T("k:" + str(k)), attr_val(x)] for k, x in sorted(v.items(), key=lambda kv: str(kv[0]))]
    return T("opaque:" + type(v).__name__)


def full_state(m):
    """Registered states and every other instance attribute (cursors etc.), canonical."""
    out = []
    for k in sorted(vars(m)):
        if k in SKIP_ATTRS:
            continue
        out.append([T("k:" + k), attr_val(getattr(m, k))])
    return out


def registered_state(m):
    return [[T("k:" + k), attr_val(getattr(m, k))] for k in sorted(m._state_name_to_default)]


def compute_val(m):
    try:
        return impl_val(m.compute())
    except Exception as ex:  # noqa
        return T("err")


def clone_args(a, k):
    ca = tuple(x.clone() if isinstance(x, torch.Tensor) else copy.deepcopy(x) for x in a)
    ck = {n: (x.clone() if isinstance(x, torch.Tensor) else copy.deepcopy(x)) for n, x in k.items()}
    return ca, ck


def do_update(m, args):
    a, k = clone_args(*args)
    m.update(*a, **k)


def gen_updates(rng, call, n):
    return [call(rng, rng.choice([1, 2, 3, 4, 5])) for _ in range(n)]


def poison(u, rng):
    """the same call with one element of one floating-point tensor argument replaced by nan / inf / -inf"""
    a, k = clone_args(*u)
    cands = [x for x in list(a) + list(k.values()) if isinstance(x, torch.Tensor) and x.is_floating_point() and x.numel() > 0]
    if not cands:
        return None
    x = rng.choice(cands)
    x.view(-1)[rng.randrange(x.numel())] = rng.choice([float("nan"), float("inf"), float("-inf")])
    return a, k


def build(case, rng, pre):
    """pre: dict(updates=int, merge=int, reset_mid=bool) -> a metric with that history."""
    label, name, kw, call, cls = case
    m = basecalls.make(name, kw, cls)
    for k, u in enumerate(gen_updates(rng, call, pre["updates"])):
        if pre.get("special") and rng.random() < 0.6:
            # non-finite data (where the class accepts it): states holding nan / inf are states too
            bad = poison(u, rng)
            try:
                if bad is None:
                    raise ValueError
                do_update(m, bad)
                continue
            except Exception:
                pass
        do_update(m, u)
        if pre.get("compute_mid") and k % 2 == 0:
            compute_val(m)
    if pre.get("compute_mid"):
        compute_val(m)
    if pre.get("to_mid") == "toolkit":
        from torcheval.metrics.toolkit import to_device
        o = basecalls.make(name, kw, cls)
        ret = to_device([o, m], torch.device("cpu"))
        if len(ret) != 2 or ret[1] is not m:
            raise AssertionError("toolkit.to_device did not return the metrics it was given")
    elif pre.get("to_mid"):
        m.to("cpu")          # moving an already-updated metric (even to the same device) must not redefine its defaults
    if pre.get("load_mid"):
        # a checkpoint round trip inside the history: restore into the SAME object
        m.load_state_dict(m.state_dict())
    if pre.get("merge"):
        others = []
        for _ in range(pre["merge"]):
            o = basecalls.make(name, kw, cls)
            for u in gen_updates(rng, call, rng.choice([0, 1, 2])):
                do_update(o, u)
            others.append(o)
        m.merge_state(others)
    if pre.get("reset_mid"):
        m.reset()
        for u in gen_updates(rng, call, 1):
            do_update(m, u)
    return m


def gen_pre(rng):
    return {"updates": rng.choice([0, 1, 2, 2, 4, 7]), "merge": rng.choice([0, 0, 1, 2]), "reset_mid": rng.random() < 0.15,
            "compute_mid": rng.random() < 0.5, "load_mid": rng.random() < 0.3, "to_mid": rng.choice([False, False, False, True, "toolkit"]), "special": rng.random() < 0.25}


def same(a, b):
    return close(a, b, 0)


# ---- C09 --------------------------------------------------------------------------------------
RESTORES = ("load", "pickle", "clone_metric", "deepcopy", "clone_metrics")


def restore(case, m, how):
    label, name, kw, call, cls = case
    if how == "load":
        f = basecalls.make(name, kw, cls)
        f.load_state_dict(m.state_dict())
        return f
    if how == "pickle":
        return pickle.loads(pickle.dumps(m))
    if how == "clone_metric":
        from torcheval.metrics.toolkit import clone_metric
        return clone_metric(m)
    if how == "clone_metrics":
        # the collection form: the metric between two other updated metrics of the same kind; EVERY element must be cloned
        from torcheval.metrics.toolkit import clone_metrics
        rng = random.Random(17)
        d1 = build(case, rng, {"updates": 1, "merge": 0})
        d2 = build(case, rng, {"updates": 2, "merge": 0})
        for coll in ((d1, m, d2), [d1, m, d2]):
            out = clone_metrics(coll)
            if len(out) != 3 or any(o is x for o, x in zip(out, coll)):
                raise AssertionError("clone_metrics did not return one NEW object per input metric")
            for o, x in zip(out, coll):
                d = same(compute_val(x), compute_val(o)) or same(registered_state(x), registered_state(o))
                if d:
                    raise AssertionError(f"clone_metrics: a clone differs from its original: {d}")
        return out[1]
    return copy.deepcopy(m)


def c09_case(case, seed, how, pre, ncont):
    """None or a description of how the restored copy differs from the original."""
    label, name, kw, call, cls = case
    rng = random.Random(seed)
    if how == "pickle" and kw == "FAD":
        return None          # the lambda preproc of the test embedding is not picklable (harness artefact)
    m = build(case, rng, pre)
    c = restore(case, m, how)
    if seed % 2 == 0:       # half of the trials leave the restored copy un-computed (result caches stay cold on one side)
        d = same(compute_val(m), compute_val(c))
        if d:
            return f"compute() differs right after {how}: {d}"
    d = same(registered_state(m), registered_state(c))
    if d:
        return f"registered states (values, shapes, dtypes) differ right after {how}: {d}"
    cont = gen_updates(rng, call, ncont)
    if seed % 4 == 1:
        cont = []           # go straight to the merge continuation
    for k, u in enumerate(cont):
        do_update(m, u)
        do_update(c, u)
        d = same(compute_val(m), compute_val(c))
        if d:
            return f"compute() differs after {how} and {k + 1} identical further update(s): {d}"
    # merge identical peers INTO the original and into the copy, then compute and update again
    for k in (1, 2):
        prng = random.Random(seed + k)
        peers1 = [build(case, random.Random(seed * 7 + j), {"updates": 1 + j, "merge": 0}) for j in range(k)]
        peers2 = [build(case, random.Random(seed * 7 + j), {"updates": 1 + j, "merge": 0}) for j in range(k)]
        m.merge_state(peers1); c.merge_state(peers2)
        d = same(compute_val(m), compute_val(c))
        if d:
            return f"compute() differs after {how} and merging {k} identical peer(s) into both: {d}"
        u = call(prng, 2)
        do_update(m, u); do_update(c, u)
        d = same(compute_val(m), compute_val(c))
        if d:
            return f"compute() differs after {how}, a merge and one more identical update: {d}"
    # merge both into identical fresh targets
    o1, o2 = basecalls.make(name, kw, cls), basecalls.make(name, kw, cls)
    o1.merge_state([m]); o2.merge_state([c])
    d = same(compute_val(o1), compute_val(o2))
    if d:
        return f"merging the restored copy differs from merging the original: {d}"
    # independence
    before = full_state(m)
    for u in gen_updates(rng, call, 2):
        do_update(c, u)
    c.reset()
    d = same(before, full_state(m))
    if d:
        return f"operating on the {how} copy changed the original: {d}"
    # state_dict() is not aliased to live state
    before = full_state(m)
    sd = m.state_dict()
    for v in sd.values():
        for t in ([v] if isinstance(v, torch.Tensor) else v if isinstance(v, list) else v.values() if isinstance(v, dict) else []):
            if isinstance(t, torch.Tensor) and t.numel() and t.dtype != torch.bool:
                t.add_(1)
    d = same(before, full_state(m))
    if d:
        return f"mutating state_dict() output changed the live metric: {d}"
    return None


# ---- C10 --------------------------------------------------------------------------------------
def c10_case(case, seed, pre, ncont):
    label, name, kw, call, cls = case
    rng = random.Random(seed)
    m = build(case, rng, pre)
    if seed % 3 == 0:
        # the collection form toolkit.reset_metrics: EVERY metric of the collection is reset, the same objects come back
        from torcheval.metrics.toolkit import reset_metrics
        r2 = random.Random(seed + 1)
        d1 = build(case, r2, {"updates": 2, "merge": 0})
        d2 = build(case, r2, {"updates": 1, "merge": 1})
        coll = (d1, m, d2) if seed % 2 else [d1, m, d2]
        ret = reset_metrics(coll)
        if len(list(ret)) != 3 or any(a is not b for a, b in zip(ret, coll)):
            return "toolkit.reset_metrics did not return the metrics it was given"
        f0 = basecalls.make(name, kw, cls)
        for x in (d1, d2):
            d = same(compute_val(f0), compute_val(x)) or same(full_state(f0), full_state(x))
            if d:
                return f"toolkit.reset_metrics left a metric of the collection un-reset: {d}"
    else:
        m.reset()
    f = basecalls.make(name, kw, cls)
    d = same(compute_val(f), compute_val(m))
    if d:
        return f"compute() after reset() differs from a fresh instance: {d}"
    d = same(full_state(f), full_state(m))
    if d:
        return f"attributes after reset() differ from a fresh instance: {d}"
    for k, u in enumerate(gen_updates(rng, call, ncont)):
        do_update(m, u)
        do_update(f, u)
        d = same(compute_val(f), compute_val(m))
        if d:
            return f"after reset() and {k + 1} update(s) the result differs from a fresh instance given the same updates: {d}"
    o1, o2 = basecalls.make(name, kw, cls), basecalls.make(name, kw, cls)
    o1.merge_state([m]); o2.merge_state([f])
    d = same(compute_val(o1), compute_val(o2))
    if d:
        return f"merging a reset-and-updated metric differs from merging a fresh-and-updated one: {d}"
    return None


# ---- C11 --------------------------------------------------------------------------------------
def strided(x):
    """A non-contiguous view holding the same values."""
    if not isinstance(x, torch.Tensor) or x.ndim == 0 or x.numel() == 0:
        return x
    big = x.repeat_interleave(2, dim=-1)
    return big[..., ::2]


def c11_case(case, seed, pre, layout):
    label, name, kw, call, cls = case
    rng = random.Random(seed)
    special = seed % 3 == 0
    srcs = [build(case, rng, {"updates": rng.choice([0, 1, 2, 3]), "merge": 0, "special": special}) for _ in range(rng.choice([1, 2, 3]))]
    before = [(full_state(s), compute_val(s)) for s in srcs]
    tgt = build(case, rng, {"updates": 0 if layout == "fresh-target" else rng.choice([1, 2]), "merge": 0})
    tgt.merge_state(srcs)
    for k, s in enumerate(srcs):
        d = same(before[k][0], full_state(s)) or same(before[k][1], compute_val(s))
        if d:
            return f"merge_state changed source {k}: {d}"
    # later operations on the target must not reach the sources
    for u in gen_updates(rng, call, 2):
        do_update(tgt, u)
    tgt.merge_state(srcs[:1])
    compute_val(tgt)
    for u in gen_updates(rng, call, 1):
        do_update(tgt, u)
    for k, s in enumerate(srcs):
        d = same(before[k][0], full_state(s)) or same(before[k][1], compute_val(s))
        if d:
            return f"operating on the merge target later changed source {k}: {d}"
    if layout == "reset-target":
        tgt.reset()
        for u in gen_updates(rng, call, 1):
            do_update(tgt, u)
        for k, s in enumerate(srcs):
            d = same(before[k][0], full_state(s))
            if d:
                return f"reset + update of the merge target changed source {k}: {d}"
    # compute is idempotent and pure (degenerate states included: srcs may be empty)
    for m in srcs + [tgt, basecalls.make(name, kw, cls)]:
        st = full_state(m)
        sd = impl_val(m.state_dict())
        r1 = compute_val(m)
        d = same(st, full_state(m)) or same(sd, impl_val(m.state_dict()))
        if d:
            return f"compute() changed the metric's state: {d}"
        r2 = compute_val(m)
        d = same(r1, r2)
        if d:
            return f"compute() is not idempotent: {d}"
    # update() leaves its arguments untouched (contiguous and strided) -- right after the call AND after
    # every later operation on the metric (a metric that keeps a caller tensor as its buffer is caught late)
    m = basecalls.make(name, kw, cls)
    kept = []
    for u in gen_updates(rng, call, 4):
        for view in (False, True):
            a, k = clone_args(*u)
            if view:
                a = tuple(strided(x) for x in a)
                k = {n: strided(x) for n, x in k.items()}
            if not all(isinstance(x, (torch.Tensor, int, float, str, list)) for x in a):
                m.update(*a, **k)
                continue
            live = [list(a), [k[n] for n in sorted(k)]]
            ref = impl_val(live)
            m.update(*a, **k)
            kept.append((ref, live, view))
            for ref0, live0, view0 in kept:
                d = same(ref0, impl_val(live0))
                if d:
                    return f"update() modified {'strided ' if view0 else ''}arguments passed to this or an earlier update(): {d}"
    compute_val(m)
    m.reset()
    for ref0, live0, view0 in kept:
        d = same(ref0, impl_val(live0))
        if d:
            return f"compute()/reset() modified arguments passed to an earlier update(): {d}"
    return None


# ---- C14 (class-generic part) -----------------------------------------------------------------
def widen(args):
    """Change the trailing extent of every >=2-D tensor argument consistently (+1 column): the call is
    well-formed on its own but may be inconsistent with what the metric has already accumulated."""
    a, k = args

    def w(x):
        if isinstance(x, torch.Tensor) and x.ndim >= 2 and x.shape[-1] >= 1:
            return torch.cat([x, x[..., :1]], dim=-1)
        return x
    return tuple(w(x) for x in a), {n: w(x) for n, x in k.items()}


def c14_case(case, seed, pre):
    """After a valid history, an update that is valid in isolation but has another trailing width:
    it must either be accepted or raise leaving state and results exactly as they were."""
    label, name, kw, call, cls = case
    rng = random.Random(seed)
    m = build(case, rng, pre)
    u = call(rng, rng.choice([2, 3]))
    bad = widen(u)
    if all(x is y for x, y in zip(bad[0], u[0])) and all(bad[1][n] is u[1][n] for n in u[1]):
        return None      # nothing to widen for this class
    # the widened call must be acceptable to a FRESH instance, otherwise it is an ordinary malformed call
    f = basecalls.make(name, kw, cls)
    try:
        do_update(f, bad)
    except Exception:
        return None
    before = (full_state(m), compute_val(m))
    try:
        do_update(m, bad)
    except Exception as ex:
        d = same(before[0], full_state(m)) or same(before[1], compute_val(m))
        if d:
            return f"update() raised {type(ex).__name__} after a valid history but left the metric changed: {d}"
        try:
            do_update(m, u)
        except Exception as ex2:
            return f"metric unusable after a failed update(): {type(ex2).__name__}: {ex2}"
    return None
