"""Class-generic sync statements over EVERY catalogue class on the checking transport (vlib/simdist.py):

  C02  on every rank, toolkit.sync_and_compute / get_synced_metric of the real class equals
       clone(local).merge_state(other ranks' metrics in rank order) done locally with the real class;
  C11  syncing leaves the local metric's results (and registered state values) unchanged, and a second
       sync gives the same outcome.

Implementation level (two executions of the real code compared with each other); the protocol theorems are
generic in the merge function (Props/C02.v), these streams instantiate them with every real class and find
the failing input when a class-specific hook (_prepare_for_merge_state, state_dict, load_state_dict) breaks them.
"""
from __future__ import annotations
import copy
import random

from . import simdist
from .catalogue import entry
from .compare import close
from .model import T


def _cv(e, m):
    try:
        return e.out_val(m.compute())
    except Exception:  # noqa
        return T("err")


def _dtype_only(o):
    """a collective mismatch whose descriptors differ ONLY in the dtype of the tensor"""
    import re
    if o[0] != "mismatch":
        return None
    ds = re.findall(r"\('(\w+)', (\(.*?\)), '(\w+)'\)", o[1].replace('\\', ''))
    if len(ds) == 2 and ds[0][:2] == ds[1][:2] and {ds[0][2], ds[1][2]} == {"float32", "float64"}:
        return "ranks disagree only on the dtype (float32 default vs float64 data) of a state tensor: "
    return None


def sync_case(name, seed, W, how):
    """None, or (kind, description); kind in c02 | c11-local | c11-repeat | crash"""
    from torcheval.metrics import toolkit
    e = entry(name)
    rng = random.Random(seed)
    cfgs = e.configs(rng, True)
    cfg = cfgs[rng.randrange(len(cfgs))]
    layout = rng.choice(["any", "any", "one-empty", "all-empty", "long"])
    hist, metrics = [], []
    empty = rng.randrange(W)
    for r in range(W):
        k = 0 if layout == "all-empty" or (layout == "one-empty" and r == empty) else rng.choice([1, 2, 3] if layout != "long" else [4, 6, 9])
        bs = [e.gen_batch(rng, cfg, max(e.min_batch, rng.choice([1, 2, 3, 5]))) for _ in range(k)]
        m = e.make(cfg)
        for b in bs:
            e.update(m, cfg, b)
        hist.append(bs)
        metrics.append(m)
    want = []
    for r in range(W):
        try:
            x = copy.deepcopy(metrics[r])
            x.merge_state([copy.deepcopy(metrics[j]) for j in range(W) if j != r])
            want.append(_cv(e, x))
        except Exception as ex:
            want.append(T("err"))
    before = [_cv(e, m) for m in metrics]
    info = {"class": name, "cfg": cfg, "W": W, "entry": how, "layout": layout, "updates_per_rank": [len(h) for h in hist]}

    def fn(r):
        m = metrics[r]
        if how == "sync_and_compute":
            try:
                r1 = e.out_val(toolkit.sync_and_compute(m))
            except simdist.CollectiveMismatch:
                raise
            except Exception as ex:
                r1 = T("err")
            after = _cv(e, m)
            try:
                r2 = e.out_val(toolkit.sync_and_compute(m))
            except simdist.CollectiveMismatch:
                raise
            except Exception as ex:
                r2 = T("err")
        else:
            s1 = toolkit.get_synced_metric(m)
            r1 = _cv(e, s1)
            after = _cv(e, m)
            s2 = toolkit.get_synced_metric(m)
            r2 = _cv(e, s2)
            # the synced metric is an independent object: using it must not reach the local one
            for b in hist[r][:1]:
                e.update(s1, cfg, b)
            after2 = _cv(e, m)
            if close(after, after2, 0):
                return (r1, T("changed-by-using-synced-metric", after2), r2)
        return (r1, after, r2)

    with simdist.Sim(W) as s:
        out, _ = s.run(fn)
    for r in range(W):
        o = out[r]
        if o[0] != "ok":
            return ("c02", f"rank {r}: {how} did not return: {_dtype_only(o) or ''}{o!r:.300}", info)
    for r in range(W):
        r1, after, r2 = out[r][1]
        d = None if (isinstance(before[r], T) and isinstance(after, T) and before[r].tag == after.tag == "err") else close(before[r], after, 0)
        if d:
            return ("c11-local", f"rank {r}: local compute() before the sync vs after it: {d}", info)
        d = None if (isinstance(r1, T) and isinstance(r2, T) and r1.tag == r2.tag == "err") else close(r1, r2, 0)
        if d:
            return ("c11-repeat", f"rank {r}: first sync vs second sync: {d}", info)
    for r in range(W):
        r1 = out[r][1][0]
        d = None if (isinstance(want[r], T) and isinstance(r1, T) and want[r].tag == r1.tag == "err") else close(want[r], r1, e.tol)
        if d:
            return ("c02", f"rank {r}: local merge (clone(local).merge_state(others in rank order)) vs {how}: {d}", info)
    return (None, None, info)


def job(arg):
    name, trials = arg
    out = []
    for seed, W, how in trials:
        try:
            out.append(sync_case(name, seed, W, how))
        except Exception as ex:
            out.append(("crash", f"harness exception {type(ex).__name__}: {ex}", {"class": name}))
    return out


def stream(ctx, kinds, title, ntrials):
    from . import sandbox, core
    from .catalogue import entries
    s = ctx.stream(title)
    jobs = []
    for e in entries():
        trials = [(ctx.rng.randrange(10 ** 9), ctx.rng.choice([2, 2, 3, 4]), ["sync_and_compute", "get_synced_metric"][t % 2]) for t in range(ntrials)]
        jobs.append((e.name, trials))
    res = sandbox.run_jobs(job, jobs, timeout=ctx.n(200, 1200), workers=12)
    for (name, trials), (status, val) in zip(jobs, res):
        bad = None
        if status != "ok":
            bad = ("crash", {"check": "sync_case", "class": name, "observed": f"worker {status}: {val}"[:1500]})
            val = []
        for (seed, W, how), (kind, d, info) in zip(trials, val):
            s.case((name, seed, W, how), sum(info.get("updates_per_rank", [0])) > 0, sample=info)
            s.count(f"W={W}")
            s.count("layout:" + str(info.get("layout")))
            if kind and bad is None and (kind in kinds or kind == "crash"):
                bad = (kind, {"check": "sync_case", "class": name, "seed": seed, "W": W, "entry": how, "kind": kind, **info, "observed": d})
        if bad:
            ctx.violation("failing-input", name, {**bad[1], "broken": f"sync:{bad[0]}:{name}"},
                          finding_id=core.match_finding(ctx.prop, name, str(bad[1]["observed"])))


def replay(d):
    if d.get("check") != "sync_case":
        return NotImplemented
    kind, desc, _ = sync_case(d["class"], d["seed"], d["W"], d["entry"])
    return desc if kind == d.get("kind") else None
