"""Max, Min, Throughput, Cat, AUC, Covariance (torcheval/metrics/aggregation)."""
from fractions import Fraction
import torch
from torcheval import metrics as M
from torcheval.metrics import functional as Fn
from ..catalogue import Entry, tens, grid, F
from ..compare import TOL32, TOL64, impl_val


class DynTol(Entry):
    """tolerance chosen per configuration (set by make() for histories and by functional() for the functional form)."""
    _tol = TOL64

    @property
    def tol(self):
        return self._tol

    def class_tol(self, cfg):
        return TOL64

    def make(self, cfg):
        self._tol = self.class_tol(cfg)
        return self.cls(**self.kwargs(cfg))


class _Extremum(Entry):
    tol = TOL64
    family = "semilattice"
    has_functional = False
    min_compute = 0

    def gen_batch(self, rng, cfg, n):
        n = max(1, n)
        shape2 = rng.random() < 0.25 and n % 2 == 0
        lo, hi = rng.choice([(-16, 16), (-16, 16), (0, 3), (-40, -30)])
        if rng.random() < 0.3:         # float64 data that float32 cannot hold (the states' default dtype is float32)
            from ..catalogue import f64_only
            return {"x": f64_only(rng, n), "rows": 2 if shape2 else 0}
        return {"x": grid(rng, n, 8, lo, hi), "rows": 2 if shape2 else 0}

    def args(self, cfg, b):
        x = tens(b["x"], torch.float64)
        return ((x.reshape(2, -1) if b.get("rows") else x),), {}

    def batch_val(self, cfg, b):
        return list(b["x"])

    def concat(self, cfg, batches):
        return {"x": sum((b["x"] for b in batches), []), "rows": 0}

    def samples(self, cfg, b):
        return [{"x": [x], "rows": 0} for x in b["x"]]

    def size(self, b):
        return len(b["x"])


class MaxE(_Extremum):
    name, cls, model = "Max", M.Max, "agg2_max"


class MinE(_Extremum):
    name, cls, model = "Min", M.Min, "agg2_min"


class ThroughputE(DynTol):
    name, cls, model, fn_model = "Throughput", M.Throughput, "agg2_throughput", "agg2_throughput_fn"
    family = "special"
    merge_exact = False          # documented: merge takes max(elapsed) while update adds
    min_compute = 0

    def gen_batch(self, rng, cfg, n):
        return {"num": rng.choice([0, 1, 2, 3, 8, 64, 1000]), "t": Fraction(rng.randint(1, 64), rng.choice([1, 2, 4, 8]))}

    def args(self, cfg, b):
        return (b["num"], float(b["t"])), {}

    def batch_val(self, cfg, b):
        return [b["num"], b["t"]]

    def concat(self, cfg, batches):
        return {"num": sum(b["num"] for b in batches), "t": sum((b["t"] for b in batches), Fraction(0))}

    def samples(self, cfg, b):
        return None

    def size(self, b):
        return 1

    def functional(self, cfg, b):
        self._tol = TOL32        # the functional returns torch.tensor(python float): float32
        return Fn.throughput(b["num"], float(b["t"]))

    def fn_val(self, r):
        return impl_val(r.double())


class CatE(Entry):
    """A batch is stored as its list of slices along `dim`; the tensor layout is rebuilt in args()."""
    name, cls, model = "Cat", M.Cat, "agg2_cat"
    tol = TOL64
    family = "cache"
    order_free = False
    has_functional = False
    min_compute = 0

    def configs(self, rng, quick=True):
        return [{"dim": 0, "_k": 0}, {"dim": 0, "_k": 2}, {"dim": 1, "_k": 2}, {"dim": 1, "_k": 3}, {"dim": 0, "_k": 1}]

    def kwargs(self, cfg):
        return {"dim": cfg["dim"]}

    def cfg_val(self, cfg):
        return [cfg["dim"], cfg["_k"]]

    def gen_batch(self, rng, cfg, n):
        n = max(1, n)
        k = cfg["_k"]
        if k == 0:
            return {"sl": grid(rng, n, 4, -8, 8)}
        return {"sl": [grid(rng, k, 4, -8, 8) for _ in range(n)]}

    def _layout(self, cfg, b):
        sl = b["sl"]
        if cfg["dim"] == 1:
            return [[s[i] for s in sl] for i in range(cfg["_k"])]
        return sl

    def args(self, cfg, b):
        return (tens(self._layout(cfg, b), torch.float64),), {}

    def batch_val(self, cfg, b):
        return self._layout(cfg, b)

    def size(self, b):
        return len(b["sl"])


class AUCE(Entry):
    name, cls, model, fn_model = "AUC", M.AUC, "agg2_auc", "agg2_auc_fn"
    tol = TOL64
    family = "cache"
    order_free = False           # reorder=False keeps order; reorder=True is order-dependent inside x-ties (C12)
    min_compute = 0

    def configs(self, rng, quick=True):
        return [{"reorder": r, "n_tasks": t} for t in (1, 2, 3) for r in (True, False)]

    def cfg_val(self, cfg):
        return [bool(cfg["reorder"]), cfg["n_tasks"]]

    def gen_batch(self, rng, cfg, n):
        n = max(1, n)
        t = cfg["n_tasks"]
        tie = rng.random() < 0.6
        x = [grid(rng, n, 4, 0, 6 if tie else 64) for _ in range(t)]
        if not cfg["reorder"] and rng.random() < 0.5:
            x = [sorted(r) for r in x]
        y = [grid(rng, n, 8, -8, 16) for _ in range(t)]
        return {"x": x, "y": y, "flat": t == 1 and rng.random() < 0.5}

    def args(self, cfg, b):
        if b["flat"]:
            return (tens(b["x"][0], torch.float64), tens(b["y"][0], torch.float64)), {}
        return (tens(b["x"], torch.float64), tens(b["y"], torch.float64)), {}

    def batch_val(self, cfg, b):
        return [b["x"], b["y"]]

    def concat(self, cfg, batches):
        t = cfg["n_tasks"]
        return {"x": [sum((b["x"][i] for b in batches), []) for i in range(t)],
                "y": [sum((b["y"][i] for b in batches), []) for i in range(t)], "flat": False}

    def samples(self, cfg, b):
        t = cfg["n_tasks"]
        return [{"x": [[b["x"][i][j]] for i in range(t)], "y": [[b["y"][i][j]] for i in range(t)], "flat": False}
                for j in range(len(b["x"][0]))]

    def size(self, b):
        return len(b["x"][0])

    def functional(self, cfg, b):
        a, _ = self.args(cfg, b)
        return Fn.auc(a[0], a[1], reorder=cfg["reorder"])


class CovarianceE(DynTol):
    name, cls, model = "Covariance", M.Covariance, "reg_cov"
    TOL_OFFSET = Fraction(1, 2 ** 16)   # ill-conditioned stream: |mean| = 2^30 >> spread; demean-first keeps ~1e-7 relative
    family = "moments"
    has_functional = False
    min_compute = 2
    alias_on_merge = True        # adopts the first shard's state: probed for tensor sharing (was D2)

    def configs(self, rng, quick=True):
        return [{"_d": 2, "_off": 0}, {"_d": 2, "_off": 30}, {"_d": 1, "_off": 0}, {"_d": 3, "_off": 30}, {"_d": 3, "_off": 0}, {"_d": 1, "_off": 30}]

    def class_tol(self, cfg):
        return self.TOL_OFFSET if cfg.get("_off") else TOL64

    def kwargs(self, cfg):
        return {}

    def cfg_val(self, cfg):
        return cfg["_d"]

    def directed_batches(self, rng, cfg):
        return [self.gen_batch(rng, cfg, 4), self.gen_batch(rng, cfg, 3)]

    def gen_batch(self, rng, cfg, n):
        n = max(1, n)
        d = cfg["_d"]
        rows = [grid(rng, d, 4, -12, 12) for _ in range(n)]
        if cfg.get("_off"):                         # ill-conditioned: values 2^k + j/8 (exact in float64)
            rows = [[2 ** cfg["_off"] + Fraction(rng.randint(-24, 24), 8) for _ in range(d)] for _ in range(n)]
        if rng.random() < 0.2:                      # repeated rows / constant column
            rows = [list(rows[0]) for _ in range(n)]
        elif rng.random() < 0.2:
            for r in rows:
                r[0] = rows[0][0]
        return {"rows": rows}

    def args(self, cfg, b):
        return (tens(b["rows"], torch.float64).reshape(len(b["rows"]), cfg["_d"]),), {}

    def batch_val(self, cfg, b):
        return b["rows"]

    def size(self, b):
        return len(b["rows"])


ENTRIES = [MaxE(), MinE(), ThroughputE(), CatE(), AUCE(), CovarianceE()]
