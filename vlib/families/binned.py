"""Binned precision-recall curves, binned AUPRC, binned AUROC (C06).

Scores and thresholds live on the grid k/8 (exactly representable in float32); the Coq model gets the
numerators.  An integer threshold parameter n is only generated with n-1 a power of two (1, 2, 3, 5, 9),
so that torch.linspace(0, 1, n) is exactly i/(n-1) on the grid.  Scores are drawn to sit ON thresholds,
one grid step below / above them, below the first and above the last threshold.
"""
from fractions import Fraction
import warnings
import torch
from torcheval import metrics as M
from torcheval.metrics import functional as Fn
from ..catalogue import Entry
from ..compare import impl_val

warnings.simplefilter("ignore")
D = 8
INT_N = [2, 3, 5, 9]


# ---- thresholds ---------------------------------------------------------------------------
def gen_threshold(rng, need01, allow_one=True):
    """{'kind': int|list|tensor, 'n': .., 'vals': numerators}"""
    r = rng.random()
    if r < 0.3:
        n = rng.choice(INT_N + ([1] if (allow_one and not need01) else []))
        return {"kind": "int", "n": n}
    k = rng.randint(1, 8)
    if need01:
        k = max(k, 2)
        mid = sorted(rng.choice(range(0, D + 1)) for _ in range(k - 2))
        vals = [0] + mid + [D]
    else:
        vals = sorted(rng.choice(range(0, D + 1)) for _ in range(k))
    if k >= 2 and rng.random() < 0.5:                      # force a duplicate
        i = rng.randrange(len(vals) - 1)
        if need01 and i + 1 == len(vals) - 1:
            vals[i] = vals[i + 1]
        else:
            vals[i + 1] = vals[i]
        vals = sorted(vals)
        if need01:
            vals[0], vals[-1] = 0, D
    return {"kind": rng.choice(["list", "tensor"]), "vals": vals}


def thr_numerators(t):
    if t["kind"] == "int":
        n = t["n"]
        return [0] if n == 1 else [i * D // (n - 1) for i in range(n)]
    return list(t["vals"])


def thr_param(t):
    if t["kind"] == "int":
        return t["n"]
    vals = [v / D for v in t["vals"]]
    return vals if t["kind"] == "list" else torch.tensor(vals, dtype=torch.float32)


def thr_val(t):
    return t["n"] if t["kind"] == "int" else list(t["vals"])


def gen_scores(rng, T, n):
    """n score numerators: on thresholds, one step below/above, below the first, above the last, anywhere."""
    lo, hi = (T[0], T[-1]) if T else (0, D)
    out = []
    style = rng.choice(["mixed", "mixed", "on", "const", "outside"])
    const = rng.choice(T) if T else 0
    for _ in range(n):
        r = rng.random()
        if style == "const":
            out.append(const)
        elif style == "on" or r < 0.35:
            out.append(rng.choice(T) if T else 0)
        elif style == "outside" or r < 0.5:
            out.append(rng.choice([lo - 1, lo - 2, hi + 1, hi + 2, lo, hi]))
        elif r < 0.75:
            out.append((rng.choice(T) if T else 0) + rng.choice([-1, 1]))
        else:
            out.append(rng.randint(-2, D + 2))
    return out


def gen_labels(rng, n):
    style = rng.choice(["mixed", "mixed", "mixed", "allpos", "allneg"])
    if style == "allpos":
        return [1] * n
    if style == "allneg":
        return [0] * n
    return [rng.randint(0, 1) for _ in range(n)]


def ft(x):
    return torch.tensor([[v / D for v in r] for r in x] if x and isinstance(x[0], list) else [v / D for v in x],
                        dtype=torch.float32)


def it(x):
    return torch.tensor(x, dtype=torch.int64)


class _Binned(Entry):
    family = "additive"
    need01 = False          # parameter check demands threshold[0] == 0 and threshold[-1] == 1
    cname = None            # ctor keyword of the count C (num_tasks / num_classes / num_labels)
    crange = (1, 4)
    has_opt = False
    has_avg = False

    def configs(self, rng, quick=True):
        out = []
        opts = ["vectorized", "memory"] if self.has_opt else [None]
        avgs = ["macro", None, "none"] if self.has_avg else [None]
        k = 0
        for opt in opts:
            for avg in avgs:
                for _ in range(2 if quick else 6):
                    cfg = {"thr": gen_threshold(rng, self.need01)}
                    if self.cname:
                        lo, hi = self.crange
                        cfg["C"] = lo + (k % (hi - lo + 1))
                        k += 1
                    if opt:
                        cfg["optimization"] = opt
                    if self.has_avg:
                        cfg["average"] = avg
                    out.append(cfg)
        rng.shuffle(out)
        return out

    def kwargs(self, cfg):
        kw = {"threshold": thr_param(cfg["thr"])}
        if self.cname:
            kw[self.cname] = cfg["C"]
        if "optimization" in cfg:
            kw["optimization"] = cfg["optimization"]
        if "average" in cfg:
            kw["average"] = cfg["average"]
        return kw

    def cfg_val(self, cfg):
        return [D, thr_val(cfg["thr"]), cfg.get("optimization") == "memory", cfg.get("C", 1),
                cfg.get("average", "macro") == "macro"]

    def T(self, cfg):
        return thr_numerators(cfg["thr"])


# ---- binary, one row ------------------------------------------------------------------------
class BinaryPRC(_Binned):
    name, cls = "BinaryBinnedPrecisionRecallCurve", M.BinaryBinnedPrecisionRecallCurve
    model, fn_model = "binned_bprc", "binned_bprc_fn"

    def gen_batch(self, rng, cfg, n):
        return {"s": gen_scores(rng, self.T(cfg), n), "y": gen_labels(rng, n)}

    def args(self, cfg, b):
        return (ft(b["s"]), it(b["y"])), {}

    def batch_val(self, cfg, b):
        return [b["s"], b["y"]]

    def functional(self, cfg, b):
        a, _ = self.args(cfg, b)
        return Fn.binary_binned_precision_recall_curve(*a, threshold=thr_param(cfg["thr"]))


# ---- multi-task binary (rows = tasks) ----------------------------------------------------------
class _Tasks(_Binned):
    cname = "num_tasks"
    allow_2d_single = True

    def gen_batch(self, rng, cfg, n):
        k = cfg["C"]
        T = self.T(cfg)
        b = {"rows": [gen_scores(rng, T, n) for _ in range(k)], "ys": [gen_labels(rng, n) for _ in range(k)]}
        b["flat"] = (k == 1) and (not self.allow_2d_single or rng.random() < 0.6)
        return b

    def args(self, cfg, b):
        if b["flat"]:
            return (ft(b["rows"][0]), it(b["ys"][0])), {}
        return (ft(b["rows"]) if b["rows"][0] else torch.zeros(len(b["rows"]), 0), it(b["ys"])), {}

    def batch_val(self, cfg, b):
        return [[r, y] for r, y in zip(b["rows"], b["ys"])]

    def concat(self, cfg, batches):
        k = len(batches[0]["rows"])
        return {"rows": [sum((b["rows"][t] for b in batches), []) for t in range(k)],
                "ys": [sum((b["ys"][t] for b in batches), []) for t in range(k)],
                "flat": all(b["flat"] for b in batches)}

    def size(self, b):
        return len(b["rows"][0])

    def samples(self, cfg, b):
        return [{"rows": [[r[j]] for r in b["rows"]], "ys": [[y[j]] for y in b["ys"]], "flat": b["flat"]}
                for j in range(self.size(b))]


class BinaryAUPRC(_Tasks):
    name, cls = "BinaryBinnedAUPRC", M.BinaryBinnedAUPRC
    model, fn_model = "binned_bauprc", "binned_bauprc_fn"
    need01 = True

    def functional(self, cfg, b):
        a, _ = self.args(cfg, b)
        r = Fn.binary_binned_auprc(*a, num_tasks=cfg["C"], threshold=thr_param(cfg["thr"]))[0]
        return r.reshape(()) if cfg["C"] == 1 else r      # the class squeezes num_tasks = 1; so do we


class BinaryAUROC(_Tasks):
    name, cls = "BinaryBinnedAUROC", M.BinaryBinnedAUROC
    model, fn_model = "binned_broc", "binned_broc_fn"
    family = "cache"
    allow_2d_single = False          # num_tasks = 1 demands a 1-D input

    def functional(self, cfg, b):
        a, _ = self.args(cfg, b)
        return Fn.binary_binned_auroc(*a, num_tasks=cfg["C"], threshold=thr_param(cfg["thr"]))


# ---- multiclass ---------------------------------------------------------------------------------
class _MC(_Binned):
    cname = "num_classes"

    def gen_batch(self, rng, cfg, n):
        C, T = cfg["C"], self.T(cfg)
        cols = [gen_scores(rng, T, n) for _ in range(C)]          # a different tie structure per class
        style = rng.choice(["mixed", "mixed", "one", "absent"])
        only = rng.randrange(C)
        ys = []
        for _ in range(n):
            if style == "one":
                ys.append(only)
            elif style == "absent" and C > 1:
                ys.append(rng.choice([c for c in range(C) if c != only]))
            else:
                ys.append(rng.randrange(C))
        return {"s": [[cols[c][j] for c in range(C)] for j in range(n)], "y": ys}

    def args(self, cfg, b):
        return (ft(b["s"]), it(b["y"])), {}

    def batch_val(self, cfg, b):
        return [b["s"], b["y"]]


class MulticlassPRC(_MC):
    name, cls = "MulticlassBinnedPrecisionRecallCurve", M.MulticlassBinnedPrecisionRecallCurve
    model, fn_model = "binned_mcprc", "binned_mcprc_fn"
    has_opt = True

    def functional(self, cfg, b):
        a, _ = self.args(cfg, b)
        return Fn.multiclass_binned_precision_recall_curve(*a, num_classes=cfg["C"], threshold=thr_param(cfg["thr"]),
                                                           optimization=cfg["optimization"])


class MulticlassAUPRC(_MC):
    name, cls = "MulticlassBinnedAUPRC", M.MulticlassBinnedAUPRC
    model, fn_model = "binned_mcauprc", "binned_mcauprc_fn"
    need01, has_opt, has_avg, crange = True, True, True, (2, 4)

    def functional(self, cfg, b):
        a, _ = self.args(cfg, b)
        return Fn.multiclass_binned_auprc(*a, num_classes=cfg["C"], threshold=thr_param(cfg["thr"]),
                                          average=cfg["average"], optimization=cfg["optimization"])[0]


class MulticlassAUROC(_MC):
    name, cls = "MulticlassBinnedAUROC", M.MulticlassBinnedAUROC
    model, fn_model = "binned_mroc", "binned_mroc_fn"
    family = "cache"
    has_avg, crange = True, (2, 4)
    order_free = False      # as implemented the result has one entry per SAMPLE (finding C06-multiclass-binned-auroc-per-sample)

    def functional(self, cfg, b):
        a, _ = self.args(cfg, b)
        return Fn.multiclass_binned_auroc(*a, num_classes=cfg["C"], threshold=thr_param(cfg["thr"]),
                                          average=cfg["average"])


# ---- multilabel ---------------------------------------------------------------------------------
class _ML(_Binned):
    cname = "num_labels"

    def gen_batch(self, rng, cfg, n):
        C, T = cfg["C"], self.T(cfg)
        cols = [gen_scores(rng, T, n) for _ in range(C)]
        ycols = [gen_labels(rng, n) for _ in range(C)]
        return {"s": [[cols[c][j] for c in range(C)] for j in range(n)],
                "y": [[ycols[c][j] for c in range(C)] for j in range(n)]}

    def args(self, cfg, b):
        return (ft(b["s"]), it(b["y"])), {}

    def batch_val(self, cfg, b):
        return [b["s"], b["y"]]


class MultilabelPRC(_ML):
    name, cls = "MultilabelBinnedPrecisionRecallCurve", M.MultilabelBinnedPrecisionRecallCurve
    model, fn_model = "binned_mlprc", "binned_mlprc_fn"
    has_opt = True

    def functional(self, cfg, b):
        a, _ = self.args(cfg, b)
        return Fn.multilabel_binned_precision_recall_curve(*a, num_labels=cfg["C"], threshold=thr_param(cfg["thr"]),
                                                           optimization=cfg["optimization"])


class MultilabelAUPRC(_ML):
    name, cls = "MultilabelBinnedAUPRC", M.MultilabelBinnedAUPRC
    model, fn_model = "binned_mlauprc", "binned_mlauprc_fn"
    need01, has_opt, has_avg, crange = True, True, True, (2, 4)

    def functional(self, cfg, b):
        a, _ = self.args(cfg, b)
        return Fn.multilabel_binned_auprc(*a, num_labels=cfg["C"], threshold=thr_param(cfg["thr"]),
                                          average=cfg["average"], optimization=cfg["optimization"])[0]


ENTRIES = [BinaryPRC(), MulticlassPRC(), MultilabelPRC(), BinaryAUPRC(), MulticlassAUPRC(), MultilabelAUPRC(),
           BinaryAUROC(), MulticlassAUROC()]
