"""Mean, Sum (weighted sums)."""
from fractions import Fraction
import torch
from torcheval import metrics as M
from torcheval.metrics import functional as Fn
from ..catalogue import Entry, tens, grid, F
from ..compare import TOL64

WEIGHTS = [F(1, 4), F(1, 2), F(1), F(2), F(3)]


class _Weighted(Entry):
    tol = TOL64
    family = "additive"

    def configs(self, rng, quick=True):
        # "_ws": every weight of every batch multiplied by 2^_ws (tiny / huge totals; exact powers of two)
        return [{}, {}, {"_ws": -40}, {"_ws": 40}, {"_ws": -24}]

    def kwargs(self, cfg):
        return {}

    def gen_batch(self, rng, cfg, n):
        shape2 = rng.random() < 0.25 and n % 2 == 0 and n > 0
        xs = grid(rng, n, 8, -16, 16)
        exact = True
        if rng.random() < 0.2:
            exact = False
            from ..catalogue import f64_only
            xs = [abs(x) for x in f64_only(rng, n) if abs(x) < 10 ** 30] or xs      # same sign: no cancellation, sums well inside float64
            xs = (xs * n)[:n]
        ws = cfg.get("_ws", 0)
        sc = Fraction(2) ** ws
        mode = rng.choice(["none", "scalar", "each"] if not ws else ["scalar", "each"])
        b = {"x": xs, "wmode": mode, "rows": 2 if shape2 else 0}
        if mode == "scalar":
            b["w"] = rng.choice(WEIGHTS) * sc
        elif mode == "each":
            b["ws"] = [rng.choice(WEIGHTS) * sc for _ in range(n)]
            if exact and rng.random() < 0.3:          # signed weights (dyadic data only: sums stay exact): a batch's weights may cancel exactly
                b["ws"] = [w * rng.choice([1, 1, -1]) for w in b["ws"]]
                if n >= 2 and rng.random() < 0.5:
                    b["ws"][1] = -b["ws"][0]
        return b

    def _shape(self, b, t):
        return t.reshape(2, -1) if b.get("rows") else t

    def args(self, cfg, b):
        x = self._shape(b, tens(b["x"], torch.float64))
        if b["wmode"] == "none":
            return (x,), {}
        if b["wmode"] == "scalar":
            w = b["w"]
            return (x,), {"weight": int(w) if w.denominator == 1 and w > 1 else float(w)}
        return (x,), {"weight": self._shape(b, tens(b["ws"], torch.float64))}

    def batch_val(self, cfg, b):
        if b["wmode"] == "none":
            return [b["x"], F(1)]
        if b["wmode"] == "scalar":
            return [b["x"], b["w"]]
        return [b["x"], b["ws"]]

    def concat(self, cfg, batches):
        xs, ws = [], []
        for b in batches:
            xs += b["x"]
            ws += b["ws"] if b["wmode"] == "each" else [b.get("w", F(1))] * len(b["x"])
        return {"x": xs, "wmode": "each", "ws": ws, "rows": 0}

    def samples(self, cfg, b):
        c = self.concat(cfg, [b])
        return [{"x": [x], "wmode": "each", "ws": [w], "rows": 0} for x, w in zip(c["x"], c["ws"])]

    def size(self, b):
        return len(b["x"])


class MeanE(_Weighted):
    name, cls, model, fn_model = "Mean", M.Mean, "mean", "mean_fn"

    def functional(self, cfg, b):
        a, k = self.args(cfg, b)
        return Fn.mean(*a, **({"weight": k["weight"]} if k else {}))

    def defined(self, cfg, batches):
        c = self.concat(cfg, batches)
        return len(c["x"]) > 0 and sum(c["ws"]) != 0


class SumE(_Weighted):
    name, cls, model, fn_model = "Sum", M.Sum, "sum", "sum_fn"
    min_compute = 0

    def functional(self, cfg, b):
        a, k = self.args(cfg, b)
        return Fn.sum(*a, **({"weight": k["weight"]} if k else {}))


ENTRIES = [MeanE(), SumE()]
