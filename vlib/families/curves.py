"""Curve metrics (cache family): AUROC, AUPRC, precision-recall curves, recall at fixed precision.

Scores are integers z on the grid z/DEN (DEN a power of two, exact in float32); the model gets
z and DEN, torch gets z/DEN.  Batches are sample-major dicts of parallel lists so that the
default concat / samples / size of Entry work."""
from fractions import Fraction
import torch
from torcheval import metrics as M
from torcheval.metrics import functional as Fn
from ..catalogue import Entry, F

DEN = 64
FINE_DEN = 2 ** 40
WEIGHTS = [F(1, 4), F(1, 2), F(1), F(2), F(3)]
MINP = [F(0), F(1, 4), F(1, 2), F(3, 4), F(1)]
# non-dyadic bounds: torch compares float32 precision with the bound rounded to float32; tp/(tp+fp) and the
# bound round identically when they are the same rational (verified for these values), the model is exact
MINP_NONDYADIC = [F(7, 10), F(3, 5), F(9, 10), F(1, 3), F(2, 3)]


# ---------------------------------------------------------------------------------------------
# generators: tie ratio swept 0..100 %, constant scores, degenerate labels
# ---------------------------------------------------------------------------------------------
def gen_scores(rng, n, den=DEN, mode=None):
    """n grid scores with a chosen tie structure."""
    if den > 2 ** 30 and mode is None and rng.random() < 0.75:
        # fine grid (float64 inputs): clusters of scores that differ only far below float32 resolution
        bases = [rng.randrange(0, 2 ** 16) * 2 ** 24 for _ in range(rng.randint(1, 3))]
        return [rng.choice(bases) + rng.randint(0, 6) for _ in range(n)]
    mode = mode or rng.choice(["distinct", "const", "two", "three", "half", "levels", "levels", "neg", "wide"])
    if mode == "const":
        v = rng.randint(0, den)
        return [v] * n
    if mode == "distinct" and n <= den + 1:
        return rng.sample(range(0, den + 1), n)
    if mode == "neg":
        k = max(1, rng.randint(1, max(1, n)))
        pool = rng.sample(range(-2 * den, den + 1), min(k, 3 * den))
        return [rng.choice(pool) for _ in range(n)]
    if mode == "wide":
        return [rng.randint(0, 4 * den) for _ in range(n)]
    k = {"two": 2, "three": 3, "half": max(1, n // 2)}.get(mode) or rng.randint(1, max(1, n))
    pool = rng.sample(range(0, den + 1), min(k, den + 1))
    return [rng.choice(pool) for _ in range(n)]


def gen_exact_bound(rng, p, den=DEN, k=None, j=None, m=None):
    """(scores, labels) whose best admissible curve point has precision EXACTLY p = a/b: a top block of a*k
    positives and (b-a)*k negatives (one tie group, or positives-first distinct scores), then j negatives and
    m positives at lower scores (precision drops below p there, recall at the exact point is < 1 when m > 0)."""
    a, b = p.numerator, p.denominator
    k = k or rng.choice([1, 1, 2, 3]); j = rng.choice([1, 2, 3]) if j is None else j; m = rng.choice([0, 1, 2]) if m is None else m
    npos, nneg = a * k, (b - a) * k
    hi = den
    if rng.random() < 0.5:
        xs, ys = [hi] * (npos + nneg), [1] * npos + [0] * nneg
    else:                                   # distinct scores, positives first, some ties inside
        xs = [hi - i // rng.choice([1, 1, 2]) for i in range(npos + nneg)]
        ys = [1] * npos + [0] * nneg
    lo = min(xs) - 1
    xs += [lo - i for i in range(j)] + [lo - j - i for i in range(m)]
    ys += [0] * j + [1] * m
    order = list(range(len(xs)))
    rng.shuffle(order)
    return [xs[i] for i in order], [ys[i] for i in order]


def gen_chained_rows(rng, t, n, den=DEN, kind="chained"):
    """t rows of n scores with run-of-equal-scores continuing across every row boundary of the row-major
    flattening of the per-row descending sorts: min(row i) == max(row i+1)."""
    if kind == "const":
        return [[den // 2] * n for _ in range(t)]
    if kind == "clip":
        rows = []
        for i in range(t):
            mode = rng.choice(["allhi", "alllo", "mix", "mix"])
            rows.append([den if mode == "allhi" else 0 if mode == "alllo" else rng.choice([0, den]) for _ in range(n)])
        return rows
    piv = [den - 8 * i for i in range(t + 1)]               # P_0 > P_1 > ... > P_t; row i lives in [P_{i+1}, P_i]
    rows = []
    for i in range(t):
        lo, hi = piv[i + 1], piv[i]
        if n == 1:
            rows.append([lo])
            continue
        r = [lo, hi] + [rng.choice([lo, hi, rng.randint(lo, hi)]) for _ in range(n - 2)]
        rng.shuffle(r)
        rows.append(r)
    return rows


def gen_labels(rng, n, mode=None):
    mode = mode or rng.choice(["half", "half", "half", "few", "most", "allpos", "allneg"])
    if mode == "allpos":
        return [1] * n
    if mode == "allneg":
        return [0] * n
    p = {"half": 0.5, "few": 0.2, "most": 0.8}[mode]
    return [1 if rng.random() < p else 0 for _ in range(n)]


def tie_ratio(xs):
    return 0.0 if not xs else 1.0 - len(set(xs)) / len(xs)


def T_(rows):
    return [list(r) for r in zip(*rows)] if rows else []


def fl(x, den=DEN, dtype=torch.float32):
    def conv(y):
        return [conv(z) for z in y] if isinstance(y, list) else y / den
    return torch.tensor(conv(x), dtype=torch.float64 if den > 2 ** 23 else dtype)


class _Curve(Entry):
    family = "cache"
    order_free = True
    batching_free = True
    min_batch = 1
    min_compute = 1

    def kwargs(self, cfg):
        return {k: v for k, v in cfg.items() if k not in ("den", "chain")}

    def __init_subclass__(cls, **kw):
        # every curve class is also exercised with float64 scores on a 2^-40 grid
        super().__init_subclass__(**kw)
        if "configs" in cls.__dict__:
            orig = cls.__dict__["configs"]

            def configs(self, rng, quick=True, _orig=orig):
                cfgs = _orig(self, rng, quick)
                return cfgs + [dict(cfgs[0], den=FINE_DEN)]
            cls.configs = configs

    def avg(self, cfg):
        return 1 if cfg.get("average") == "macro" else 0


# ---------------------------------------------------------------------------------------------
# binary, multi-task layout (BinaryAUROC, BinaryAUPRC)
# ---------------------------------------------------------------------------------------------
class _BinaryTasks(_Curve):
    weighted = False

    def configs(self, rng, quick=True):
        # "chain": every batch of the configuration has runs of equal scores crossing the task-row boundaries
        return [{"den": DEN, "num_tasks": t} for t in (1, 2, 3)] + \
               [{"den": DEN, "num_tasks": 2, "chain": "chained"}, {"den": DEN, "num_tasks": 3, "chain": "const"},
                {"den": DEN, "num_tasks": 3, "chain": "chained"}, {"den": DEN, "num_tasks": 2, "chain": "clip"}]

    def cfg_val(self, cfg):
        return [cfg["den"], cfg["num_tasks"]]

    def gen_batch(self, rng, cfg, n):
        t = cfg["num_tasks"]
        if cfg.get("chain"):
            xs = T_(gen_chained_rows(rng, t, n, cfg["den"], cfg["chain"]))
        else:
            xs = T_([gen_scores(rng, n, cfg["den"]) for _ in range(t)])     # rows differ in tie structure
        ys = T_([gen_labels(rng, n) for _ in range(t)])
        b = {"x": xs, "y": ys, "wmode": "none"}
        if self.weighted and rng.random() < 0.6:
            b["wmode"] = "each"
            b["w"] = [[rng.choice(WEIGHTS) for _ in range(t)] for _ in range(n)]
        else:
            b["w"] = [[F(1)] * t for _ in range(n)]
        return b

    def tensors(self, cfg, b):
        t = cfg["num_tasks"]
        x = fl(b["x"], cfg["den"]).reshape(-1, t)
        y = torch.tensor(b["y"], dtype=torch.int64).reshape(-1, t)
        w = torch.tensor([[float(v) for v in r] for r in b["w"]], dtype=torch.float64).reshape(-1, t)
        if t == 1:
            return x[:, 0], y[:, 0], w[:, 0]
        return x.T.contiguous(), y.T.contiguous(), w.T.contiguous()

    def batch_val(self, cfg, b):
        return [[[z, y, w] for z, y, w in zip(xr, yr, wr)] for xr, yr, wr in zip(b["x"], b["y"], b["w"])]

    def concat(self, cfg, batches):
        out = {"x": [], "y": [], "w": [], "wmode": "none"}
        for b in batches:
            out["x"] += b["x"]; out["y"] += b["y"]; out["w"] += b["w"]
            if b["wmode"] == "each":
                out["wmode"] = "each"
        return out

    def size(self, b):
        return len(b["x"])


class BinaryAUROCE(_BinaryTasks):
    name, cls, model, fn_model, spec_model = "BinaryAUROC", M.BinaryAUROC, "curves_bauroc", "curves_bauroc_fn", "curves_bauroc_spec"
    weighted = True

    def args(self, cfg, b):
        x, y, w = self.tensors(cfg, b)
        return (x, y), ({"weight": w} if b["wmode"] == "each" else {})

    def functional(self, cfg, b):
        x, y, w = self.tensors(cfg, b)
        return Fn.binary_auroc(x, y, num_tasks=cfg["num_tasks"], weight=w if b["wmode"] == "each" else None)


class BinaryAUPRCE(_BinaryTasks):
    name, cls, model, fn_model, spec_model = "BinaryAUPRC", M.BinaryAUPRC, "curves_bauprc", "curves_bauprc_fn", "curves_bauprc_spec"

    def args(self, cfg, b):
        x, y, _ = self.tensors(cfg, b)
        return (x, y), {}

    def functional(self, cfg, b):
        x, y, _ = self.tensors(cfg, b)
        return Fn.binary_auprc(x, y, num_tasks=cfg["num_tasks"])


# ---------------------------------------------------------------------------------------------
# binary, 1-D layout (BinaryPrecisionRecallCurve, BinaryRecallAtFixedPrecision)
# ---------------------------------------------------------------------------------------------
class _Binary1(_Curve):
    def cfg_val(self, cfg):
        return [cfg["den"], cfg.get("min_precision", F(0))]

    def kwargs(self, cfg):
        k = super().kwargs(cfg)
        if "min_precision" in k:
            k["min_precision"] = float(k["min_precision"])
        return k

    def gen_batch(self, rng, cfg, n):
        p = cfg.get("min_precision")
        if p and 0 < p < 1 and cfg["den"] == DEN and rng.random() < 0.4:
            xs, ys = gen_exact_bound(rng, p, cfg["den"])
            return {"x": xs, "y": ys}
        return {"x": gen_scores(rng, n, cfg["den"]), "y": gen_labels(rng, n)}

    def tensors(self, cfg, b):
        return fl(b["x"], cfg["den"]), torch.tensor(b["y"], dtype=torch.int64)

    def args(self, cfg, b):
        return self.tensors(cfg, b), {}

    def batch_val(self, cfg, b):
        return [[z, y] for z, y in zip(b["x"], b["y"])]


class BinaryPRCE(_Binary1):
    name, cls = "BinaryPrecisionRecallCurve", M.BinaryPrecisionRecallCurve
    model, fn_model, spec_model = "curves_bprc", "curves_bprc_fn", "curves_bprc_spec"

    def configs(self, rng, quick=True):
        return [{"den": DEN}]

    def functional(self, cfg, b):
        return Fn.binary_precision_recall_curve(*self.tensors(cfg, b))


class BinaryRAPE(_Binary1):
    name, cls = "BinaryRecallAtFixedPrecision", M.BinaryRecallAtFixedPrecision
    model, fn_model, spec_model = "curves_brap", "curves_brap_fn", "curves_brap_spec"

    def configs(self, rng, quick=True):
        return [{"den": DEN, "min_precision": p} for p in MINP + MINP_NONDYADIC]

    def functional(self, cfg, b):
        return Fn.binary_recall_at_fixed_precision(*self.tensors(cfg, b), min_precision=float(cfg["min_precision"]))


# ---------------------------------------------------------------------------------------------
# multiclass layout: x (n, C) scores, y (n,) class ids
# ---------------------------------------------------------------------------------------------
class _Multi(_Curve):
    nkey = "num_classes"
    has_avg = True

    def configs(self, rng, quick=True):
        out = []
        for c in (2, 3, 4):
            if self.has_avg:
                out += [{"den": DEN, self.nkey: c, "average": a} for a in ("macro", None)]
            else:
                out.append({"den": DEN, self.nkey: c})
        if self.has_avg:
            out.append({"den": DEN, self.nkey: 3, "average": "none"})
        return out

    def cfg_val(self, cfg):
        return [cfg["den"], cfg[self.nkey], self.avg(cfg), cfg.get("min_precision", F(0))]

    def kwargs(self, cfg):
        k = super().kwargs(cfg)
        if "min_precision" in k:
            k["min_precision"] = float(k["min_precision"])
        return k

    def size(self, b):
        return len(b["x"])


class _Multiclass(_Multi):
    def gen_batch(self, rng, cfg, n):
        c = cfg[self.nkey]
        if cfg["den"] == DEN and rng.random() < 0.2:      # equal-score runs crossing the class-row boundaries
            xs = T_(gen_chained_rows(rng, c, n, cfg["den"], rng.choice(["chained", "const", "clip"])))
        else:
            xs = T_([gen_scores(rng, n, cfg["den"]) for _ in range(c)])
        mode = rng.choice(["any", "any", "any", "one", "two"])
        if mode == "one":                          # all other classes absent from the labels
            k = rng.randrange(c)
            ys = [k] * n
        elif mode == "two":
            ks = rng.sample(range(c), 2)
            ys = [rng.choice(ks) for _ in range(n)]
        else:
            ys = [rng.randrange(c) for _ in range(n)]
        return {"x": xs, "y": ys}

    def tensors(self, cfg, b):
        return fl(b["x"], cfg["den"]).reshape(-1, cfg[self.nkey]), torch.tensor(b["y"], dtype=torch.int64)

    def args(self, cfg, b):
        return self.tensors(cfg, b), {}

    def batch_val(self, cfg, b):
        return [[xr, y] for xr, y in zip(b["x"], b["y"])]


class MulticlassAUROCE(_Multiclass):
    name, cls = "MulticlassAUROC", M.MulticlassAUROC
    model, fn_model, spec_model = "curves_mcauroc", "curves_mcauroc_fn", "curves_mcauroc_spec"

    def functional(self, cfg, b):
        return Fn.multiclass_auroc(*self.tensors(cfg, b), num_classes=cfg["num_classes"], average=cfg["average"])


class MulticlassAUPRCE(_Multiclass):
    name, cls = "MulticlassAUPRC", M.MulticlassAUPRC
    model, fn_model, spec_model = "curves_mcauprc", "curves_mcauprc_fn", "curves_mcauprc_spec"

    def functional(self, cfg, b):
        return Fn.multiclass_auprc(*self.tensors(cfg, b), num_classes=cfg["num_classes"], average=cfg["average"])


class MulticlassPRCE(_Multiclass):
    name, cls = "MulticlassPrecisionRecallCurve", M.MulticlassPrecisionRecallCurve
    model, fn_model, spec_model = "curves_mcprc", "curves_mcprc_fn", "curves_mcprc_spec"
    has_avg = False

    def configs(self, rng, quick=True):
        return super().configs(rng, quick) + [{"den": DEN, "num_classes": 3, "implicit": True}]

    def kwargs(self, cfg):
        return {"num_classes": None if cfg.get("implicit") else cfg["num_classes"]}

    def functional(self, cfg, b):
        return Fn.multiclass_precision_recall_curve(*self.tensors(cfg, b), num_classes=self.kwargs(cfg)["num_classes"])


# ---------------------------------------------------------------------------------------------
# multilabel layout: x (n, L) scores, y (n, L) 0/1
# ---------------------------------------------------------------------------------------------
class _Multilabel(_Multi):
    nkey = "num_labels"

    def gen_batch(self, rng, cfg, n):
        c = cfg[self.nkey]
        if cfg["den"] == DEN and rng.random() < 0.2:
            xs = T_(gen_chained_rows(rng, c, n, cfg["den"], rng.choice(["chained", "const", "clip"])))
        else:
            xs = T_([gen_scores(rng, n, cfg["den"]) for _ in range(c)])
        ys = T_([gen_labels(rng, n) for _ in range(c)])      # some labels all-positive / all-negative
        return {"x": xs, "y": ys}

    def tensors(self, cfg, b):
        c = cfg[self.nkey]
        return fl(b["x"], cfg["den"]).reshape(-1, c), torch.tensor(b["y"], dtype=torch.int64).reshape(-1, c)

    def args(self, cfg, b):
        return self.tensors(cfg, b), {}

    def batch_val(self, cfg, b):
        return [[xr, yr] for xr, yr in zip(b["x"], b["y"])]


class MultilabelAUPRCE(_Multilabel):
    name, cls = "MultilabelAUPRC", M.MultilabelAUPRC
    model, fn_model, spec_model = "curves_mlauprc", "curves_mlauprc_fn", "curves_mlauprc_spec"

    def functional(self, cfg, b):
        return Fn.multilabel_auprc(*self.tensors(cfg, b), num_labels=cfg["num_labels"], average=cfg["average"])


class MultilabelPRCE(_Multilabel):
    name, cls = "MultilabelPrecisionRecallCurve", M.MultilabelPrecisionRecallCurve
    model, fn_model, spec_model = "curves_mlprc", "curves_mlprc_fn", "curves_mlprc_spec"
    has_avg = False

    def functional(self, cfg, b):
        return Fn.multilabel_precision_recall_curve(*self.tensors(cfg, b), num_labels=cfg["num_labels"])


class MultilabelRAPE(_Multilabel):
    name, cls = "MultilabelRecallAtFixedPrecision", M.MultilabelRecallAtFixedPrecision
    model, fn_model, spec_model = "curves_mlrap", "curves_mlrap_fn", "curves_mlrap_spec"
    has_avg = False

    def configs(self, rng, quick=True):
        return [{"den": DEN, "num_labels": c, "min_precision": p} for c in (2, 3, 4) for p in MINP] + \
               [{"den": DEN, "num_labels": 2 + i % 2, "min_precision": p} for i, p in enumerate(MINP_NONDYADIC)]

    def gen_batch(self, rng, cfg, n):
        p = cfg.get("min_precision")
        if p and 0 < p < 1 and cfg["den"] == DEN and rng.random() < 0.4:
            k, j, m = rng.choice([1, 1, 2]), rng.choice([1, 2, 3]), rng.choice([0, 1, 2])
            cols = [gen_exact_bound(rng, p, cfg["den"], k, j, m) for _ in range(cfg["num_labels"])]
            return {"x": T_([c[0] for c in cols]), "y": T_([c[1] for c in cols])}
        return super().gen_batch(rng, cfg, n)

    def functional(self, cfg, b):
        return Fn.multilabel_recall_at_fixed_precision(*self.tensors(cfg, b), num_labels=cfg["num_labels"],
                                                       min_precision=float(cfg["min_precision"]))


ENTRIES = [BinaryAUROCE(), MulticlassAUROCE(), BinaryAUPRCE(), MulticlassAUPRCE(), MultilabelAUPRCE(),
           BinaryPRCE(), MulticlassPRCE(), MultilabelPRCE(), BinaryRAPE(), MultilabelRAPE()]
