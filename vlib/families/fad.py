"""FrechetAudioDistance (class) and gaussian_frechet_distance (functional, not a class entry).

The embedding network is a tiny fixed Linear(4, 3) with DYADIC weights, so that float32 embeddings of dyadic inputs and
all partial sums are exact; the Coq model receives the embedded frames (computed here exactly) -- it is about the
accumulation and the formula, not the network.  compute() runs in float32 (registered states are float32) and takes
sqrt of eigenvalues: the tolerance 2^-10 is chosen from that conditioning; every update brings >= 5 frames per side so the
covariances are non-singular.  update() is not atomic (known finding C14-commit-FrechetAudioDistance): valid inputs only."""
from fractions import Fraction
import torch
from torcheval import metrics as M
from torcheval.metrics import functional as Fn
from ..catalogue import Entry, tens, grid, F
from ..compare import impl_val
from .. import fad_support  # noqa: F401  (registers the evaluator of the uninterpreted eigenvalue node)

W = [[F(1, 2), F(-1, 4), F(0), F(1)], [F(-1), F(1, 2), F(1, 4), F(0)], [F(1, 4), F(0), F(-1, 2), F(1, 2)]]
B = [F(1, 4), F(-1, 2), F(0)]
D = 3


def identity(x):
    return x


def linear():
    lin = torch.nn.Linear(4, D)
    with torch.no_grad():
        lin.weight.copy_(tens(W, torch.float32))
        lin.bias.copy_(tens(B, torch.float32))
    return lin


def embed(frame):
    return [sum((w * x for w, x in zip(row, frame)), Fraction(0)) + b for row, b in zip(W, B)]


class FADE(Entry):
    name, cls, model = "FrechetAudioDistance", M.FrechetAudioDistance, "fad"
    tol = Fraction(1, 2 ** 10)
    family = "additive"
    has_functional = False
    min_batch = 5
    min_compute = 5
    MIN_FRAMES = 5

    def configs(self, rng, quick=True):
        return [{"_d": D}]

    def make(self, cfg):
        return self.cls(preproc=identity, model=linear(), embedding_dim=D)

    def kwargs(self, cfg):
        return {}

    def cfg_val(self, cfg):
        return D

    def _wave(self, rng, frames):
        return [grid(rng, 4, 4, -8, 8) for _ in range(frames)]

    def gen_batch(self, rng, cfg, n):
        fp, ft = max(self.MIN_FRAMES, n), max(self.MIN_FRAMES, rng.choice([n, n + 1, 2 * n]))
        return {"p": [self._wave(rng, fp) for _ in range(rng.choice([1, 1, 2]))],
                "t": [self._wave(rng, ft) for _ in range(rng.choice([1, 2]))]}

    def args(self, cfg, b):
        return (tens(b["p"], torch.float32), tens(b["t"], torch.float32)), {}

    def batch_val(self, cfg, b):
        return [[embed(f) for w in b["p"] for f in w], [embed(f) for w in b["t"] for f in w]]

    def concat(self, cfg, batches):
        # all frames of all waveforms as ONE waveform per side: same embedded rows, same sums
        return {"p": [[f for b in batches for w in b["p"] for f in w]], "t": [[f for b in batches for w in b["t"] for f in w]]}

    def samples(self, cfg, b):
        return None

    def size(self, b):
        return min(sum(len(w) for w in b["p"]), sum(len(w) for w in b["t"]))


class FrechetFn(Entry):
    """functional gaussian_frechet_distance(mu_x, cov_x, mu_y, cov_y); used by the C07 part only (not in ENTRIES)."""
    name, cls, model, fn_model = "gaussian_frechet_distance", None, None, "fad_frechet_fn"
    tol = Fraction(1, 2 ** 30)

    def configs(self, rng, quick=True):
        return [{"_d": 2}, {"_d": 3}, {"_d": 1}]

    def cfg_val(self, cfg):
        return cfg["_d"]

    def _spd(self, rng, d):
        a = [[Fraction(rng.randint(-4, 4), 2) for _ in range(d)] for _ in range(d)]
        return [[sum(a[i][k] * a[j][k] for k in range(d)) + (Fraction(rng.choice([1, 2, 4]), 4) if i == j else 0)
                 for j in range(d)] for i in range(d)]

    def gen_batch(self, rng, cfg, n):
        d = cfg["_d"]
        b = {"mx": grid(rng, d, 4, -8, 8), "cx": self._spd(rng, d), "my": grid(rng, d, 4, -8, 8), "cy": self._spd(rng, d)}
        if rng.random() < 0.15:
            b["my"], b["cy"] = list(b["mx"]), [list(r) for r in b["cx"]]      # identical Gaussians: distance 0
        return b

    def batch_val(self, cfg, b):
        return [b["mx"], b["cx"], b["my"], b["cy"]]

    def size(self, b):
        return 2

    def functional(self, cfg, b):
        f = lambda v: tens(v, torch.float64)
        return Fn.gaussian_frechet_distance(f(b["mx"]), f(b["cx"]), f(b["my"]), f(b["cy"]))


class FrechetFnRankDeficient(FrechetFn):
    """covariances of fewer samples than dimensions (rank-deficient, exact zero eigenvalues of the product: the
    numerically computed ones come back as tiny values of either sign)"""
    name = "gaussian_frechet_distance[rank-deficient]"
    tol = Fraction(1, 2 ** 18)            # sqrt of an eigenvalue that is 0 up to 1e-16 contributes up to 1e-8

    def configs(self, rng, quick=True):
        return [{"_d": 2, "_rank": 1}, {"_d": 3, "_rank": 1}, {"_d": 3, "_rank": 2}, {"_d": 4, "_rank": 2}]

    def _psd(self, rng, d, r):
        a = [[Fraction(rng.randint(-4, 4), 2) for _ in range(r)] for _ in range(d)]
        return [[sum(a[i][k] * a[j][k] for k in range(r)) for j in range(d)] for i in range(d)]

    def gen_batch(self, rng, cfg, n):
        d, r = cfg["_d"], cfg["_rank"]
        which = rng.choice(["both", "x", "y"])
        return {"mx": grid(rng, d, 4, -8, 8), "cx": self._psd(rng, d, r) if which != "y" else self._spd(rng, d),
                "my": grid(rng, d, 4, -8, 8), "cy": self._psd(rng, d, r) if which != "x" else self._spd(rng, d)}


FRECHET_FN = FrechetFn()
FRECHET_FN_RD = FrechetFnRankDeficient()
ENTRIES = [FADE()]
